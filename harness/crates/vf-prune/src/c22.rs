//! C22 — statistics-based pruning never skips a container with a matching row; literal guarantees hold.
//!
//! Case = schema (1–3 columns from {Int32, Int64, UInt8, Float64, Utf8, Utf8View, Boolean, Date32,
//! Decimal128(9,2)}), a predicate tree of depth ≤ 3 (plain-data AST whose column/literal choices are small
//! indices resolved against the schema inside `run`, so every tree is well typed by construction and
//! shrinks independently of the schema), 1–6 containers of 0–8 rows whose cells are indices into small,
//! sorted, boundary-heavy value pools (NULL-heavy), and per container/column *weakening* choices.
//!
//! Statistics: min / max / null count / row count are computed here from the rows (own code; ordering =
//! the engine's: numeric, IEEE total order for floats (no NaN), byte-wise for strings), then weakened
//! soundly: an entry becomes unknown (NULL entry, or a `None` array for the whole column), min is lowered /
//! max is raised to another pool value, counts become unknown, `contained()` answers are computed from
//! the rows (TRUE = no NULL row and every value is in the set, FALSE = no non-null value is) or left unknown. For a column
//! that has no non-null value in a container every min/max is (vacuously) valid, so arbitrary pool
//! values are supplied there as well — `wrap_null_count_check_expr` documents that real sources do that.
//!
//! Engine paths: `PruningPredicateBuilder::new().with_file_schema(..).with_max_in_list_size(n).try_build(p)
//! .prune(&stats)` with the harness `PruningStatistics`; the same predicate against
//! `PrunableStatistics` built from `Statistics{Precision::Exact|Inexact|Absent}` (the representation
//! `FilePruner` uses); `FilePruner::try_new(..).should_prune()` for container 0; optionally the predicate
//! is first passed through `PhysicalExprSimplifier` (the documented recommendation).
//!
//! Oracle: the row-level truth of the *original* predicate is DataFusion's own evaluation of the
//! physical expression on the container's rows (row by row when the batch evaluation errors), cross
//! checked against a small reference evaluator where that one is defined (a disagreement is reported as
//! `inconclusive`, never as a violation of C22). Violation iff a container reported prunable (`false`) has
//! a row for which the predicate is TRUE, or a `LiteralGuarantee` (from `LiteralGuarantee::analyze` and
//! from `PruningPredicate::literal_guarantees`) does not hold on a row where the predicate is TRUE.
//!
//! Deviations from DESIGN.md §C22: lives in crate vf-prune (not vf-expr); there is no shared
//! `refsql::expr`, the reference evaluator is local and partial; "builder without file schema" is an
//! internal error by construction (`try_build` requires it) and is not generated; arithmetic on columns
//! is generated but the rewriter treats it as unhandled (always keeps) — it is kept to check exactly that.
//!
//! Genuine defects found on the unchanged tree (each: minimal case under /verif/regressions/C22/c22/, open entry
//! in /verif/known_findings.json, signature excluded by `known_sig`, candidate repair under /verif/fixes/):
//! 1. `neg-of-int-min` — `-c < lit` is rewritten to `c > -lit`, but NegativeExpr wraps (`-MIN = MIN`).
//! 2. `cast-numeric-to-bool` — `CAST(int AS BOOLEAN) op lit` rewritten to min/max although the cast is not monotone.
//! 3. `cast-decimal-to-int` — try_build's simplifier pass "unwraps" the truncating cast Decimal -> Int
//!    (`CAST(d AS INT) >= -1` -> `d >= -1.00`), pruning a container whose max is -1.50.
//! 4. `try-cast-is-not-distinct-from-null` — `TRY_CAST(c AS T) IS NOT DISTINCT FROM NULL` -> `c_null_count > 0`.
//! Status after the fix series in /repo: 2, 3, 4 are `fixed` (their cases are plain regressions and pass, the shapes are
//! back in play); 1 stays open. `known_signature` collects every matching signature and answers an OPEN one first
//! (`pick_signature`), so a fixed signature can never shadow an open finding (regression
//! `neg-of-int-min-shadowed-by-fixed-signature.json`: `-c1 < lit AND .. CAST(-c1 AS Boolean) IS NOT NULL`).
//! Also observed, not C22's subject (only labelled `simplifier-changed-row-truth`): PhysicalExprSimplifier turns
//! `TRY_CAST(u8 AS Int8) != 2` into `u8 != 2` (NULL -> TRUE for 200).
//!
//! Sensitivity probes (patches in crates/vf-prune/probes/, `mutrun <patch> -- ./check C22 quick`):
//! * c22-p2-ne-and: `col != lit` pruned on `min != lit AND lit != max` (instead of OR)        -> VIOLATION after 23 cases
//! * c22-p3-guarantee-noteq-in: LiteralGuarantee treats `!=` as an `In` guarantee              -> VIOLATION after 93 cases
//!   (caught by the guarantee oracle: "literal guarantee `c0 in (..)` fails on a row where the predicate is TRUE")
//! * c22-p4-isnull-gt1: `IS NULL` rewritten to `null_count > 1`                                 -> VIOLATION after 67 cases
//! * c22-p1-notlike-any-suffix: NOT LIKE rule applied to any pattern with a constant prefix (`a_`, `a%b`): first run
//!   stayed green (the string pool had no value between two matching strings that does not match); the pool was
//!   extended ("aab", "ac", "acb", "abd"); the re-run is `VF_PROBE=c22p1` in probes/run-all.sh, verdict in
//!   probes/run-all-log.txt: VIOLATION after 5 047 cases (`c2 NOT LIKE 'a%b'`, container ["ab".."acb"] holding "abd").
//! * seeded defect /verif/seeded/C22-a (CAST/TRY_CAST around a negated column loses the operator flip): missed at
//!   first — not because of the `neg-of-int-min` signature (it only matches when a ROW holds the type's MIN) but
//!   because the term grammar had no nested shape: casts and negations each wrapped a bare column only. The term
//!   `T::CastNeg` (`CAST(-c AS T)` / `TRY_CAST(-c AS T)`, weight 3 of 21) was added; verdict with
//!   `mutrun /verif/seeded/C22-a/patch.diff -- ./check C22 quick`: see SEEDED-VERDICT below.
//! SEEDED-VERDICT: VIOLATION after 10 cases (`CAST((- c0) AS Decimal128(12,3)) < 0.000`, container {1.00} pruned on
//!   `c0_min < 0.00`); the unchanged tree exits 0 on seeds 0..4 and 21..24.
//! Candidate repairs: /verif/fixes/C22-*.diff (one per finding); with all four applied the four regression cases
//! pass and `./check C22 quick` exits 0 (seeds 0, 1) — probes/run-all-log.txt.
use std::collections::HashSet;
use std::sync::Arc;

use arrow::array::{
    Array, ArrayRef, BooleanArray, Date32Array, Decimal128Array, Float32Array, Float64Array, Int8Array, Int32Array, Int64Array, LargeStringArray, StringArray,
    StringViewArray, UInt8Array, UInt64Array,
};
use arrow::datatypes::{DataType, Field, Schema, SchemaRef};
use arrow::record_batch::{RecordBatch, RecordBatchOptions};
use datafusion_common::pruning::{PrunableStatistics, PruningStatistics};
use datafusion_common::stats::Precision;
use datafusion_common::{Column, ColumnStatistics, DFSchema, ScalarValue, Statistics};
// datafusion-datasource / -physical-plan are only reachable through the generated feature-unification
// aliases of this crate's Cargo.toml (cargo forbids declaring the same package under two names)
use u_datafusion_datasource_55_0_0::PartitionedFile;
use datafusion_expr::execution_props::ExecutionProps;
use datafusion_expr::expr::{Cast, InList, Like, TryCast};
use datafusion_expr::physical_planning_context::PhysicalPlanningContext;
use datafusion_expr::{Expr, Operator, binary_expr};
use datafusion_physical_expr::utils::{Guarantee, LiteralGuarantee};
use datafusion_physical_expr::{PhysicalExpr, PhysicalExprSimplifier, create_physical_expr};
use u_datafusion_physical_plan_55_0_0::metrics::Count;
use datafusion_pruning::{FilePruner, PruningPredicateBuilder};
use proptest::prelude::*;
use serde::{Deserialize, Serialize};
use vf_kit::engine::*;

pub struct C22;

// ---------------------------------------------------------------------------------------------
// types and value pools

#[derive(Clone, Copy, Debug, PartialEq, Eq, Serialize, Deserialize)]
pub enum Ty {
    I8,
    I32,
    I64,
    U8,
    F32,
    F64,
    Utf8,
    LargeUtf8,
    Utf8View,
    Bool,
    Date32,
    Dec92,
    Dec123,
}

const COL_TYPES: [Ty; 9] = [Ty::I32, Ty::I64, Ty::U8, Ty::F64, Ty::Utf8, Ty::Utf8View, Ty::Bool, Ty::Date32, Ty::Dec92];

impl Ty {
    fn data_type(self) -> DataType {
        match self {
            Ty::I8 => DataType::Int8,
            Ty::I32 => DataType::Int32,
            Ty::I64 => DataType::Int64,
            Ty::U8 => DataType::UInt8,
            Ty::F32 => DataType::Float32,
            Ty::F64 => DataType::Float64,
            Ty::Utf8 => DataType::Utf8,
            Ty::LargeUtf8 => DataType::LargeUtf8,
            Ty::Utf8View => DataType::Utf8View,
            Ty::Bool => DataType::Boolean,
            Ty::Date32 => DataType::Date32,
            Ty::Dec92 => DataType::Decimal128(9, 2),
            Ty::Dec123 => DataType::Decimal128(12, 3),
        }
    }
    fn is_string(self) -> bool {
        matches!(self, Ty::Utf8 | Ty::LargeUtf8 | Ty::Utf8View)
    }
    fn is_int(self) -> bool {
        matches!(self, Ty::I8 | Ty::I32 | Ty::I64 | Ty::U8)
    }
    fn int_range(self) -> Option<(i128, i128)> {
        match self {
            Ty::I8 => Some((i8::MIN as i128, i8::MAX as i128)),
            Ty::I32 | Ty::Date32 => Some((i32::MIN as i128, i32::MAX as i128)),
            Ty::I64 => Some((i64::MIN as i128, i64::MAX as i128)),
            Ty::U8 => Some((0, 255)),
            _ => None,
        }
    }
    fn supports_neg(self) -> bool {
        matches!(self, Ty::I32 | Ty::I64 | Ty::F64 | Ty::Dec92)
    }
    fn supports_arith(self) -> bool {
        matches!(self, Ty::I32 | Ty::I64 | Ty::F64 | Ty::U8)
    }
    /// cast targets offered for a column of this type
    fn cast_targets(self) -> &'static [Ty] {
        match self {
            Ty::I32 => &[Ty::I64, Ty::I8, Ty::U8, Ty::F64, Ty::Bool, Ty::Dec92, Ty::Date32],
            Ty::I64 => &[Ty::I32, Ty::I8, Ty::F64, Ty::Bool, Ty::U8, Ty::F32],
            Ty::U8 => &[Ty::I32, Ty::I8, Ty::I64, Ty::F64],
            Ty::F64 => &[Ty::I32, Ty::I64, Ty::F32, Ty::Bool, Ty::I8],
            Ty::Utf8 => &[Ty::LargeUtf8, Ty::Utf8View],
            Ty::Utf8View => &[Ty::Utf8, Ty::LargeUtf8],
            Ty::Date32 => &[Ty::I32, Ty::I64],
            Ty::Dec92 => &[Ty::Dec123, Ty::F64, Ty::I32, Ty::I64],
            Ty::Bool => &[Ty::I32, Ty::U8],
            _ => &[],
        }
    }
}

/// a non-null value; the type is carried separately
#[derive(Clone, Debug, PartialEq)]
pub enum Raw {
    I(i128),
    F(f64),
    S(String),
    B(bool),
}

fn cmp_raw(a: &Raw, b: &Raw) -> std::cmp::Ordering {
    match (a, b) {
        (Raw::I(x), Raw::I(y)) => x.cmp(y),
        (Raw::F(x), Raw::F(y)) => x.total_cmp(y),
        (Raw::S(x), Raw::S(y)) => x.as_bytes().cmp(y.as_bytes()),
        (Raw::B(x), Raw::B(y)) => x.cmp(y),
        _ => panic!("cmp_raw on mixed kinds"),
    }
}

fn raw_eq(a: &Raw, b: &Raw) -> bool {
    cmp_raw(a, b) == std::cmp::Ordering::Equal
}

/// sorted (engine order) value pool of a type
fn pool(ty: Ty) -> Vec<Raw> {
    let mut v: Vec<Raw> = match ty {
        Ty::I8 => [-128i128, -127, -2, -1, 0, 1, 2, 3, 5, 100, 126, 127].iter().map(|x| Raw::I(*x)).collect(),
        Ty::I32 => {
            let (lo, hi) = (i32::MIN as i128, i32::MAX as i128);
            [lo, lo + 1, -1000, -129, -3, -2, -1, 0, 1, 2, 3, 4, 5, 7, 10, 100, 127, 128, 255, 256, 1000, hi - 1, hi].iter().map(|x| Raw::I(*x)).collect()
        }
        Ty::I64 => {
            let (lo, hi) = (i64::MIN as i128, i64::MAX as i128);
            [lo, lo + 1, -(1i128 << 31) - 1, -1000, -3, -2, -1, 0, 1, 2, 3, 4, 5, 7, 10, 100, 128, 256, 1000, 1i128 << 31, (1i128 << 53) + 1, hi - 1, hi]
                .iter()
                .map(|x| Raw::I(*x))
                .collect()
        }
        Ty::U8 => [0i128, 1, 2, 3, 5, 10, 100, 127, 128, 200, 254, 255].iter().map(|x| Raw::I(*x)).collect(),
        Ty::F32 => [f32::MIN as f64, -2.5, -1.0, 0.0, 1.0, 1.5, 2.0, 16777216.0, f32::MAX as f64].iter().map(|x| Raw::F(*x)).collect(),
        Ty::F64 => [
            f64::NEG_INFINITY,
            f64::MIN,
            -1e10,
            -2.5,
            -1.0,
            -0.5,
            0.0,
            0.5,
            1.0,
            1.5,
            2.0,
            2.5,
            3.0,
            100.0,
            127.5,
            1e10,
            f64::MAX,
            f64::INFINITY,
        ]
        .iter()
        .map(|x| Raw::F(*x))
        .collect(),
        Ty::Utf8 | Ty::LargeUtf8 | Ty::Utf8View => {
            ["", "A", "a", "a%", "a_", "aa", "ab", "abc", "ab\u{10FFFF}", "ab\u{10FFFF}c", "b", "ba", "z", "é", "éa", "\u{10FFFF}", "\u{10FFFF}\u{10FFFF}", "a\\", "B", "aab", "ac", "acb", "abd"]
                .iter()
                .map(|s| Raw::S(s.to_string()))
                .collect()
        }
        Ty::Bool => vec![Raw::B(false), Raw::B(true)],
        Ty::Date32 => [-1i128, 0, 1, 2, 100, 18000, 19000, 19001, 20000].iter().map(|x| Raw::I(*x)).collect(),
        Ty::Dec92 => [-999_999_999i128, -1000, -150, -100, -1, 0, 1, 50, 100, 150, 1000, 12345, 999_999_999].iter().map(|x| Raw::I(*x)).collect(),
        Ty::Dec123 => [-999_999_999_999i128, -1500, -1000, 0, 1, 500, 1000, 1500, 10000, 999_999_999_999].iter().map(|x| Raw::I(*x)).collect(),
    };
    v.sort_by(cmp_raw);
    v
}

fn pool_val(ty: Ty, choice: u16) -> Raw {
    let p = pool(ty);
    p[pick_index(choice, p.len())].clone()
}

const LIKE_PATTERNS: [&str; 22] = [
    "a%", "ab%", "a", "%a", "a_", "a%b", "", "%", "a\\%%", "a\\%", "é%", "ab\u{10FFFF}%", "\u{10FFFF}%", "a__%", "_", "ab", "A%", "a\\_%", "%%", "b%", "abc%", "a%%",
];

fn scalar(ty: Ty, v: &Option<Raw>) -> ScalarValue {
    match (ty, v) {
        (Ty::I8, None) => ScalarValue::Int8(None),
        (Ty::I8, Some(Raw::I(x))) => ScalarValue::Int8(Some(*x as i8)),
        (Ty::I32, None) => ScalarValue::Int32(None),
        (Ty::I32, Some(Raw::I(x))) => ScalarValue::Int32(Some(*x as i32)),
        (Ty::I64, None) => ScalarValue::Int64(None),
        (Ty::I64, Some(Raw::I(x))) => ScalarValue::Int64(Some(*x as i64)),
        (Ty::U8, None) => ScalarValue::UInt8(None),
        (Ty::U8, Some(Raw::I(x))) => ScalarValue::UInt8(Some(*x as u8)),
        (Ty::F32, None) => ScalarValue::Float32(None),
        (Ty::F32, Some(Raw::F(x))) => ScalarValue::Float32(Some(*x as f32)),
        (Ty::F64, None) => ScalarValue::Float64(None),
        (Ty::F64, Some(Raw::F(x))) => ScalarValue::Float64(Some(*x)),
        (Ty::Utf8, None) => ScalarValue::Utf8(None),
        (Ty::Utf8, Some(Raw::S(s))) => ScalarValue::Utf8(Some(s.clone())),
        (Ty::LargeUtf8, None) => ScalarValue::LargeUtf8(None),
        (Ty::LargeUtf8, Some(Raw::S(s))) => ScalarValue::LargeUtf8(Some(s.clone())),
        (Ty::Utf8View, None) => ScalarValue::Utf8View(None),
        (Ty::Utf8View, Some(Raw::S(s))) => ScalarValue::Utf8View(Some(s.clone())),
        (Ty::Bool, None) => ScalarValue::Boolean(None),
        (Ty::Bool, Some(Raw::B(b))) => ScalarValue::Boolean(Some(*b)),
        (Ty::Date32, None) => ScalarValue::Date32(None),
        (Ty::Date32, Some(Raw::I(x))) => ScalarValue::Date32(Some(*x as i32)),
        (Ty::Dec92, None) => ScalarValue::Decimal128(None, 9, 2),
        (Ty::Dec92, Some(Raw::I(x))) => ScalarValue::Decimal128(Some(*x), 9, 2),
        (Ty::Dec123, None) => ScalarValue::Decimal128(None, 12, 3),
        (Ty::Dec123, Some(Raw::I(x))) => ScalarValue::Decimal128(Some(*x), 12, 3),
        (t, v) => panic!("scalar: value {v:?} does not fit type {t:?}"),
    }
}

fn make_array(ty: Ty, vals: &[Option<Raw>]) -> ArrayRef {
    fn ints(vals: &[Option<Raw>]) -> Vec<Option<i128>> {
        vals.iter()
            .map(|v| match v {
                Some(Raw::I(x)) => Some(*x),
                None => None,
                o => panic!("int array from {o:?}"),
            })
            .collect()
    }
    fn floats(vals: &[Option<Raw>]) -> Vec<Option<f64>> {
        vals.iter()
            .map(|v| match v {
                Some(Raw::F(x)) => Some(*x),
                None => None,
                o => panic!("float array from {o:?}"),
            })
            .collect()
    }
    fn strs(vals: &[Option<Raw>]) -> Vec<Option<&str>> {
        vals.iter()
            .map(|v| match v {
                Some(Raw::S(x)) => Some(x.as_str()),
                None => None,
                o => panic!("string array from {o:?}"),
            })
            .collect()
    }
    match ty {
        Ty::I8 => Arc::new(Int8Array::from(ints(vals).into_iter().map(|v| v.map(|x| x as i8)).collect::<Vec<_>>())),
        Ty::I32 => Arc::new(Int32Array::from(ints(vals).into_iter().map(|v| v.map(|x| x as i32)).collect::<Vec<_>>())),
        Ty::I64 => Arc::new(Int64Array::from(ints(vals).into_iter().map(|v| v.map(|x| x as i64)).collect::<Vec<_>>())),
        Ty::U8 => Arc::new(UInt8Array::from(ints(vals).into_iter().map(|v| v.map(|x| x as u8)).collect::<Vec<_>>())),
        Ty::F32 => Arc::new(Float32Array::from(floats(vals).into_iter().map(|v| v.map(|x| x as f32)).collect::<Vec<_>>())),
        Ty::F64 => Arc::new(Float64Array::from(floats(vals))),
        Ty::Utf8 => Arc::new(StringArray::from(strs(vals))),
        Ty::LargeUtf8 => Arc::new(LargeStringArray::from(strs(vals))),
        Ty::Utf8View => Arc::new(StringViewArray::from(strs(vals))),
        Ty::Bool => Arc::new(BooleanArray::from(
            vals.iter()
                .map(|v| match v {
                    Some(Raw::B(b)) => Some(*b),
                    None => None,
                    o => panic!("bool array from {o:?}"),
                })
                .collect::<Vec<_>>(),
        )),
        Ty::Date32 => Arc::new(Date32Array::from(ints(vals).into_iter().map(|v| v.map(|x| x as i32)).collect::<Vec<_>>())),
        Ty::Dec92 => Arc::new(Decimal128Array::from(ints(vals)).with_precision_and_scale(9, 2).expect("dec(9,2)")),
        Ty::Dec123 => Arc::new(Decimal128Array::from(ints(vals)).with_precision_and_scale(12, 3).expect("dec(12,3)")),
    }
}

// ---------------------------------------------------------------------------------------------
// the case (plain data)

#[derive(Clone, Debug, Serialize, Deserialize)]
pub struct Lit {
    pub null: bool,
    pub v: u16,
}

/// a term; every choice is an index resolved against the schema in `run`
#[derive(Clone, Debug, Serialize, Deserialize)]
pub enum T {
    Col(u16),
    Cast { c: u16, to: u16, try_cast: bool },
    Neg(u16),
    /// CAST / TRY_CAST around a negated column: `CAST(-c AS T)`
    CastNeg { c: u16, to: u16, try_cast: bool },
    /// col <op> literal (other = None) or col <op> other column of the same type
    Arith { op: u8, c: u16, lit: u16, other: Option<u16> },
    /// NOT boolcol
    NotCol(u16),
}

#[derive(Clone, Debug, Serialize, Deserialize)]
pub enum P {
    Cmp { op: u8, t: T, lit: Lit, flip: bool },
    CmpCols { op: u8, a: u16, b: u16 },
    In { c: u16, list: Vec<Lit>, neg: bool },
    Like { c: u16, pat: u16, neg: bool, ci: bool },
    IsNull { t: T, neg: bool },
    BoolCol { c: u16, neg: bool },
    Const(u8),
    Not(Box<P>),
    And(Box<P>, Box<P>),
    Or(Box<P>, Box<P>),
}

#[derive(Clone, Debug, Serialize, Deserialize)]
pub struct Cell {
    pub null: bool,
    pub v: u16,
}

/// weakening of one column's statistics in one container
#[derive(Clone, Debug, Serialize, Deserialize)]
pub struct Weak {
    /// 0 = exact, 1 = unknown, k ≥ 2: lowered by k-1 pool positions
    pub min: u8,
    /// 0 = exact, 1 = unknown, k ≥ 2: raised by k-1 pool positions
    pub max: u8,
    pub nulls_known: bool,
    pub contained_known: bool,
    /// for a column without non-null values in this container: 0 = min/max unknown, else arbitrary pool values
    pub vacuous: u16,
    /// report known min/max as `Precision::Inexact` in the `Statistics` representation (must then be ignored)
    pub inexact: bool,
}

#[derive(Clone, Debug, Serialize, Deserialize)]
pub struct Cont {
    /// rows × 3 cells (only the first `cols.len()` are used)
    pub rows: Vec<[Cell; 3]>,
    pub weak: [Weak; 3],
    pub row_count_known: bool,
}

#[derive(Clone, Debug, Serialize, Deserialize)]
pub struct Case {
    pub cols: Vec<Ty>,
    pub pred: P,
    pub containers: Vec<Cont>,
    /// choice among MAX_IN_LIST values
    pub max_in_list: u8,
    pub simplify: bool,
    /// per column bit mask: 1 = min_values() is None, 2 = max_values() None, 4 = null_counts() None, 8 = contained() None
    pub none_mask: [u8; 3],
    pub row_counts_none: bool,
}

const MAX_IN_LIST: [usize; 6] = [20, 0, 1, 2, 3, 4];

// ---------------------------------------------------------------------------------------------
// resolved (typed) predicate

#[derive(Clone, Debug)]
enum RT {
    Col(usize, Ty),
    Lit(Ty, Option<Raw>),
    Cast(Box<RT>, Ty, bool),
    Neg(Box<RT>),
    Arith(Operator, Box<RT>, Box<RT>),
    Not(Box<RT>),
}

impl RT {
    fn ty(&self) -> Ty {
        match self {
            RT::Col(_, t) | RT::Lit(t, _) | RT::Cast(_, t, _) => *t,
            RT::Neg(a) | RT::Not(a) => a.ty(),
            RT::Arith(_, a, _) => a.ty(),
        }
    }
}

#[derive(Clone, Debug)]
enum RP {
    Cmp(Operator, RT, RT),
    In(RT, Vec<(Ty, Option<Raw>)>, bool),
    Like { t: RT, pat: String, neg: bool, ci: bool },
    IsNull(RT, bool),
    Bool(RT),
    Const(Option<bool>),
    Not(Box<RP>),
    And(Box<RP>, Box<RP>),
    Or(Box<RP>, Box<RP>),
}

const CMP_OPS: [Operator; 8] =
    [Operator::Eq, Operator::NotEq, Operator::Lt, Operator::LtEq, Operator::Gt, Operator::GtEq, Operator::IsDistinctFrom, Operator::IsNotDistinctFrom];
const ARITH_OPS: [Operator; 3] = [Operator::Plus, Operator::Minus, Operator::Multiply];

struct Resolver<'a> {
    cols: &'a [Ty],
    labels: Vec<String>,
    used_cols: Vec<usize>,
}

impl Resolver<'_> {
    fn col(&mut self, choice: u16) -> (usize, Ty) {
        let i = pick_index(choice, self.cols.len());
        if !self.used_cols.contains(&i) {
            self.used_cols.push(i);
        }
        (i, self.cols[i])
    }
    fn col_where(&mut self, choice: u16, f: impl Fn(Ty) -> bool) -> Option<(usize, Ty)> {
        let idx: Vec<usize> = (0..self.cols.len()).filter(|i| f(self.cols[*i])).collect();
        if idx.is_empty() {
            return None;
        }
        let i = idx[pick_index(choice, idx.len())];
        if !self.used_cols.contains(&i) {
            self.used_cols.push(i);
        }
        Some((i, self.cols[i]))
    }
    fn lab(&mut self, l: impl Into<String>) {
        let l = l.into();
        if !self.labels.contains(&l) {
            self.labels.push(l);
        }
    }
    fn term(&mut self, t: &T) -> RT {
        match t {
            T::Col(c) => {
                let (i, ty) = self.col(*c);
                RT::Col(i, ty)
            }
            T::Cast { c, to, try_cast } => {
                let (i, ty) = self.col(*c);
                let targets = ty.cast_targets();
                if targets.is_empty() {
                    return RT::Col(i, ty);
                }
                let to = targets[pick_index(*to, targets.len())];
                self.lab(if *try_cast { "term:try_cast" } else { "term:cast" });
                self.lab(format!("cast:{ty:?}->{to:?}"));
                RT::Cast(Box::new(RT::Col(i, ty)), to, *try_cast)
            }
            T::Neg(c) => match self.col_where(*c, |t| t.supports_neg()) {
                Some((i, ty)) => {
                    self.lab("term:neg");
                    RT::Neg(Box::new(RT::Col(i, ty)))
                }
                None => {
                    let (i, ty) = self.col(*c);
                    RT::Col(i, ty)
                }
            },
            T::CastNeg { c, to, try_cast } => match self.col_where(*c, |t| t.supports_neg()) {
                Some((i, ty)) => {
                    let targets = ty.cast_targets();
                    let to = targets[pick_index(*to, targets.len())];
                    self.lab("term:cast-of-neg");
                    self.lab(if *try_cast { "term:try_cast" } else { "term:cast" });
                    RT::Cast(Box::new(RT::Neg(Box::new(RT::Col(i, ty)))), to, *try_cast)
                }
                None => {
                    let (i, ty) = self.col(*c);
                    RT::Col(i, ty)
                }
            },
            T::Arith { op, c, lit, other } => match self.col_where(*c, |t| t.supports_arith()) {
                Some((i, ty)) => {
                    let op = ARITH_OPS[pick_index((*op as u16) << 8, ARITH_OPS.len())];
                    let rhs = match other {
                        Some(o) => {
                            let same: Vec<usize> = (0..self.cols.len()).filter(|j| self.cols[*j] == ty).collect();
                            let j = same[pick_index(*o, same.len())];
                            if !self.used_cols.contains(&j) {
                                self.used_cols.push(j);
                            }
                            RT::Col(j, ty)
                        }
                        None => RT::Lit(ty, Some(pool_val(ty, *lit))),
                    };
                    self.lab("term:arith");
                    RT::Arith(op, Box::new(RT::Col(i, ty)), Box::new(rhs))
                }
                None => {
                    let (i, ty) = self.col(*c);
                    RT::Col(i, ty)
                }
            },
            T::NotCol(c) => match self.col_where(*c, |t| t == Ty::Bool) {
                Some((i, ty)) => {
                    self.lab("term:not-col");
                    RT::Not(Box::new(RT::Col(i, ty)))
                }
                None => {
                    let (i, ty) = self.col(*c);
                    RT::Col(i, ty)
                }
            },
        }
    }
    fn lit(&self, ty: Ty, l: &Lit) -> (Ty, Option<Raw>) {
        if l.null { (ty, None) } else { (ty, Some(pool_val(ty, l.v))) }
    }
    fn pred(&mut self, p: &P) -> RP {
        match p {
            P::Cmp { op, t, lit, flip } => {
                let t = self.term(t);
                let op = CMP_OPS[pick_index((*op as u16) << 8, CMP_OPS.len())];
                self.lab(format!("op:{op:?}"));
                let (lt, lv) = self.lit(t.ty(), lit);
                if lv.is_none() {
                    self.lab("lit:null");
                }
                let l = RT::Lit(lt, lv);
                if *flip {
                    self.lab("lit-op-col");
                    RP::Cmp(op, l, t)
                } else {
                    RP::Cmp(op, t, l)
                }
            }
            P::CmpCols { op, a, b } => {
                let (i, ty) = self.col(*a);
                let same: Vec<usize> = (0..self.cols.len()).filter(|j| self.cols[*j] == ty).collect();
                let j = same[pick_index(*b, same.len())];
                if !self.used_cols.contains(&j) {
                    self.used_cols.push(j);
                }
                let op = CMP_OPS[pick_index((*op as u16) << 8, CMP_OPS.len())];
                self.lab("col-op-col");
                RP::Cmp(op, RT::Col(i, ty), RT::Col(j, ty))
            }
            P::In { c, list, neg } => {
                let (i, ty) = self.col(*c);
                let vals: Vec<(Ty, Option<Raw>)> = list.iter().map(|l| self.lit(ty, l)).collect();
                self.lab(if *neg { "not-in-list" } else { "in-list" });
                if vals.iter().any(|v| v.1.is_none()) {
                    self.lab("in-list-has-null");
                }
                self.lab(format!("in-list-len={}", vals.len().min(6)));
                RP::In(RT::Col(i, ty), vals, *neg)
            }
            P::Like { c, pat, neg, ci } => match self.col_where(*c, |t| t.is_string()) {
                Some((i, ty)) => {
                    let pat = LIKE_PATTERNS[pick_index(*pat, LIKE_PATTERNS.len())].to_string();
                    self.lab(match (*neg, *ci) {
                        (false, false) => "like",
                        (true, false) => "not-like",
                        (false, true) => "ilike",
                        (true, true) => "not-ilike",
                    });
                    RP::Like { t: RT::Col(i, ty), pat, neg: *neg, ci: *ci }
                }
                None => {
                    let (i, ty) = self.col(*c);
                    self.lab(if *neg { "is-not-null" } else { "is-null" });
                    RP::IsNull(RT::Col(i, ty), *neg)
                }
            },
            P::IsNull { t, neg } => {
                let t = self.term(t);
                self.lab(if *neg { "is-not-null" } else { "is-null" });
                RP::IsNull(t, *neg)
            }
            P::BoolCol { c, neg } => match self.col_where(*c, |t| t == Ty::Bool) {
                Some((i, ty)) => {
                    self.lab(if *neg { "not-boolcol" } else { "boolcol" });
                    if *neg { RP::Bool(RT::Not(Box::new(RT::Col(i, ty)))) } else { RP::Bool(RT::Col(i, ty)) }
                }
                None => {
                    let (i, ty) = self.col(*c);
                    self.lab(if *neg { "is-not-null" } else { "is-null" });
                    RP::IsNull(RT::Col(i, ty), *neg)
                }
            },
            P::Const(k) => {
                self.lab("const");
                RP::Const(match k % 3 {
                    0 => Some(true),
                    1 => Some(false),
                    _ => None,
                })
            }
            P::Not(a) => {
                self.lab("NOT");
                RP::Not(Box::new(self.pred(a)))
            }
            P::And(a, b) => {
                self.lab("AND");
                RP::And(Box::new(self.pred(a)), Box::new(self.pred(b)))
            }
            P::Or(a, b) => {
                self.lab("OR");
                RP::Or(Box::new(self.pred(a)), Box::new(self.pred(b)))
            }
        }
    }
}

fn col_name(i: usize) -> String {
    format!("c{i}")
}

fn term_expr(t: &RT) -> Expr {
    match t {
        RT::Col(i, _) => Expr::Column(Column::from_name(col_name(*i))),
        RT::Lit(ty, v) => Expr::Literal(scalar(*ty, v), None),
        RT::Cast(a, to, false) => Expr::Cast(Cast::new(Box::new(term_expr(a)), to.data_type())),
        RT::Cast(a, to, true) => Expr::TryCast(TryCast::new(Box::new(term_expr(a)), to.data_type())),
        RT::Neg(a) => Expr::Negative(Box::new(term_expr(a))),
        RT::Arith(op, a, b) => binary_expr(term_expr(a), *op, term_expr(b)),
        RT::Not(a) => Expr::Not(Box::new(term_expr(a))),
    }
}

fn pred_expr(p: &RP) -> Expr {
    match p {
        RP::Cmp(op, a, b) => binary_expr(term_expr(a), *op, term_expr(b)),
        RP::In(t, list, neg) => Expr::InList(InList::new(Box::new(term_expr(t)), list.iter().map(|(ty, v)| Expr::Literal(scalar(*ty, v), None)).collect(), *neg)),
        RP::Like { t, pat, neg, ci } => {
            Expr::Like(Like::new(*neg, Box::new(term_expr(t)), Box::new(Expr::Literal(scalar(t.ty(), &Some(Raw::S(pat.clone()))), None)), None, *ci))
        }
        RP::IsNull(t, false) => Expr::IsNull(Box::new(term_expr(t))),
        RP::IsNull(t, true) => Expr::IsNotNull(Box::new(term_expr(t))),
        RP::Bool(t) => term_expr(t),
        RP::Const(b) => Expr::Literal(ScalarValue::Boolean(*b), None),
        RP::Not(a) => Expr::Not(Box::new(pred_expr(a))),
        RP::And(a, b) => binary_expr(pred_expr(a), Operator::And, pred_expr(b)),
        RP::Or(a, b) => binary_expr(pred_expr(a), Operator::Or, pred_expr(b)),
    }
}

// ---------------------------------------------------------------------------------------------
// reference evaluator (partial): Err(()) = not defined here (or the engine raises an error)

type Row = Vec<Option<Raw>>;

fn ref_term(t: &RT, row: &Row) -> Result<Option<Raw>, ()> {
    match t {
        RT::Col(i, _) => Ok(row[*i].clone()),
        RT::Lit(_, v) => Ok(v.clone()),
        RT::Cast(a, to, try_cast) => {
            let from = a.ty();
            let v = ref_term(a, row)?;
            let Some(v) = v else { return Ok(None) };
            match (&v, from.is_int() || from == Ty::Date32, to.int_range()) {
                (Raw::I(x), true, Some((lo, hi))) => {
                    if *x < lo || *x > hi {
                        if *try_cast { Ok(None) } else { Err(()) }
                    } else {
                        Ok(Some(Raw::I(*x)))
                    }
                }
                (Raw::I(x), true, None) if *to == Ty::F64 && x.abs() <= (1i128 << 53) => Ok(Some(Raw::F(*x as f64))),
                (Raw::S(s), _, _) if from.is_string() && to.is_string() => Ok(Some(Raw::S(s.clone()))),
                _ => Err(()),
            }
        }
        RT::Neg(a) => match ref_term(a, row)? {
            None => Ok(None),
            Some(Raw::F(x)) => Ok(Some(Raw::F(-x))),
            Some(Raw::I(x)) => match a.ty().int_range() {
                Some((lo, hi)) if -x >= lo && -x <= hi => Ok(Some(Raw::I(-x))),
                _ => Err(()),
            },
            _ => Err(()),
        },
        RT::Arith(op, a, b) => {
            let (x, y) = (ref_term(a, row)?, ref_term(b, row)?);
            let (Some(x), Some(y)) = (x, y) else { return Ok(None) };
            match (x, y) {
                (Raw::I(x), Raw::I(y)) => {
                    let r = match op {
                        Operator::Plus => x + y,
                        Operator::Minus => x - y,
                        Operator::Multiply => x.checked_mul(y).ok_or(())?,
                        _ => return Err(()),
                    };
                    match a.ty().int_range() {
                        Some((lo, hi)) if r >= lo && r <= hi => Ok(Some(Raw::I(r))),
                        _ => Err(()),
                    }
                }
                (Raw::F(x), Raw::F(y)) => {
                    let r = match op {
                        Operator::Plus => x + y,
                        Operator::Minus => x - y,
                        Operator::Multiply => x * y,
                        _ => return Err(()),
                    };
                    if r.is_nan() { Err(()) } else { Ok(Some(Raw::F(r))) }
                }
                _ => Err(()),
            }
        }
        RT::Not(a) => match ref_term(a, row)? {
            None => Ok(None),
            Some(Raw::B(b)) => Ok(Some(Raw::B(!b))),
            _ => Err(()),
        },
    }
}

/// SQL LIKE with `\` as the escape character; Err for patterns whose meaning is contested
fn like_match(s: &str, pat: &str) -> Result<bool, ()> {
    #[derive(Clone, Copy, PartialEq)]
    enum Tok {
        Any,
        One,
        Ch(char),
    }
    let mut toks = vec![];
    let mut it = pat.chars();
    while let Some(c) = it.next() {
        match c {
            '%' => toks.push(Tok::Any),
            '_' => toks.push(Tok::One),
            '\\' => match it.next() {
                Some(e) => toks.push(Tok::Ch(e)),
                None => return Err(()),
            },
            c => toks.push(Tok::Ch(c)),
        }
    }
    let s: Vec<char> = s.chars().collect();
    // dp over (token index, char index)
    let mut reach = vec![false; s.len() + 1];
    reach[0] = true;
    for t in toks {
        let mut next = vec![false; s.len() + 1];
        match t {
            Tok::Any => {
                let mut seen = false;
                for i in 0..=s.len() {
                    seen |= reach[i];
                    next[i] = seen;
                }
            }
            Tok::One => {
                for i in 0..s.len() {
                    if reach[i] {
                        next[i + 1] = true;
                    }
                }
            }
            Tok::Ch(c) => {
                for i in 0..s.len() {
                    if reach[i] && s[i] == c {
                        next[i + 1] = true;
                    }
                }
            }
        }
        reach = next;
    }
    Ok(reach[s.len()])
}

/// a floating zero of either sign: the reference evaluator does not decide comparisons among them
fn pm_zero(r: &Raw) -> bool {
    matches!(r, Raw::F(x) if *x == 0.0)
}

fn ref_pred(p: &RP, row: &Row) -> Result<Option<bool>, ()> {
    use std::cmp::Ordering::*;
    match p {
        RP::Cmp(op, a, b) => {
            if a.ty() != b.ty() {
                return Err(());
            }
            let (x, y) = (ref_term(a, row)?, ref_term(b, row)?);
            match op {
                Operator::IsDistinctFrom | Operator::IsNotDistinctFrom => {
                    let distinct = match (&x, &y) {
                        (None, None) => false,
                        (None, _) | (_, None) => true,
                        (Some(x), Some(y)) => {
                            if pm_zero(x) && pm_zero(y) {
                                return Err(());
                            }
                            !raw_eq(x, y)
                        }
                    };
                    Ok(Some(if *op == Operator::IsDistinctFrom { distinct } else { !distinct }))
                }
                _ => {
                    let (Some(x), Some(y)) = (x, y) else { return Ok(None) };
                    if pm_zero(&x) && pm_zero(&y) {
                        return Err(());
                    }
                    let o = cmp_raw(&x, &y);
                    Ok(Some(match op {
                        Operator::Eq => o == Equal,
                        Operator::NotEq => o != Equal,
                        Operator::Lt => o == Less,
                        Operator::LtEq => o != Greater,
                        Operator::Gt => o == Greater,
                        Operator::GtEq => o != Less,
                        _ => return Err(()),
                    }))
                }
            }
        }
        RP::In(t, list, neg) => {
            let v = ref_term(t, row)?;
            if list.is_empty() {
                // the engine's InListExpr answers `x IN ()` = false even for a NULL x
                return Ok(Some(*neg));
            }
            let Some(v) = v else { return Ok(None) };
            if pm_zero(&v) {
                return Err(());
            }
            let mut found = false;
            let mut has_null = false;
            for (_, l) in list {
                match l {
                    None => has_null = true,
                    Some(l) => found |= raw_eq(l, &v),
                }
            }
            let r = if found {
                Some(true)
            } else if has_null {
                None
            } else {
                Some(false)
            };
            Ok(if *neg { r.map(|b| !b) } else { r })
        }
        RP::Like { t, pat, neg, ci } => {
            if *ci {
                return Err(());
            }
            match ref_term(t, row)? {
                None => Ok(None),
                Some(Raw::S(s)) => {
                    let m = like_match(&s, pat)?;
                    Ok(Some(m != *neg))
                }
                _ => Err(()),
            }
        }
        RP::IsNull(t, neg) => Ok(Some(ref_term(t, row)?.is_none() != *neg)),
        RP::Bool(t) => match ref_term(t, row)? {
            None => Ok(None),
            Some(Raw::B(b)) => Ok(Some(b)),
            _ => Err(()),
        },
        RP::Const(b) => Ok(*b),
        RP::Not(a) => Ok(ref_pred(a, row)?.map(|b| !b)),
        RP::And(a, b) => {
            // an error on either side is an error (the engine evaluates both sides of a batch)
            let (x, y) = (ref_pred(a, row)?, ref_pred(b, row)?);
            Ok(match (x, y) {
                (Some(false), _) | (_, Some(false)) => Some(false),
                (Some(true), Some(true)) => Some(true),
                _ => None,
            })
        }
        RP::Or(a, b) => {
            let (x, y) = (ref_pred(a, row)?, ref_pred(b, row)?);
            Ok(match (x, y) {
                (Some(true), _) | (_, Some(true)) => Some(true),
                (Some(false), Some(false)) => Some(false),
                _ => None,
            })
        }
    }
}

// ---------------------------------------------------------------------------------------------
// statistics

struct ColStats {
    min: Vec<Option<Raw>>,
    max: Vec<Option<Raw>>,
    nulls: Vec<Option<u64>>,
    /// non-null values per container
    values: Vec<Vec<ScalarValue>>,
    contained_known: Vec<bool>,
    /// answer used when a container has no non-null value: Some(true) / Some(false) / None by the case
    vacuous_contained: Vec<Option<bool>>,
    has_null_row: Vec<bool>,
    inexact: Vec<bool>,
}

struct Stats {
    tys: Vec<Ty>,
    n: usize,
    cols: Vec<ColStats>,
    rows: Vec<Option<u64>>,
    none_mask: Vec<u8>,
    row_counts_none: bool,
    contained_calls: std::cell::Cell<u32>,
    contained_answers: std::cell::Cell<u32>,
}

impl Stats {
    fn idx(&self, c: &Column) -> Option<usize> {
        (0..self.tys.len()).find(|i| col_name(*i) == c.name)
    }
}

impl PruningStatistics for Stats {
    fn min_values(&self, column: &Column) -> Option<ArrayRef> {
        let i = self.idx(column)?;
        if self.none_mask[i] & 1 != 0 {
            return None;
        }
        Some(make_array(self.tys[i], &self.cols[i].min))
    }
    fn max_values(&self, column: &Column) -> Option<ArrayRef> {
        let i = self.idx(column)?;
        if self.none_mask[i] & 2 != 0 {
            return None;
        }
        Some(make_array(self.tys[i], &self.cols[i].max))
    }
    fn num_containers(&self) -> usize {
        self.n
    }
    fn null_counts(&self, column: &Column) -> Option<ArrayRef> {
        let i = self.idx(column)?;
        if self.none_mask[i] & 4 != 0 {
            return None;
        }
        Some(Arc::new(UInt64Array::from(self.cols[i].nulls.clone())))
    }
    fn row_counts(&self) -> Option<ArrayRef> {
        if self.row_counts_none {
            return None;
        }
        Some(Arc::new(UInt64Array::from(self.rows.clone())))
    }
    fn contained(&self, column: &Column, values: &HashSet<ScalarValue>) -> Option<BooleanArray> {
        self.contained_calls.set(self.contained_calls.get() + 1);
        let i = self.idx(column)?;
        if self.none_mask[i] & 8 != 0 {
            return None;
        }
        let cs = &self.cols[i];
        let mut out: Vec<Option<bool>> = vec![];
        for k in 0..self.n {
            if !cs.contained_known[k] {
                out.push(None);
                continue;
            }
            let vals = &cs.values[k];
            if vals.is_empty() && !cs.has_null_row[k] {
                // a container without rows: every answer is vacuously correct
                out.push(cs.vacuous_contained[k]);
                continue;
            }
            // TRUE ("the column ONLY contains values from the set") is only claimed when no row is NULL:
            // whether a NULL row counts as "a value outside the set" is not specified, and `c NOT IN ()`
            // is TRUE on NULL rows in the engine, so the conservative reading is the only safe one.
            let all_in = !cs.has_null_row[k] && vals.iter().all(|v| values.contains(v));
            let none_in = vals.iter().all(|v| !values.contains(v));
            out.push(if all_in {
                Some(true)
            } else if none_in {
                Some(false)
            } else {
                None
            });
        }
        if out.iter().any(|o| o.is_some()) {
            self.contained_answers.set(self.contained_answers.get() + 1);
        }
        Some(BooleanArray::from(out))
    }
}

fn shift_pool(ty: Ty, v: &Raw, delta: i32) -> Raw {
    let p = pool(ty);
    // position of the largest pool value <= v (v is always a pool value here)
    let pos = p.iter().position(|x| raw_eq(x, v)).unwrap_or(0) as i32;
    let np = (pos + delta).clamp(0, p.len() as i32 - 1);
    p[np as usize].clone()
}

// ---------------------------------------------------------------------------------------------
// generators

fn lit_s() -> impl Strategy<Value = Lit> {
    (prop::bool::weighted(0.08), any::<u16>()).prop_map(|(null, v)| Lit { null, v })
}

fn term_s() -> BoxedStrategy<T> {
    prop_oneof![
        10 => any::<u16>().prop_map(T::Col),
        4 => (any::<u16>(), any::<u16>(), any::<bool>()).prop_map(|(c, to, try_cast)| T::Cast { c, to, try_cast }),
        2 => any::<u16>().prop_map(T::Neg),
        3 => (any::<u16>(), any::<u16>(), any::<bool>()).prop_map(|(c, to, try_cast)| T::CastNeg { c, to, try_cast }),
        1 => (any::<u8>(), any::<u16>(), any::<u16>(), prop::option::weighted(0.3, any::<u16>())).prop_map(|(op, c, lit, other)| T::Arith { op, c, lit, other }),
        1 => any::<u16>().prop_map(T::NotCol),
    ]
    .boxed()
}

fn pred_s() -> BoxedStrategy<P> {
    let in_len = prop_oneof![6 => 1usize..4, 2 => 4usize..7, 1 => Just(0usize), 1 => 19usize..23];
    let leaf = prop_oneof![
        12 => (any::<u8>(), term_s(), lit_s(), prop::bool::weighted(0.2)).prop_map(|(op, t, lit, flip)| P::Cmp { op, t, lit, flip }),
        2 => (any::<u8>(), any::<u16>(), any::<u16>()).prop_map(|(op, a, b)| P::CmpCols { op, a, b }),
        5 => (any::<u16>(), in_len.prop_flat_map(|n| prop::collection::vec(lit_s(), n)), any::<bool>()).prop_map(|(c, list, neg)| P::In { c, list, neg }),
        4 => (any::<u16>(), any::<u16>(), any::<bool>(), prop::bool::weighted(0.1)).prop_map(|(c, pat, neg, ci)| P::Like { c, pat, neg, ci }),
        3 => (term_s(), any::<bool>()).prop_map(|(t, neg)| P::IsNull { t, neg }),
        2 => (any::<u16>(), any::<bool>()).prop_map(|(c, neg)| P::BoolCol { c, neg }),
        1 => any::<u8>().prop_map(P::Const),
    ];
    leaf.prop_recursive(3, 12, 2, |inner| {
        prop_oneof![
            1 => inner.clone().prop_map(|a| P::Not(Box::new(a))),
            3 => (inner.clone(), inner.clone()).prop_map(|(a, b)| P::And(Box::new(a), Box::new(b))),
            3 => (inner.clone(), inner).prop_map(|(a, b)| P::Or(Box::new(a), Box::new(b))),
        ]
    })
    .boxed()
}

fn cell_s(null_w: f64) -> impl Strategy<Value = Cell> {
    (prop::bool::weighted(null_w), any::<u16>()).prop_map(|(null, v)| Cell { null, v })
}

fn weak_s() -> impl Strategy<Value = Weak> {
    let w = prop_oneof![5 => Just(0u8), 2 => Just(1u8), 3 => 2u8..6];
    (w.clone(), w, prop::bool::weighted(0.75), prop::bool::weighted(0.7), prop_oneof![1 => Just(0u16), 2 => any::<u16>()], prop::bool::weighted(0.15))
        .prop_map(|(min, max, nulls_known, contained_known, vacuous, inexact)| Weak { min, max, nulls_known, contained_known, vacuous, inexact })
}

fn cont_s(max_rows: usize) -> impl Strategy<Value = Cont> {
    // per container: a null weight (all-NULL, NULL-free and mixed containers) and a narrow value window
    // (so that min/max ranges of different containers differ and pruning has something to decide)
    (prop_oneof![2 => Just(0.0f64), 1 => Just(1.0f64), 3 => Just(0.3f64)], any::<[u16; 3]>(), prop_oneof![2 => Just(0u16), 3 => 1u16..12000, 1 => Just(u16::MAX)]).prop_flat_map(
        move |(nw, base, width)| {
            let cell3 = (cell_s(nw), cell_s(nw), cell_s(nw)).prop_map(move |(a, b, c)| {
                let f = |cell: Cell, b: u16| Cell { null: cell.null, v: if width == u16::MAX { cell.v } else { b.saturating_add(((cell.v as u32 * width as u32) >> 16) as u16) } };
                [f(a, base[0]), f(b, base[1]), f(c, base[2])]
            });
            (prop::collection::vec(cell3, 0..=max_rows), [weak_s(), weak_s(), weak_s()], prop::bool::weighted(0.8)).prop_map(|(rows, weak, row_count_known)| Cont { rows, weak, row_count_known })
        },
    )
}

impl Property for C22 {
    type Case = Case;
    fn id(&self) -> &'static str {
        "C22"
    }
    fn sub(&self) -> &'static str {
        "c22"
    }
    fn strategy(&self, tier: Tier) -> BoxedStrategy<Case> {
        let max_rows = tier.pick(8, 12);
        let max_cont = tier.pick(6, 8);
        (
            prop::collection::vec(prop::sample::select(COL_TYPES.to_vec()), 1..=3),
            pred_s(),
            prop::collection::vec(cont_s(max_rows), 1..=max_cont),
            0u8..(MAX_IN_LIST.len() as u8 + 4),
            prop::bool::weighted(0.3),
            [prop_oneof![6 => Just(0u8), 1 => 0u8..16], prop_oneof![6 => Just(0u8), 1 => 0u8..16], prop_oneof![6 => Just(0u8), 1 => 0u8..16]],
            prop::bool::weighted(0.1),
        )
            .prop_map(|(cols, pred, containers, max_in_list, simplify, none_mask, row_counts_none)| Case { cols, pred, containers, max_in_list, simplify, none_mask, row_counts_none })
            .boxed()
    }
    fn budget(&self, tier: Tier) -> Budget {
        Budget::new(tier.pick(24_000, 1_000_000), tier.pick(8, 16)).min_nontrivial(tier.pick(300, 10_000)).discard_cap(0.3)
    }
    fn rule(&self) -> String {
        "schema of 1-3 typed columns x predicate tree (depth<=3) resolved against it x 1-6(8) containers of 0-8(12) pool-valued rows with per-column soundly weakened statistics; \
         non-trivial = at least one container pruned and one kept (by any engine path) and the predicate mentions a column that has a NULL in some container; distinct by case JSON"
            .into()
    }
    fn assumptions(&self) -> Vec<String> {
        vec![
            "row-level truth of the predicate = DataFusion's own PhysicalExpr::evaluate on the container's rows (cross-checked by a partial reference evaluator; disagreement => inconclusive)".into(),
            "statistics are computed by harness code in the engine's ordering (numeric; IEEE total order for NaN-free floats; byte-wise strings) and only weakened soundly".into(),
            "for a column without non-null values in a container every min/max is vacuously valid (arbitrary pool values are supplied)".into(),
            "contained(): TRUE = no NULL row and every value in the set, FALSE = no non-null value in the set; a container without rows => either answer or unknown".into(),
            "a prune()/try_build() error is a clean rejection (callers then keep the container), not a violation".into(),
        ]
    }
    fn known_signature(&self, case: &Case) -> Option<String> {
        known_sig(case)
    }
    fn run(&self, case: &Case) -> CaseResult {
        run_case(case)
    }
}

/// Signatures of known findings (see /verif/known_findings.json):
/// * `cast-numeric-to-bool`: `CAST(numeric_col AS BOOLEAN) op lit` is rewritten to min/max although the cast
///   is not monotone (-1 -> true, 0 -> false, 1 -> true).
/// * `cast-decimal-to-int`: `CAST(decimal_col AS INT) op lit` is "unwrapped" by the simplifier that try_build
///   runs on the rewritten predicate into `decimal_col op lit.00` although the cast truncates (-1.50 -> -1).
/// * `try-cast-is-not-distinct-from-null`: `TRY_CAST(col AS T) IS NOT DISTINCT FROM NULL` is rewritten to
///   `col_null_count > 0`, but TRY_CAST also yields NULL for values that do not fit T.
/// * `neg-of-int-min`: the predicate negates an integer column (`-c`, also inside `CAST(-c AS T)`) and some ROW of that
///   column holds the type's MIN — nothing else about negations is excluded
///   (NegativeExpr wraps at row level, the pruning rewrite `-c op lit -> c op' -lit` assumes it does not).
fn known_sig(case: &Case) -> Option<String> {
    pick_signature("C22", all_sigs(case))
}

/// every signature the case matches
fn all_sigs(case: &Case) -> Vec<String> {
    let mut out: Vec<String> = vec![];
    fn terms<'a>(p: &'a P, out: &mut Vec<&'a T>) {
        match p {
            P::Cmp { t, .. } | P::IsNull { t, .. } => out.push(t),
            P::Not(a) => terms(a, out),
            P::And(a, b) | P::Or(a, b) => {
                terms(a, out);
                terms(b, out);
            }
            _ => {}
        }
    }
    if case.cols.is_empty() || case.cols.len() > 3 {
        return out;
    }
    fn tcn(p: &P, cols: &[Ty]) -> bool {
        match p {
            P::Cmp { op, t: T::Cast { c, try_cast: true, .. }, lit, .. } => {
                let mut rs = Resolver { cols, labels: vec![], used_cols: vec![] };
                let (_, ty) = rs.col(*c);
                lit.null && CMP_OPS[pick_index((*op as u16) << 8, CMP_OPS.len())] == Operator::IsNotDistinctFrom && !ty.cast_targets().is_empty()
            }
            P::Cmp { op, t: T::CastNeg { c, try_cast: true, .. }, lit, .. } => {
                let mut rs = Resolver { cols, labels: vec![], used_cols: vec![] };
                lit.null && CMP_OPS[pick_index((*op as u16) << 8, CMP_OPS.len())] == Operator::IsNotDistinctFrom && rs.col_where(*c, |t| t.supports_neg()).is_some()
            }
            P::Not(a) => tcn(a, cols),
            P::And(a, b) | P::Or(a, b) => tcn(a, cols) || tcn(b, cols),
            _ => false,
        }
    }
    if tcn(&case.pred, &case.cols) {
        out.push("try-cast-is-not-distinct-from-null".into());
    }
    let mut ts = vec![];
    terms(&case.pred, &mut ts);
    for t in &ts {
        if let T::Cast { c, to, .. } = t {
            let mut rs = Resolver { cols: &case.cols, labels: vec![], used_cols: vec![] };
            let (_, ty) = rs.col(*c);
            let targets = ty.cast_targets();
            if !targets.is_empty() && targets[pick_index(*to, targets.len())] == Ty::Bool && ty != Ty::Bool {
                out.push("cast-numeric-to-bool".into());
            }
            if !targets.is_empty() && ty == Ty::Dec92 && targets[pick_index(*to, targets.len())].is_int() {
                out.push("cast-decimal-to-int".into());
            }
        }
    }
    for t in &ts {
        if let T::CastNeg { c, to, .. } = t {
            let mut rs = Resolver { cols: &case.cols, labels: vec![], used_cols: vec![] };
            if let Some((_, ty)) = rs.col_where(*c, |t| t.supports_neg()) {
                let targets = ty.cast_targets();
                let to = targets[pick_index(*to, targets.len())];
                if to == Ty::Bool {
                    out.push("cast-numeric-to-bool".into());
                }
                if ty == Ty::Dec92 && to.is_int() {
                    out.push("cast-decimal-to-int".into());
                }
            }
        }
    }
    for t in ts {
        if let T::Neg(c) | T::CastNeg { c, .. } = t {
            let mut rs = Resolver { cols: &case.cols, labels: vec![], used_cols: vec![] };
            if let Some((ci, ty)) = rs.col_where(*c, |t| t.supports_neg()) {
                if let Some((lo, _)) = ty.int_range() {
                    for cont in &case.containers {
                        for r in &cont.rows {
                            if !r[ci].null && pool_val(ty, r[ci].v) == Raw::I(lo) {
                                out.push("neg-of-int-min".into());
                            }
                        }
                    }
                }
            }
        }
    }
    out.dedup();
    out
}


/// Signatures of the OPEN entries of /verif/known_findings.json for one property (read once). A case can match
/// several signatures; `known_signature` must answer an open one if any matches, otherwise a fixed signature
/// would shadow an open finding (fixed entries suppress nothing).
pub fn open_signatures(property: &str) -> &'static std::collections::HashSet<String> {
    use std::collections::{HashMap, HashSet};
    use std::sync::{Mutex, OnceLock};
    static CACHE: OnceLock<Mutex<HashMap<String, &'static HashSet<String>>>> = OnceLock::new();
    let mut g = CACHE.get_or_init(|| Mutex::new(HashMap::new())).lock().unwrap_or_else(|e| e.into_inner());
    if let Some(s) = g.get(property) {
        return s;
    }
    let mut set = HashSet::new();
    if let Ok(text) = std::fs::read_to_string(verif_root().join("known_findings.json")) {
        if let Ok(v) = serde_json::from_str::<serde_json::Value>(&text) {
            for e in v.get("findings").and_then(|f| f.as_array()).cloned().unwrap_or_default() {
                if e.get("property").and_then(|x| x.as_str()) == Some(property) && e.get("status").and_then(|x| x.as_str()) == Some("open") {
                    if let Some(s) = e.get("signature").and_then(|x| x.as_str()) {
                        set.insert(s.to_string());
                    }
                }
            }
        }
    }
    let leaked: &'static HashSet<String> = Box::leak(Box::new(set));
    g.insert(property.to_string(), leaked);
    leaked
}

/// first open signature among the candidates, else the first candidate
pub fn pick_signature(property: &str, cands: Vec<String>) -> Option<String> {
    let open = open_signatures(property);
    cands.iter().find(|c| open.contains(*c)).cloned().or_else(|| cands.into_iter().next())
}

fn describe(case: &Case, rp: &RP, rows: &[Vec<Row>]) -> String {
    let _ = case;
    format!("predicate={} rows={:?}", pred_expr(rp), rows)
}

fn true_rows(phys: &Arc<dyn PhysicalExpr>, schema: &SchemaRef, tys: &[Ty], rows: &[Row]) -> (Vec<Option<bool>>, bool) {
    // returns per row: Some(true/false) (false = not TRUE: false or NULL), None = the engine raised an error for the row
    if rows.is_empty() {
        return (vec![], false);
    }
    let batch_of = |rs: &[Row]| -> Option<RecordBatch> {
        let arrays: Vec<ArrayRef> = (0..tys.len()).map(|c| make_array(tys[c], &rs.iter().map(|r| r[c].clone()).collect::<Vec<_>>())).collect();
        RecordBatch::try_new_with_options(schema.clone(), arrays, &RecordBatchOptions::new().with_row_count(Some(rs.len()))).ok()
    };
    let eval = |rs: &[Row]| -> Option<Vec<bool>> {
        let b = batch_of(rs)?;
        let v = phys.evaluate(&b).ok()?;
        let a = v.into_array(rs.len()).ok()?;
        let a = a.as_any().downcast_ref::<BooleanArray>()?;
        Some((0..a.len()).map(|i| a.is_valid(i) && a.value(i)).collect())
    };
    match eval(rows) {
        Some(v) => (v.into_iter().map(Some).collect(), false),
        None => {
            let v = rows.iter().map(|r| eval(std::slice::from_ref(r)).map(|x| x[0])).collect();
            (v, true)
        }
    }
}

fn run_case(case: &Case) -> CaseResult {
    let ncols = case.cols.len();
    if ncols == 0 || ncols > 3 || case.containers.is_empty() {
        return CaseResult::discard("outside domain: empty schema / no containers");
    }
    let tys = case.cols.clone();
    let mut rs = Resolver { cols: &tys, labels: vec![], used_cols: vec![] };
    let rp = rs.pred(&case.pred);
    let mut labels = rs.labels;
    let used_cols = rs.used_cols;
    for t in &tys {
        let l = format!("col:{t:?}");
        if !labels.contains(&l) {
            labels.push(l);
        }
    }

    let schema: SchemaRef = Arc::new(Schema::new((0..ncols).map(|i| Field::new(col_name(i), tys[i].data_type(), true)).collect::<Vec<_>>()));
    let dfschema = match DFSchema::try_from(schema.as_ref().clone()) {
        Ok(s) => s,
        Err(e) => return CaseResult::discard(format!("dfschema: {e}")),
    };
    let expr = pred_expr(&rp);
    let props = ExecutionProps::new();
    let mut phys = match create_physical_expr(&expr, &dfschema, &props, &PhysicalPlanningContext::default()) {
        Ok(p) => p,
        Err(e) => return CaseResult::discard(format!("create_physical_expr: {}", truncate(&e.to_string(), 80))).labels(labels),
    };
    let phys_orig = phys.clone();
    if case.simplify {
        phys = match PhysicalExprSimplifier::new(&schema).simplify(phys) {
            Ok(p) => p,
            Err(e) => return CaseResult::discard(format!("simplify: {}", truncate(&e.to_string(), 80))).labels(labels),
        };
        labels.push("simplified-first".into());
    }

    // rows
    let rows: Vec<Vec<Row>> = case
        .containers
        .iter()
        .map(|c| c.rows.iter().map(|r| (0..ncols).map(|i| if r[i].null { None } else { Some(pool_val(tys[i], r[i].v)) }).collect()).collect())
        .collect();
    let n = rows.len();

    // statistics (exact, then weakened)
    let mut cols_stats = vec![];
    let mut any_weakened = false;
    for ci in 0..ncols {
        let ty = tys[ci];
        let mut cs = ColStats { min: vec![], max: vec![], nulls: vec![], values: vec![], contained_known: vec![], vacuous_contained: vec![], has_null_row: vec![], inexact: vec![] };
        for k in 0..n {
            let w = &case.containers[k].weak[ci];
            let vals: Vec<Raw> = rows[k].iter().filter_map(|r| r[ci].clone()).collect();
            let nulls = rows[k].len() - vals.len();
            let (mut mn, mut mx): (Option<Raw>, Option<Raw>) = (None, None);
            if vals.is_empty() {
                if w.vacuous != 0 {
                    // vacuously valid arbitrary values, min <= max
                    let p = pool(ty);
                    let a = pick_index(w.vacuous, p.len());
                    let b = pick_index(w.vacuous.rotate_left(5) ^ 0x5a5a, p.len());
                    mn = Some(p[a.min(b)].clone());
                    mx = Some(p[a.max(b)].clone());
                }
            } else {
                let lo = vals.iter().min_by(|a, b| cmp_raw(a, b)).cloned();
                let hi = vals.iter().max_by(|a, b| cmp_raw(a, b)).cloned();
                mn = match w.min {
                    0 => lo,
                    1 => None,
                    k => lo.map(|v| shift_pool(ty, &v, -((k - 1) as i32))),
                };
                mx = match w.max {
                    0 => hi,
                    1 => None,
                    k => hi.map(|v| shift_pool(ty, &v, (k - 1) as i32)),
                };
                if w.min != 0 || w.max != 0 {
                    any_weakened = true;
                }
            }
            cs.min.push(mn);
            cs.max.push(mx);
            cs.nulls.push(if w.nulls_known { Some(nulls as u64) } else { None });
            cs.values.push(vals.iter().map(|v| scalar(ty, &Some(v.clone()))).collect());
            cs.contained_known.push(w.contained_known);
            cs.vacuous_contained.push(match w.vacuous % 3 {
                0 => None,
                1 => Some(true),
                _ => Some(false),
            });
            cs.has_null_row.push(nulls > 0);
            cs.inexact.push(w.inexact);
        }
        cols_stats.push(cs);
    }
    let stats = Stats {
        tys: tys.clone(),
        n,
        cols: cols_stats,
        rows: (0..n).map(|k| if case.containers[k].row_count_known { Some(rows[k].len() as u64) } else { None }).collect(),
        none_mask: case.none_mask[..ncols].to_vec(),
        row_counts_none: case.row_counts_none,
        contained_calls: Default::default(),
        contained_answers: Default::default(),
    };
    if any_weakened {
        labels.push("stats-loosened-or-unknown".into());
    }

    // row-level truth
    let mut truth: Vec<Vec<Option<bool>>> = vec![];
    let mut any_row_error = false;
    for k in 0..n {
        let (t, err) = true_rows(&phys, &schema, &tys, &rows[k]);
        any_row_error |= err;
        truth.push(t);
    }
    if any_row_error {
        labels.push("row-eval-error".into());
    }
    // cross-check with the reference evaluator (against the engine's evaluation of the un-simplified
    // expression; a simplifier that changes row-level truth is C04's subject, it is only labelled here and
    // the predicate handed to the pruner — the simplified one — stays the reference for C22)
    let truth_orig: Vec<Vec<Option<bool>>> =
        if case.simplify { (0..n).map(|k| true_rows(&phys_orig, &schema, &tys, &rows[k]).0).collect() } else { truth.clone() };
    if case.simplify && (0..n).any(|k| truth[k].iter().zip(&truth_orig[k]).any(|(a, b)| a.is_some() && b.is_some() && a != b)) {
        labels.push("simplifier-changed-row-truth".into());
    }
    let mut ref_used = false;
    for k in 0..n {
        for (ri, row) in rows[k].iter().enumerate() {
            if let (Ok(r), Some(t)) = (ref_pred(&rp, row), truth_orig[k][ri]) {
                ref_used = true;
                if (r == Some(true)) != t {
                    return CaseResult::inconclusive(format!("reference evaluator disagrees with the engine on a row: ref={r:?} engine_true={t}"))
                        .labels(labels)
                        .label(format!("REF-DISAGREE ref={r:?} engine_true={t} {} row={:?}", pred_expr(&rp), row));
                }
            }
        }
    }
    if ref_used {
        labels.push("ref-evaluator-agreed".into());
    }
    let has_true = |k: usize| truth[k].iter().position(|t| *t == Some(true));

    // literal guarantees
    let guarantees = LiteralGuarantee::analyze(&phys);
    let check_guarantees = |gs: &[LiteralGuarantee], origin: &str| -> Option<String> {
        for g in gs {
            let Some(ci) = (0..ncols).find(|i| col_name(*i) == g.column.name) else {
                return Some(format!("{origin}: guarantee on unknown column {:?}", g.column));
            };
            for k in 0..n {
                for (ri, row) in rows[k].iter().enumerate() {
                    if truth[k][ri] != Some(true) {
                        continue;
                    }
                    let v = scalar(tys[ci], &row[ci]);
                    let inside = g.literals.contains(&v);
                    let ok = match g.guarantee {
                        Guarantee::In => inside,
                        Guarantee::NotIn => !inside,
                    };
                    if !ok {
                        return Some(format!("{origin}: literal guarantee `{g}` fails on container {k} row {ri} {row:?} where the predicate is TRUE; predicate = {}", pred_expr(&rp)));
                    }
                }
            }
        }
        None
    };
    for g in &guarantees {
        labels.push(match g.guarantee {
            Guarantee::In => "guarantee:In".to_string(),
            Guarantee::NotIn => "guarantee:NotIn".to_string(),
        });
    }
    if let Some(m) = check_guarantees(&guarantees, "LiteralGuarantee::analyze") {
        return CaseResult::violation(m).labels(labels).nontrivial(true);
    }

    // engine path A: harness PruningStatistics
    let max_in = MAX_IN_LIST[pick_index((case.max_in_list as u16).saturating_mul(6553), MAX_IN_LIST.len())];
    labels.push(format!("max_in_list={max_in}"));
    let pp = match PruningPredicateBuilder::new().with_file_schema(schema.clone()).with_max_in_list_size(max_in).try_build(phys.clone()) {
        Ok(p) => p,
        Err(e) => return CaseResult::discard(format!("try_build: {}", truncate(&e.to_string(), 80))).labels(labels),
    };
    if let Some(m) = check_guarantees(pp.literal_guarantees(), "PruningPredicate::literal_guarantees") {
        return CaseResult::violation(m).labels(labels).nontrivial(true);
    }
    if pp.always_true() {
        labels.push("always-true".into());
    }
    let mut pruned_any = false;
    let mut kept_any = false;
    let mut verdicts: Vec<(String, Vec<bool>)> = vec![];
    match pp.prune(&stats) {
        Ok(v) => {
            if v.len() != n {
                return CaseResult::violation(format!("prune returned {} verdicts for {n} containers", v.len())).labels(labels);
            }
            verdicts.push(("PruningPredicate::prune(custom stats)".into(), v));
        }
        Err(e) => labels.push(format!("prune-error:{}", reason(&e.to_string()))),
    }
    if stats.contained_answers.get() > 0 {
        labels.push("contained-answered".into());
    }

    // engine path B: PrunableStatistics (Statistics with Precision)
    let stat_structs: Vec<Arc<Statistics>> = (0..n)
        .map(|k| {
            Arc::new(Statistics {
                num_rows: if case.containers[k].row_count_known { Precision::Exact(rows[k].len()) } else { Precision::Absent },
                total_byte_size: Precision::Absent,
                column_statistics: (0..ncols)
                    .map(|ci| {
                        let cs = &stats.cols[ci];
                        let pv = |v: &Option<Raw>, hide: bool| match v {
                            Some(r) if !hide => {
                                if cs.inexact[k] {
                                    Precision::Inexact(scalar(tys[ci], &Some(r.clone())))
                                } else {
                                    Precision::Exact(scalar(tys[ci], &Some(r.clone())))
                                }
                            }
                            _ => Precision::Absent,
                        };
                        let mut c = ColumnStatistics::new_unknown();
                        c.min_value = pv(&cs.min[k], case.none_mask[ci] & 1 != 0);
                        c.max_value = pv(&cs.max[k], case.none_mask[ci] & 2 != 0);
                        c.null_count = match cs.nulls[k] {
                            Some(x) if case.none_mask[ci] & 4 == 0 => Precision::Exact(x as usize),
                            _ => Precision::Absent,
                        };
                        c
                    })
                    .collect(),
            })
        })
        .collect();
    let prunable = PrunableStatistics::new(stat_structs.clone(), schema.clone());
    match pp.prune(&prunable) {
        Ok(v) if v.len() == n => verdicts.push(("PruningPredicate::prune(PrunableStatistics)".into(), v)),
        Ok(v) => return CaseResult::violation(format!("prune(PrunableStatistics) returned {} verdicts for {n} containers", v.len())).labels(labels),
        Err(e) => labels.push(format!("prunable-error:{}", reason(&e.to_string()))),
    }

    // engine path C: FilePruner on container 0
    let file = PartitionedFile::new("c22.parquet".to_string(), 1).with_statistics(stat_structs[0].clone());
    if let Some(mut fp) = FilePruner::try_new(phys.clone(), &schema, &file, Count::new()) {
        match fp.should_prune() {
            Ok(p) => {
                labels.push(if p { "file-pruner:prune" } else { "file-pruner:keep" }.to_string());
                let mut v = vec![true; n];
                v[0] = !p;
                verdicts.push(("FilePruner::should_prune(container 0)".into(), v));
            }
            Err(e) => labels.push(format!("file-pruner-error:{}", reason(&e.to_string()))),
        }
    } else {
        labels.push("file-pruner:none".into());
    }

    for (origin, v) in &verdicts {
        for k in 0..n {
            if !v[k] {
                pruned_any = true;
                if let Some(ri) = has_true(k) {
                    return CaseResult::violation(format!(
                        "{origin} reports container {k} prunable but its row {ri} {:?} makes the predicate TRUE; predicate = {}; pruning expr = {}; schema = {:?}; stats: min={:?} max={:?} nulls={:?} rows={:?}; none_mask={:?} row_counts_none={}; max_in_list={max_in}",
                        rows[k][ri],
                        pred_expr(&rp),
                        pp.predicate_expr(),
                        tys,
                        stats.cols.iter().map(|c| c.min[k].clone()).collect::<Vec<_>>(),
                        stats.cols.iter().map(|c| c.max[k].clone()).collect::<Vec<_>>(),
                        stats.cols.iter().map(|c| c.nulls[k]).collect::<Vec<_>>(),
                        stats.rows[k],
                        stats.none_mask,
                        stats.row_counts_none,
                    ))
                    .labels(labels)
                    .nontrivial(true);
                }
            } else if origin.starts_with("PruningPredicate") {
                kept_any = true;
            }
        }
    }
    let _ = describe;
    labels.push(if pruned_any { "pruned-some" } else { "pruned-none" }.to_string());
    let null_in_used_col = used_cols.iter().any(|ci| rows.iter().any(|rs| rs.iter().any(|r| r[*ci].is_none())));
    if null_in_used_col {
        labels.push("used-col-has-null".into());
    }
    if rows.iter().any(|r| r.is_empty()) {
        labels.push("empty-container".into());
    }
    if (0..n).any(|k| !rows[k].is_empty() && used_cols.iter().any(|ci| rows[k].iter().all(|r| r[*ci].is_none()))) {
        labels.push("all-null-column-container".into());
    }
    if (0..n).any(|k| has_true(k).is_some()) {
        labels.push("some-row-true".into());
    }
    CaseResult::pass().nontrivial(pruned_any && kept_any && null_in_used_col).labels(labels)
}

fn reason(s: &str) -> String {
    let t: String = s.chars().take(48).map(|c| if c.is_ascii_digit() { '#' } else { c }).collect();
    t
}
