//! C27 — partition-value pruning of listing tables never drops matching files.
//!
//! Domain: 1–3 partition columns (Utf8 / Int32 / Date32), 1–12 files written by the harness (CSV with
//! header, NDJSON or Parquet; data columns `id BIGINT` unique, `v BIGINT`, `s VARCHAR`) in a hive layout
//! below a fresh temp dir. Partition values come from small fixed domains, narrowed per case to a palette
//! of 2–5 entries (so files and filter literals collide often), including values with `/ = % space ' " \ : ~ [ ] ? #`, unicode, a control character,
//! the empty string and `__HIVE_DEFAULT_PARTITION__`. Every directory name is *spelled* by one of six
//! writers: object_store `PathPart` (what DataFusion's own COPY writes), DataFusion's partition encode set,
//! a Spark/Hive-like set, "raw where the file system allows" (only controls, `%`, `/` encoded), lower-case
//! hex, and zero-padded integers (`month=01`). All spellings percent-decode to the same text (no
//! over-encoding of unreserved characters — see the known finding below). Layout noise: stale files in the
//! table root, files below only some of the partition directories, a directory with a wrong column name,
//! extra sub-directories (`sub/`, `zz=1/`) below the partition directories, other file extensions, empty
//! files. Location: directory / glob (`*`, `*.ext`, `f*`, `?…`, `[fx]*`) / single file. Options:
//! `listing_table_ignore_subdirectory`, list-files cache on/off (every query is run twice in the session so
//! the second run is served by the cache), `target_partitions`; registration through
//! `SessionContext::register_listing_table` (extension filter active) or `CREATE EXTERNAL TABLE …
//! PARTITIONED BY` (extension filter is empty there, so other-extension files are not created).
//! Filters: `= <> < <= > >=`, IN / NOT IN, BETWEEN, IS [NOT] NULL, AND / OR / NOT, casts to VARCHAR,
//! functions of partition columns (upper, length, `||`, starts_with, LIKE, `+`, abs, `%`, extract(year)),
//! over partition columns, data columns and both; 6 query shapes (rows, count(*), GROUP BY partition column,
//! projection without partition columns, DISTINCT, ORDER BY id LIMIT).
//!
//! Oracle:
//! 1. the files that belong to the table are computed by a harness model of the documented rules (extension
//!    suffix, glob over the non-`k=v` segments, `ignore_subdirectory`, first N segments are `col_i=…` in
//!    declaration order, size > 0); `pruned_partition_list` with no filter must return exactly that set and
//!    the typed partition values the paths were built from; `parse_partitions_for_path` must return the
//!    decoded texts;
//! 2. query result over the listing table = same query over a `MemTable` holding the rows of those files
//!    with the partition columns materialised (multiset; both runs);
//! 3. the partition filters DataFusion itself hands to the table (taken from the optimized plan's
//!    `TableScan.filters`, restricted with `expr_applicable_for_cols`) are evaluated over a one-row-per-file
//!    `MemTable`; `pruned_partition_list` called with those filters must return a superset of these files.
//! The expression evaluator is trusted (C33); no harness-side evaluator is involved.
//!
//! Non-trivial: the partition filters prune ≥ 1 table file and keep ≥ 1, or a directory spelling differs
//! from the plain text of its value.
//!
//! Deviations from DESIGN.md: `listing_table_factory_infer_partitions` is not exercised (it only names the
//! columns; all inferred columns are dictionary-encoded strings); data columns are fixed (id, v, s).
//! With a glob and `ignore_subdirectory = true` files in extra non-`k=v` sub-directories are not created
//! (the code matches the glob against the directory name there; the statement does not say which is right).
//!
//! KNOWN FINDING (genuine defect, regressions/C27/c27/prefix-alternate-spelling.json,
//! fixes/C27-partition-prefix-single-spelling.diff): `evaluate_partition_prefix` turns `col = literal` on
//! leading partition columns into a listing prefix `col=<literal text>`; a directory that spells the same
//! value differently (`month=01` for an INT column, `k=a%3Ab` written by Hive/Spark for 'a:b', raw `k=a~b`
//! where object_store would encode `~`) is never listed, so `WHERE month = 1` returns nothing while
//! `WHERE month < 2` returns the rows. `known_signature` is narrow: a case is excluded only when some table
//! file carries, on a leading run of partition columns, values that the filter may pin to a single literal
//! (model: `single_candidates` — every conjunct DataFusion may look at alone, through AND / OR / NOT, IN,
//! BETWEEN x AND x, CAST-to-text equality, always-false atoms) so that the unchanged `evaluate_partition_prefix`
//! may list `col=<literal>` for them (it stops at the first literal its own encode set changes), and one of
//! those directories is spelled differently from the listed name (≈ 2.5 % of the cases; the first version
//! excluded ≈ 10 %: any equality-like literal anywhere meeting any alternate spelling). Set
//! `VERIF_C27_NO_EXCLUDE=1` to disable the exclusion, e.g. to verify the fix.
//!
//! Seeded defect /verif/seeded/C27-a (escaped literal *skipped* instead of ending the prefix, so `a = 'John Doe'
//! AND b = 'x'` lists the non-existent `table/b=x`): missed by the first version — not because of the
//! exclusion but because a conjunction of equalities on ≥ 2 leading partition columns with an escaped value in
//! a non-last one that also matches a table file came up in < 1 of 480 cases. Generator changes (general, no
//! special case): predicate leaf `EqFile(k, m)` = "the partition of file k on its first m columns" (weight 4 of
//! 17 leaves), 10 more domain strings (15 of 36 need escaping), Utf8 partition columns 4:2:1, quick budget
//! 480 → 1 200 cases; labels `eq-run:escaped-value-in-non-last-column`, `listing-prefix-columns=N`.
//! `tools/mutrun /verif/seeded/C27-a/patch.diff -- ./check C27 quick` → VIOLATION after 60 cases, exit 1
//! (probes/log-seeded-C27-a.txt); the unchanged tree exits 0 on seeds 0..4 and 41..43 (probes/log-seeds.txt).
//!
//! Sensitivity probes (tools/mutrun, patches in crates/vf-list/probes/, quick tier):
//! A. helpers.rs `parse_partitions_for_path` without percent-decoding (probes/c25c27-pA-…diff) → VIOLATION after
//!    5 cases.
//! D. helpers.rs `evaluate_partition_prefix` uses the prefix also for values its own encode set changes
//!    (probes/c27-pD-…diff): first run stayed GREEN (453 cases) — literals met file values too rarely; the per-case
//!    palette was added, re-probe → VIOLATION after 40 cases.
//! E. datasource/url.rs `ListingTableUrl::contains`: `segments.count() <= 2` with ignore_subdirectory (env-guarded
//!    in probes/combined-datasource-env-guarded.diff) → VIOLATION after 18 cases (probes/log-all.txt).
//! Repair check: fixes/C27-partition-prefix-single-spelling.diff + `VERIF_C27_NO_EXCLUDE=1` → exit 0, 480 cases,
//! the regression case passes (probes/log-c27-fix.txt).
use crate::util::*;
use arrow::datatypes::DataType;
use datafusion::common::tree_node::{Transformed, TreeNode};
use datafusion::common::Column;
use datafusion::datasource::file_format::FileFormat;
use datafusion::datasource::file_format::csv::CsvFormat;
use datafusion::datasource::file_format::json::JsonFormat;
use datafusion::datasource::file_format::parquet::ParquetFormat;
use datafusion::datasource::listing::helpers::{expr_applicable_for_cols, parse_partitions_for_path, pruned_partition_list};
use datafusion::datasource::listing::{ListingOptions, ListingTableUrl};
use datafusion::datasource::MemTable;
use datafusion::logical_expr::{Expr, LogicalPlan};
use datafusion::scalar::ScalarValue;
use futures::TryStreamExt;
use proptest::prelude::*;
use serde::{Deserialize, Serialize};
use std::collections::{BTreeMap, BTreeSet};
use std::path::PathBuf;
use std::sync::Arc;
use vf_kit::engine::*;

pub struct C27;

#[derive(Clone, Copy, Debug, Serialize, Deserialize, PartialEq, Eq)]
pub enum PTy {
    Utf8,
    Int,
    Date,
}

impl PTy {
    fn ty(self) -> Ty {
        match self {
            PTy::Utf8 => Ty::Utf8,
            PTy::Int => Ty::Int32,
            PTy::Date => Ty::Date32,
        }
    }
}

const STRS: &[&str] = &[
    "a", "b", "A", "a b", "a/b", "x=y", "50%", "é", "日本", "a'b", "a\"b", "a\\b", "a:b", "a~b", "[1]", "", " lead", "q?#", "2024", "__HIVE_DEFAULT_PARTITION__", "null", "a\tb", "a+b", "a&b", "ab", "B",
    "John Doe", "x", "k", "z", "100%", "n/a", "why?", "#1", "two  spaces", "Electronics/Computers",
];
const INTS: &[i64] = &[-1, 0, 1, 2, 5, 10, 12, 2024];
const DATES: &[i32] = &[18262, 18263, 19000, 0, -1, 19723];

fn domain_value(ty: PTy, idx: u16) -> V {
    match ty {
        PTy::Utf8 => V::Str(STRS[pick_index(idx, STRS.len())].to_string()),
        PTy::Int => V::Int(INTS[pick_index(idx, INTS.len())]),
        PTy::Date => V::Date(DATES[pick_index(idx, DATES.len())]),
    }
}

fn canon_text(v: &V) -> String {
    match v {
        V::Str(s) => s.clone(),
        V::Int(i) => i.to_string(),
        V::Date(d) => date_text(*d),
        _ => String::new(),
    }
}

fn pct(text: &str, must: &dyn Fn(u8) -> bool, lower: bool) -> String {
    let mut out = String::new();
    let mut buf = [0u8; 4];
    for ch in text.chars() {
        let bytes = ch.encode_utf8(&mut buf).as_bytes().to_vec();
        if bytes.len() == 1 && !must(bytes[0]) || bytes.len() > 1 && !must(0x80) {
            out.push(ch);
        } else {
            for b in bytes {
                if lower {
                    out.push_str(&format!("%{b:02x}"));
                } else {
                    out.push_str(&format!("%{b:02X}"));
                }
            }
        }
    }
    out
}

fn is_ctl(b: u8) -> bool {
    b < 0x20 || b == 0x7F
}

/// DataFusion's PARTITION_VALUE_ENCODE_SET (helpers.rs): controls, space, %, /, ?, # (+ non-ASCII)
fn df_set(b: u8) -> bool {
    is_ctl(b) || b >= 0x80 || matches!(b, b' ' | b'%' | b'/' | b'?' | b'#')
}

/// The directory name part after `col=` for a value under spelling variant `spell`.
fn spell_value(v: &V, spell: u8) -> String {
    let text = canon_text(v);
    match spell {
        0 => object_store::path::PathPart::from(text.as_str()).as_ref().to_string(),
        1 => pct(&text, &df_set, false),
        2 => pct(&text, &|b| is_ctl(b) || matches!(b, b'"' | b'#' | b'%' | b'\'' | b'*' | b'/' | b':' | b'=' | b'?' | b'\\' | b'{' | b'[' | b']' | b'^'), false),
        3 => pct(&text, &|b| is_ctl(b) || matches!(b, b'%' | b'/'), false),
        4 => pct(&text, &df_set, true),
        _ => match v {
            V::Int(i) if *i >= 0 => format!("0{i}"),
            _ => pct(&text, &|b| is_ctl(b) || matches!(b, b'%' | b'/'), false),
        },
    }
}

/// The directory name (after `col=`) DataFusion lists when it turns `col = literal` into a prefix,
/// None when it does not use a prefix for this literal.
fn df_prefix_spelling(col: &str, lit: &V) -> Option<String> {
    let text = canon_text(lit);
    if pct(&text, &df_set, false) != text {
        return None;
    }
    let whole = format!("{col}={text}");
    let part = object_store::path::PathPart::from(whole.as_str()).as_ref().to_string();
    Some(part)
}

#[derive(Clone, Debug, Serialize, Deserialize)]
pub struct DataRow {
    pub v: Option<i64>,
    pub s: Option<String>,
}

#[derive(Clone, Debug, Serialize, Deserialize)]
pub struct FileSpec {
    /// (domain index, spelling variant) per partition column; padded cyclically when shorter
    pub pvals: Vec<(u16, u8)>,
    /// how many partition directories are created (clamped to the column count); fewer = stale file
    pub depth: u8,
    /// use a wrong column name at this level
    pub wrong_name_at: Option<u8>,
    /// 0 none, 1 `sub/`, 2 `zz=1/` below the partition directories
    pub extra_sub: u8,
    pub name: u8,
    /// 0 = the table's extension, else an index into OTHER_EXT
    pub ext: u8,
    pub empty: bool,
    pub rows: Vec<DataRow>,
}

const NAMES: &[&str] = &["f", "part-", "x", "data_"];
const OTHER_EXT: &[&str] = &[".txt", ".tmp", ".bak", "", "csv", ".csv.crc", ".parquet.tmp", ".jsonl"];

#[derive(Clone, Debug, Serialize, Deserialize)]
pub enum ColRef {
    P(u8),
    Id,
    Vv,
    S,
}

#[derive(Clone, Copy, Debug, Serialize, Deserialize, PartialEq, Eq)]
pub enum Op {
    Eq,
    Ne,
    Lt,
    Le,
    Gt,
    Ge,
}

impl Op {
    fn sql(self) -> &'static str {
        match self {
            Op::Eq => "=",
            Op::Ne => "<>",
            Op::Lt => "<",
            Op::Le => "<=",
            Op::Gt => ">",
            Op::Ge => ">=",
        }
    }
}

#[derive(Clone, Debug, Serialize, Deserialize)]
pub enum Pred {
    /// col op domain-literal (None = NULL literal)
    Cmp(ColRef, Op, Option<u16>),
    In(ColRef, Vec<u16>, bool),
    Between(ColRef, u16, u16),
    IsNull(ColRef, bool),
    /// CAST(col AS VARCHAR) op text-of-domain-literal
    CastText(ColRef, Op, u16),
    /// a function of the column compared with something derived from a domain literal
    Func(ColRef, u8, Op, u16),
    /// "the partition of file k": `p0 = v0 AND … AND p(m-1) = v(m-1)` with the values of file k (monotone index)
    /// on the first m partition columns
    EqFile(u16, u8),
    And(Box<Pred>, Box<Pred>),
    Or(Box<Pred>, Box<Pred>),
    Not(Box<Pred>),
}

#[derive(Clone, Debug, Serialize, Deserialize)]
pub enum Location {
    Dir,
    Glob(u8),
    SingleFile(u16),
}

#[derive(Clone, Debug, Serialize, Deserialize)]
pub struct Case {
    pub pcols: Vec<PTy>,
    pub files: Vec<FileSpec>,
    pub pred: Option<Pred>,
    pub query: u8,
    pub location: Location,
    pub ignore_subdirectory: bool,
    pub list_cache: bool,
    /// 0 csv, 1 ndjson, 2 parquet
    pub format: u8,
    pub ddl: bool,
    pub target_partitions: u8,
    /// the case's palette: every domain index (file values and filter literals) is mapped onto these few
    /// entries, so literals meet file values often (empty = identity)
    #[serde(default)]
    pub palette: Vec<u16>,
}

const GLOBS: &[&str] = &["*", "*{EXT}", "f*", "part-*{EXT}", "?*{EXT}", "[fx]*", "*[0-4]{EXT}"];

/// `*` any sequence, `?` any one char, `[..]` class with ranges (the constructs generated)
fn glob_match(pat: &[char], s: &[char]) -> bool {
    if pat.is_empty() {
        return s.is_empty();
    }
    match pat[0] {
        '*' => (0..=s.len()).any(|k| glob_match(&pat[1..], &s[k..])),
        '?' => !s.is_empty() && glob_match(&pat[1..], &s[1..]),
        '[' => {
            let Some(close) = pat.iter().position(|c| *c == ']') else { return false };
            if s.is_empty() {
                return false;
            }
            let class = &pat[1..close];
            let mut hit = false;
            let mut i = 0;
            while i < class.len() {
                if i + 2 < class.len() && class[i + 1] == '-' {
                    if class[i] <= s[0] && s[0] <= class[i + 2] {
                        hit = true;
                    }
                    i += 3;
                } else {
                    if class[i] == s[0] {
                        hit = true;
                    }
                    i += 1;
                }
            }
            hit && glob_match(&pat[close + 1..], &s[1..])
        }
        c => !s.is_empty() && s[0] == c && glob_match(&pat[1..], &s[1..]),
    }
}

struct Laid {
    /// relative path segments below the table directory (last = file name)
    rel: Vec<String>,
    /// typed partition values (by declared column)
    values: Vec<V>,
    /// decoded texts as the directories spell them (per column)
    texts: Vec<String>,
    /// directory names `col=spelling` per column
    dirs: Vec<String>,
    in_table: bool,
    rows: Vec<(i64, Option<i64>, Option<String>)>,
    alt_spelling: bool,
}

impl Case {
    fn n(&self) -> usize {
        self.pcols.len().clamp(1, 3)
    }
    fn ext(&self) -> &'static str {
        match self.format {
            1 => ".json",
            2 => ".parquet",
            _ => ".csv",
        }
    }
    fn pname(i: usize) -> String {
        format!("p{i}")
    }
    fn single(&self) -> Option<usize> {
        match self.location {
            Location::SingleFile(k) => Some(pick_index(k, self.files.len().max(1))),
            _ => None,
        }
    }
    fn glob(&self) -> Option<String> {
        match self.location {
            Location::Glob(g) => Some(GLOBS[(g as usize).min(GLOBS.len() - 1)].replace("{EXT}", self.ext())),
            _ => None,
        }
    }
    fn dom(&self, idx: u16) -> u16 {
        if self.palette.is_empty() { idx } else { self.palette[pick_index(idx, self.palette.len())] }
    }
    fn pval(&self, f: &FileSpec, c: usize) -> (V, u8) {
        let (idx, spell) = if f.pvals.is_empty() { (0u16, 0u8) } else { f.pvals[c % f.pvals.len()] };
        let ty = self.pcols[c];
        let v = domain_value(ty, self.dom(idx));
        let spell = spell.min(5);
        // zero padding only spells integers; dates have one spelling besides encodings
        let spell = if spell == 5 && ty != PTy::Int { 3 } else { spell };
        (v, spell)
    }
    fn layout(&self) -> Vec<Laid> {
        let n = self.n();
        let ext = self.ext();
        let glob = self.glob();
        let mut out = vec![];
        let mut next_id = 0i64;
        for (fi, f) in self.files.iter().enumerate() {
            // CREATE EXTERNAL TABLE validates that the first files share one partition structure and rejects
            // the statement otherwise: the DDL variant gets a uniform layout
            let depth = if self.ddl && self.single().is_none() { n } else { (f.depth as usize).min(n) };
            let wrong_at = if self.ddl { None } else { f.wrong_name_at };
            let mut rel = vec![];
            let mut values = vec![];
            let mut texts = vec![];
            let mut dirs = vec![];
            let mut alt = false;
            let mut wrong = false;
            for c in 0..n {
                let (v, spell) = self.pval(f, c);
                let sp = spell_value(&v, spell);
                let text = if spell == 5 && matches!(v, V::Int(i) if i >= 0) { sp.clone() } else { canon_text(&v) };
                if sp != canon_text(&v) {
                    alt = true;
                }
                let mut name = Self::pname(c);
                if c < depth && wrong_at.map(|w| w as usize == c).unwrap_or(false) {
                    name = if c % 2 == 0 { "zz".to_string() } else { name.to_uppercase() };
                    wrong = true;
                }
                let d = format!("{name}={sp}");
                if c < depth {
                    rel.push(d.clone());
                }
                dirs.push(d);
                values.push(v);
                texts.push(text);
            }
            let mut extra_sub = f.extra_sub.min(2);
            if self.ignore_subdirectory && glob.is_some() && extra_sub == 1 {
                extra_sub = 0;
            }
            if self.ddl && extra_sub == 2 {
                extra_sub = 0;
            }
            match extra_sub {
                1 => rel.push("sub".into()),
                2 => rel.push("zz=1".into()),
                _ => {}
            }
            let file_ext = if f.ext == 0 || self.ddl { ext.to_string() } else { OTHER_EXT[(f.ext as usize - 1) % OTHER_EXT.len()].to_string() };
            let fname = format!("{}{}{}", NAMES[f.name as usize % NAMES.len()], fi, file_ext);
            rel.push(fname.clone());
            let rows: Vec<(i64, Option<i64>, Option<String>)> = f
                .rows
                .iter()
                .map(|r| {
                    next_id += 1;
                    (next_id, r.v, r.s.clone().filter(|s| !s.is_empty()))
                })
                .collect();
            // membership model
            let path = rel.join("/");
            let ext_ok = path.ends_with(ext);
            let non_eq: Vec<&String> = rel.iter().filter(|s| !s.contains('=')).collect();
            let sub_ok = if self.ignore_subdirectory { non_eq.len() <= 1 } else { true };
            let glob_ok = match &glob {
                None => true,
                Some(g) => {
                    let joined = non_eq.iter().map(|s| s.as_str()).collect::<Vec<_>>().join("/");
                    glob_match(&g.chars().collect::<Vec<_>>(), &joined.chars().collect::<Vec<_>>())
                }
            };
            let part_ok = depth == n && !wrong;
            let in_table = match self.single() {
                Some(k) => k == fi && ext_ok && !f.empty,
                None => ext_ok && sub_ok && glob_ok && part_ok && !f.empty,
            };
            out.push(Laid { rel, values, texts, dirs, in_table, rows, alt_spelling: alt && depth == n });
        }
        out
    }
    fn col_ty(&self, c: &ColRef) -> Option<PTy> {
        match c {
            ColRef::P(i) => Some(self.pcols[(*i as usize) % self.n()]),
            ColRef::Id | ColRef::Vv => Some(PTy::Int),
            ColRef::S => Some(PTy::Utf8),
        }
    }
    fn col_sql(&self, c: &ColRef) -> String {
        match c {
            ColRef::P(i) => Self::pname((*i as usize) % self.n()),
            ColRef::Id => "id".into(),
            ColRef::Vv => "v".into(),
            ColRef::S => "s".into(),
        }
    }
    fn lit(&self, c: &ColRef, idx: u16) -> V {
        domain_value(self.col_ty(c).unwrap_or(PTy::Int), self.dom(idx))
    }
    fn pred_sql(&self, p: &Pred) -> String {
        let single = self.single().is_some();
        let is_p = |c: &ColRef| matches!(c, ColRef::P(_));
        match p {
            Pred::And(a, b) => format!("({} AND {})", self.pred_sql(a), self.pred_sql(b)),
            Pred::Or(a, b) => format!("({} OR {})", self.pred_sql(a), self.pred_sql(b)),
            Pred::Not(a) => format!("(NOT {})", self.pred_sql(a)),
            Pred::EqFile(..) if single => "TRUE".into(),
            Pred::EqFile(k, m) => {
                let parts: Vec<String> = self.eq_file(*k, *m).into_iter().map(|(c, v)| format!("{} = {}", Self::pname(c), sql_lit(&v))).collect();
                format!("({})", parts.join(" AND "))
            }
            Pred::Cmp(c, ..) | Pred::In(c, ..) | Pred::Between(c, ..) | Pred::IsNull(c, ..) | Pred::CastText(c, ..) | Pred::Func(c, ..) if single && is_p(c) => "TRUE".into(),
            Pred::Cmp(c, op, l) => format!("{} {} {}", self.col_sql(c), op.sql(), l.map(|i| sql_lit(&self.lit(c, i))).unwrap_or("NULL".into())),
            Pred::In(c, ls, neg) => {
                let items: Vec<String> = if ls.is_empty() { vec![sql_lit(&self.lit(c, 0))] } else { ls.iter().map(|i| sql_lit(&self.lit(c, *i))).collect() };
                format!("{} {}IN ({})", self.col_sql(c), if *neg { "NOT " } else { "" }, items.join(", "))
            }
            Pred::Between(c, a, b) => format!("{} BETWEEN {} AND {}", self.col_sql(c), sql_lit(&self.lit(c, *a)), sql_lit(&self.lit(c, *b))),
            Pred::IsNull(c, neg) => format!("{} IS {}NULL", self.col_sql(c), if *neg { "NOT " } else { "" }),
            Pred::CastText(c, op, l) => format!("CAST({} AS VARCHAR) {} {}", self.col_sql(c), op.sql(), sql_str(&canon_text(&self.lit(c, *l)))),
            Pred::Func(c, f, op, l) => {
                let col = self.col_sql(c);
                let lit = self.lit(c, *l);
                match (self.col_ty(c).unwrap_or(PTy::Int), lit) {
                    (PTy::Utf8, V::Str(s)) => match f % 5 {
                        0 => format!("upper({col}) {} {}", op.sql(), sql_str(&s.to_uppercase())),
                        1 => format!("length({col}) {} {}", op.sql(), s.chars().count()),
                        2 => format!("{col} || 'x' {} {}", op.sql(), sql_str(&format!("{s}x"))),
                        3 => format!("starts_with({col}, {})", sql_str(&s.chars().take(1).collect::<String>())),
                        _ => format!("{col} LIKE {}", sql_str(&format!("{}%", s.chars().take(1).filter(|c| *c != '%' && *c != '_' && *c != '\\').collect::<String>()))),
                    },
                    (PTy::Int, V::Int(i)) => match f % 3 {
                        0 => format!("{col} + 1 {} {}", op.sql(), i + 1),
                        1 => format!("abs({col}) {} {}", op.sql(), i.abs()),
                        _ => format!("{col} % 3 {} {}", op.sql(), i % 3),
                    },
                    (PTy::Date, V::Date(d)) => match f % 2 {
                        0 => format!("extract(year FROM {col}) {} {}", op.sql(), &date_text(d)[..4].trim_start_matches('0')),
                        _ => format!("{col} + INTERVAL '1' DAY {} {}", op.sql(), sql_lit(&V::Date(d + 1))),
                    },
                    _ => "TRUE".into(),
                }
            }
        }
    }
    /// (column, value) pairs of `Pred::EqFile(k, m)`
    fn eq_file(&self, k: u16, m: u8) -> Vec<(usize, V)> {
        let n = self.n();
        let m = (m as usize).clamp(1, n);
        match self.files.get(pick_index(k, self.files.len())) {
            Some(f) => (0..m).map(|c| (c, self.pval(f, c).0)).collect(),
            None => vec![],
        }
    }
    /// For every partition column the set of values the predicate (negated when `neg`) confines it to, when the
    /// structure of the predicate shows one (None = not confined). Sound for every rewrite of the simplifier that
    /// ends in a top-level conjunct `col = literal`: such a conjunct means the predicate implies `col = literal`.
    fn forced(&self, p: &Pred, neg: bool) -> Vec<Option<Vec<V>>> {
        let n = self.n();
        let mut out: Vec<Option<Vec<V>>> = vec![None; n];
        let col = |i: &u8| (*i as usize) % n;
        let and = |a: Vec<Option<Vec<V>>>, b: Vec<Option<Vec<V>>>| -> Vec<Option<Vec<V>>> {
            a.into_iter()
                .zip(b)
                .map(|(x, y)| match (x, y) {
                    (Some(x), Some(y)) => Some(x.into_iter().filter(|v| y.contains(v)).collect()),
                    (Some(x), None) | (None, Some(x)) => Some(x),
                    (None, None) => None,
                })
                .collect()
        };
        let or = |a: Vec<Option<Vec<V>>>, b: Vec<Option<Vec<V>>>| -> Vec<Option<Vec<V>>> {
            a.into_iter()
                .zip(b)
                .map(|(x, y)| match (x, y) {
                    (Some(mut x), Some(y)) => {
                        for v in y {
                            if !x.contains(&v) {
                                x.push(v);
                            }
                        }
                        Some(x)
                    }
                    _ => None,
                })
                .collect()
        };
        match p {
            Pred::And(a, b) => {
                let (x, y) = (self.forced(a, neg), self.forced(b, neg));
                if neg { or(x, y) } else { and(x, y) }
            }
            Pred::Or(a, b) => {
                let (x, y) = (self.forced(a, neg), self.forced(b, neg));
                if neg { and(x, y) } else { or(x, y) }
            }
            Pred::Not(a) => self.forced(a, !neg),
            // never true in either polarity (comparison with a NULL literal); partition columns are declared
            // non-nullable, so the simplifier folds `p IS NULL` to false and `p IS NOT NULL` to true:
            // "false" confines every column to the empty set
            Pred::Cmp(_, _, None) => vec![Some(vec![]); n],
            Pred::IsNull(ColRef::P(_), is_not) if *is_not == neg => vec![Some(vec![]); n],
            Pred::Cmp(c @ ColRef::P(i), op, Some(l)) if (*op == Op::Eq && !neg) || (*op == Op::Ne && neg) => {
                out[col(i)] = Some(vec![self.lit(c, *l)]);
                out
            }
            Pred::In(c @ ColRef::P(i), ls, in_neg) if *in_neg == neg => {
                let mut vs: Vec<V> = vec![];
                for l in ls.iter().chain(if ls.is_empty() { Some(&0u16) } else { None }) {
                    let v = self.lit(c, *l);
                    if !vs.contains(&v) {
                        vs.push(v);
                    }
                }
                out[col(i)] = Some(vs);
                out
            }
            Pred::Between(c @ ColRef::P(i), a, b) if !neg && self.lit(c, *a) == self.lit(c, *b) => {
                out[col(i)] = Some(vec![self.lit(c, *a)]);
                out
            }
            // `CAST(col AS VARCHAR) = 'text'` may be unwrapped to `col = literal`
            Pred::CastText(c @ ColRef::P(i), op, l) if (*op == Op::Eq && !neg) || (*op == Op::Ne && neg) => {
                out[col(i)] = Some(vec![self.lit(c, *l)]);
                out
            }
            Pred::EqFile(k, m) if !neg => {
                for (c, v) in self.eq_file(*k, *m) {
                    out[c] = Some(vec![v]);
                }
                out
            }
            _ => out,
        }
    }
    /// Literals DataFusion may end up with as *the* single value of a partition column: it looks at the
    /// partition-only conjuncts one by one, so every conjunct (and the conjunction) contributes what it confines
    /// a column to, when that is exactly one literal.
    fn single_candidates(&self, p: &Pred, neg: bool, out: &mut Vec<Vec<V>>) {
        for (c, f) in self.forced(p, neg).into_iter().enumerate() {
            if let Some(vs) = f {
                if vs.len() == 1 && !out[c].contains(&vs[0]) {
                    out[c].push(vs[0].clone());
                }
            }
        }
        match p {
            Pred::And(a, b) if !neg => {
                self.single_candidates(a, neg, out);
                self.single_candidates(b, neg, out);
            }
            Pred::Or(a, b) if neg => {
                self.single_candidates(a, neg, out);
                self.single_candidates(b, neg, out);
            }
            Pred::Not(a) => self.single_candidates(a, !neg, out),
            _ => {}
        }
    }
    fn candidates(&self) -> Vec<Vec<V>> {
        let mut out = vec![vec![]; self.n()];
        if let Some(p) = &self.pred {
            self.single_candidates(p, false, &mut out);
        }
        out
    }
    /// Does the open defect `prefix-alternate-spelling` apply: some table file carries, on a leading run of
    /// partition columns, values the filter may pin (so the unchanged `evaluate_partition_prefix` may list the
    /// prefix made of them — it stops at the first literal its encode set changes), and one of these directories
    /// is spelled differently from the name DataFusion lists.
    fn alternate_spelling_under_prefix(&self) -> bool {
        let cands = self.candidates();
        if cands.iter().all(|c| c.is_empty()) {
            return false;
        }
        for l in self.layout().iter().filter(|l| l.in_table) {
            for c in 0..self.n() {
                let Some(v) = l.values.get(c) else { break };
                if !cands[c].contains(v) {
                    break;
                }
                match df_prefix_spelling(&Self::pname(c), v) {
                    None => break,
                    Some(dir) => {
                        if l.dirs.get(c) != Some(&dir) {
                            return true;
                        }
                    }
                }
            }
        }
        false
    }
    /// length of the longest listing prefix the filter may produce (labels only)
    fn model_prefix_len(&self) -> usize {
        let cands = self.candidates();
        (0..self.n()).take_while(|c| cands[*c].iter().any(|v| df_prefix_spelling("p", v).is_some())).count()
    }
    /// a leading run of ≥ 2 pinned columns in which a non-last literal needs escaping
    fn escaped_non_last_in_run(&self) -> bool {
        let cands = self.candidates();
        let run = (0..self.n()).take_while(|c| !cands[*c].is_empty()).count();
        run >= 2 && (0..run - 1).any(|c| cands[c].iter().any(|v| df_prefix_spelling("p", v).is_none()))
    }
    fn query_sql(&self, table: &str) -> String {
        let n = self.n();
        let single = self.single().is_some();
        let pcols: Vec<String> = if single { vec![] } else { (0..n).map(Self::pname).collect() };
        let wh = match &self.pred {
            Some(p) => format!(" WHERE {}", self.pred_sql(p)),
            None => String::new(),
        };
        let all = ["id".to_string(), "v".into(), "s".into()].into_iter().chain(pcols.iter().cloned()).collect::<Vec<_>>().join(", ");
        match (self.query % 6, pcols.first()) {
            (1, _) => format!("SELECT count(*) FROM {table}{wh}"),
            (2, Some(p0)) => format!("SELECT {p0}, count(*), min(id) FROM {table}{wh} GROUP BY {p0}"),
            (3, _) => format!("SELECT id FROM {table}{wh}"),
            (4, Some(_)) => format!("SELECT DISTINCT {} FROM {table}{wh}", pcols.last().cloned().unwrap_or_default()),
            (5, _) => format!("SELECT id, {} FROM {table}{wh} ORDER BY id LIMIT 3", pcols.first().cloned().unwrap_or("v".into())),
            _ => format!("SELECT {all} FROM {table}{wh}"),
        }
    }
}

fn write_file(path: &std::path::Path, format: u8, rows: &[(i64, Option<i64>, Option<String>)], empty: bool) -> Result<(), String> {
    if let Some(parent) = path.parent() {
        std::fs::create_dir_all(parent).map_err(|e| format!("mkdir {}: {e}", parent.display()))?;
    }
    if empty {
        return std::fs::write(path, b"").map_err(|e| e.to_string());
    }
    match format {
        1 => {
            let mut out = String::new();
            for (id, v, s) in rows {
                let mut m = serde_json::Map::new();
                m.insert("id".into(), serde_json::json!(id));
                if let Some(v) = v {
                    m.insert("v".into(), serde_json::json!(v));
                }
                if let Some(s) = s {
                    m.insert("s".into(), serde_json::json!(s));
                }
                out.push_str(&serde_json::Value::Object(m).to_string());
                out.push('\n');
            }
            if out.is_empty() {
                out.push('\n');
            }
            std::fs::write(path, out).map_err(|e| e.to_string())
        }
        2 => {
            let cols = data_cols();
            let rows: Vec<Row> = rows.iter().map(|(id, v, s)| vec![V::Int(*id), v.map(V::Int).unwrap_or(V::Null), s.clone().map(V::Str).unwrap_or(V::Null)]).collect();
            let batch = rows_to_batch(&cols, &rows)?;
            let file = std::fs::File::create(path).map_err(|e| e.to_string())?;
            let mut w = parquet::arrow::ArrowWriter::try_new(file, batch.schema(), None).map_err(|e| e.to_string())?;
            w.write(&batch).map_err(|e| e.to_string())?;
            w.close().map_err(|e| e.to_string())?;
            Ok(())
        }
        _ => {
            let mut out = String::from("id,v,s\n");
            for (id, v, s) in rows {
                let sv = match s {
                    None => String::new(),
                    Some(s) => format!("\"{}\"", s.replace('"', "\"\"")),
                };
                out.push_str(&format!("{id},{},{sv}\n", v.map(|v| v.to_string()).unwrap_or_default()));
            }
            std::fs::write(path, out).map_err(|e| e.to_string())
        }
    }
}

fn data_cols() -> Vec<(String, Ty)> {
    vec![("id".into(), Ty::Int64), ("v".into(), Ty::Int64), ("s".into(), Ty::Utf8)]
}

fn unqualify(e: Expr) -> Result<Expr, String> {
    e.transform(|x| match x {
        Expr::Column(c) => Ok(Transformed::yes(Expr::Column(Column::new_unqualified(c.name)))),
        other => Ok(Transformed::no(other)),
    })
    .map(|t| t.data)
    .map_err(|e| e.to_string())
}

fn scan_filters(plan: &LogicalPlan, table: &str, out: &mut Vec<Expr>) {
    if let LogicalPlan::TableScan(ts) = plan {
        if ts.table_name.table() == table {
            out.extend(ts.filters.iter().cloned());
        }
    }
    for c in plan.inputs() {
        scan_filters(c, table, out);
    }
}

struct Outcome {
    violation: Option<String>,
    labels: Vec<String>,
    nontrivial: bool,
}

fn df_fail(what: &str, e: &datafusion::error::DataFusionError) -> CaseResult {
    match classify(e) {
        ErrClass::Rejected => CaseResult::discard(format!("{what}: {e}")),
        ErrClass::Resources => CaseResult::inconclusive(format!("{what}: {e}")),
        ErrClass::Other => CaseResult::violation(format!("{what} failed: {e}")),
    }
}

async fn run_case(c: &Case, root: &std::path::Path) -> Result<Outcome, CaseResult> {
    let n = c.n();
    let laid = c.layout();
    let tdir = root.join("tbl");
    std::fs::create_dir_all(&tdir).map_err(|e| CaseResult::inconclusive(format!("mkdir: {e}")))?;
    let mut fs_paths: Vec<PathBuf> = vec![];
    for (l, f) in laid.iter().zip(c.files.iter()) {
        let mut p = tdir.clone();
        for s in &l.rel {
            p.push(s);
        }
        write_file(&p, c.format, &l.rows, f.empty).map_err(|m| CaseResult::inconclusive(format!("harness write: {m}")))?;
        fs_paths.push(p);
    }
    let single = c.single();
    let location = match (&c.location, single) {
        // a plain path containing `?`, `*` or `[` would be taken for a glob: such files are addressed by URL
        (_, Some(k)) => url::Url::from_file_path(&fs_paths[k]).map(|u| u.to_string()).unwrap_or_else(|_| fs_paths[k].display().to_string()),
        (Location::Glob(_), _) => format!("{}/{}", tdir.display(), c.glob().unwrap_or("*".into())),
        _ => format!("{}/", tdir.display()),
    };
    let ext = c.ext();
    let part_cols: Vec<(String, DataType)> = if single.is_some() { vec![] } else { (0..n).map(|i| (Case::pname(i), c.pcols[i].ty().arrow())).collect() };
    let mut labels: Vec<String> = vec![];

    let o = SessOpts {
        target_partitions: c.target_partitions.clamp(1, 8) as usize,
        batch_size: 0,
        sets: vec![("datafusion.execution.listing_table_ignore_subdirectory".into(), c.ignore_subdirectory.to_string())],
        list_files_cache: Some(c.list_cache),
    };
    let ctx = session(&o).map_err(CaseResult::inconclusive)?;
    let file_schema = schema_of(&data_cols());
    let format: Arc<dyn FileFormat> = match c.format {
        1 => Arc::new(JsonFormat::default()),
        2 => Arc::new(ParquetFormat::default()),
        _ => Arc::new(CsvFormat::default().with_has_header(true)),
    };
    if c.ddl && single.is_none() {
        let mut cols: Vec<String> = vec!["id BIGINT".into(), "v BIGINT".into(), "s VARCHAR".into()];
        for i in 0..n {
            cols.push(format!("{} {}", Case::pname(i), c.pcols[i].ty().sql()));
        }
        let ddl = format!(
            "CREATE EXTERNAL TABLE t ({}) STORED AS {} LOCATION {} PARTITIONED BY ({}){}",
            cols.join(", "),
            match c.format {
                1 => "JSON",
                2 => "PARQUET",
                _ => "CSV",
            },
            sql_str(&location),
            (0..n).map(Case::pname).collect::<Vec<_>>().join(", "),
            if c.format == 0 { " OPTIONS ('format.has_header' 'true')" } else { "" }
        );
        run_sql(&ctx, &ddl).await.map_err(|e| df_fail("CREATE EXTERNAL TABLE", &e))?;
        labels.push("register:ddl".into());
    } else {
        let opts = ListingOptions::new(format.clone()).with_file_extension(ext).with_table_partition_cols(part_cols.clone());
        ctx.register_listing_table("t", &location, opts, Some(file_schema.clone()), None).await.map_err(|e| df_fail("register_listing_table", &e))?;
        labels.push("register:api".into());
    }
    // the partition column types of the table as registered (CREATE EXTERNAL TABLE maps VARCHAR to Utf8View)
    let declared_part_cols = part_cols.clone();
    let part_cols: Vec<(String, DataType)> = {
        let provider = ctx.table_provider("t").await.map_err(|e| CaseResult::inconclusive(format!("table_provider: {e}")))?;
        match provider.downcast_ref::<datafusion::datasource::listing::ListingTable>() {
            Some(lt) => lt.options().table_partition_cols.clone(),
            None => declared_part_cols.clone(),
        }
    };
    if part_cols.len() != declared_part_cols.len() {
        return Err(CaseResult::inconclusive("registered table has an unexpected number of partition columns"));
    }

    // the reference table: rows of the member files with partition columns materialised
    let mut mcols = data_cols();
    for (name, _) in &part_cols {
        let i: usize = name[1..].parse().unwrap_or(0);
        mcols.push((name.clone(), c.pcols[i].ty()));
    }
    let mut mrows: Vec<Row> = vec![];
    let mut prow: Vec<Row> = vec![];
    for (fi, l) in laid.iter().enumerate() {
        if !l.in_table {
            continue;
        }
        for (id, v, s) in &l.rows {
            let mut r = vec![V::Int(*id), v.map(V::Int).unwrap_or(V::Null), s.clone().map(V::Str).unwrap_or(V::Null)];
            if single.is_none() {
                r.extend(l.values.iter().cloned());
            }
            mrows.push(r);
        }
        let mut pr = vec![V::Int(fi as i64)];
        pr.extend(l.values.iter().cloned());
        prow.push(pr);
    }
    let mbatch = rows_to_batch(&mcols, &mrows).map_err(|m| CaseResult::inconclusive(format!("harness batch: {m}")))?;
    let mt = MemTable::try_new(mbatch.schema(), vec![vec![mbatch]]).map_err(|e| CaseResult::inconclusive(format!("memtable: {e}")))?;
    ctx.register_table("m", Arc::new(mt)).map_err(|e| CaseResult::inconclusive(format!("register m: {e}")))?;

    // 1. membership + partition values, without filters
    let url = ListingTableUrl::parse(&location).map_err(|e| df_fail("ListingTableUrl::parse", &e))?;
    let store = ctx.runtime_env().object_store(&url).map_err(|e| df_fail("object_store", &e))?;
    let state = ctx.state();
    let fs_to_idx: BTreeMap<String, usize> = fs_paths
        .iter()
        .enumerate()
        .filter_map(|(i, p)| object_store::path::Path::from_filesystem_path(p).ok().map(|op| (op.to_string(), i)))
        .collect();
    let listed: Vec<datafusion::datasource::listing::PartitionedFile> = pruned_partition_list(&state, store.as_ref(), &url, &[], ext, &part_cols)
        .await
        .map_err(|e| df_fail("pruned_partition_list(no filter)", &e))?
        .try_collect()
        .await
        .map_err(|e| df_fail("pruned_partition_list(no filter) stream", &e))?;
    let mut listed_idx = BTreeSet::new();
    for pf in &listed {
        let loc = pf.object_meta.location.to_string();
        let Some(i) = fs_to_idx.get(&loc) else {
            return Ok(Outcome { violation: Some(format!("pruned_partition_list returned {loc}, which is not one of the files written below {location}")), labels, nontrivial: false });
        };
        listed_idx.insert(*i);
        if single.is_none() {
            let want: Vec<ScalarValue> = laid[*i]
                .values
                .iter()
                .zip(part_cols.iter())
                .map(|(v, (_, dt))| match v {
                    V::Str(s) if *dt == DataType::Utf8View => ScalarValue::Utf8View(Some(s.clone())),
                    V::Str(s) => ScalarValue::Utf8(Some(s.clone())),
                    V::Int(x) => ScalarValue::Int32(Some(*x as i32)),
                    V::Date(d) => ScalarValue::Date32(Some(*d)),
                    _ => ScalarValue::Null,
                })
                .collect();
            if pf.partition_values != want {
                return Ok(Outcome {
                    violation: Some(format!("file {loc}: partition values {:?}, but the path was built from {:?} (directories {:?})", pf.partition_values, want, laid[*i].dirs)),
                    labels,
                    nontrivial: true,
                });
            }
            let cols: Vec<String> = (0..n).map(Case::pname).collect();
            let parsed = parse_partitions_for_path(&url, &pf.object_meta.location, cols.iter().map(|s| s.as_str()));
            let got: Option<Vec<String>> = parsed.map(|v| v.into_iter().map(|c| c.into_owned()).collect());
            if got.as_ref() != Some(&laid[*i].texts) {
                return Ok(Outcome { violation: Some(format!("parse_partitions_for_path({loc}) = {got:?}, the path was built from {:?}", laid[*i].texts)), labels, nontrivial: true });
            }
        }
    }
    let members: BTreeSet<usize> = laid.iter().enumerate().filter(|(_, l)| l.in_table).map(|(i, _)| i).collect();
    if listed_idx != members {
        let show = |s: &BTreeSet<usize>| s.iter().map(|i| laid[*i].rel.join("/")).collect::<Vec<_>>();
        return Ok(Outcome {
            violation: Some(format!(
                "location {location} (extension {ext:?}, ignore_subdirectory={}) covers {:?} but the files that match are {:?}; all files: {:?}",
                c.ignore_subdirectory,
                show(&listed_idx),
                show(&members),
                laid.iter().map(|l| l.rel.join("/")).collect::<Vec<_>>()
            )),
            labels,
            nontrivial: false,
        });
    }

    // 2. the query, twice (second run may be served by the list-files cache)
    let sql_t = c.query_sql("t");
    let sql_m = c.query_sql("m");
    let expected = sql_rows(&ctx, &sql_m).await.map_err(|f| match f.class {
        ErrClass::Rejected => CaseResult::discard(format!("reference query rejected: {}", f.msg)),
        _ => CaseResult::inconclusive(format!("reference query failed: {}", f.msg)),
    })?;
    let ordered_limit = c.query % 6 == 5;
    for round in 0..2 {
        let got = sql_rows(&ctx, &sql_t).await.map_err(|f| match f.class {
            ErrClass::Rejected => CaseResult::discard(format!("query rejected: {}", f.msg)),
            ErrClass::Resources => CaseResult::inconclusive(f.msg),
            ErrClass::Other => CaseResult::violation(format!("query over the listing table failed (it succeeds over the MemTable): {}", f.msg)),
        })?;
        let diff = if ordered_limit { if got == expected { None } else { Some(format!("expected {expected:?}, got {got:?}")) } } else { multiset_diff(&expected, &got) };
        if let Some(d) = diff {
            return Ok(Outcome {
                violation: Some(format!(
                    "run {round}: {sql_t} differs from the same query over the materialised rows: {d}; table files {:?}",
                    laid.iter().filter(|l| l.in_table).map(|l| l.rel.join("/")).collect::<Vec<_>>()
                )),
                labels,
                nontrivial: true,
            });
        }
    }

    // 3. pruned_partition_list with the partition filters of the optimized plan
    let mut pruned = 0usize;
    let mut kept = 0usize;
    if single.is_none() && c.pred.is_some() {
        let df = ctx.sql(&c.query_sql("t")).await.map_err(|e| df_fail("plan", &e))?;
        let plan = df.into_optimized_plan().map_err(|e| df_fail("optimize", &e))?;
        let mut filters = vec![];
        scan_filters(&plan, "t", &mut filters);
        let names: Vec<String> = (0..n).map(Case::pname).collect();
        let name_refs: Vec<&str> = names.iter().map(|s| s.as_str()).collect();
        let mut pfilters: Vec<Expr> = vec![];
        for f in filters.into_iter().filter(|f| expr_applicable_for_cols(&name_refs, f)) {
            // the physical planner strips the table qualifier before it calls TableProvider::scan
            pfilters.push(unqualify(f).map_err(CaseResult::inconclusive)?);
        }
        if !pfilters.is_empty() {
            labels.push("partition-filter-pushed".into());
            // which member files satisfy them, according to the expression evaluator over a MemTable
            let mut pc = vec![("fidx".to_string(), Ty::Int64)];
            for i in 0..n {
                pc.push((Case::pname(i), c.pcols[i].ty()));
            }
            let pbatch = rows_to_batch(&pc, &prow).map_err(|m| CaseResult::inconclusive(format!("harness batch: {m}")))?;
            let pt = MemTable::try_new(pbatch.schema(), vec![vec![pbatch]]).map_err(|e| CaseResult::inconclusive(format!("memtable: {e}")))?;
            ctx.register_table("parts", Arc::new(pt)).map_err(|e| CaseResult::inconclusive(format!("register parts: {e}")))?;
            let mut dfp = ctx.table("parts").await.map_err(|e| CaseResult::inconclusive(format!("parts: {e}")))?;
            for f in &pfilters {
                dfp = dfp.filter(f.clone()).map_err(|e| CaseResult::inconclusive(format!("reference partition filter: {e}")))?;
            }
            let sat = dfp.collect().await.map_err(|e| CaseResult::inconclusive(format!("reference partition filter: {e}")))?;
            let sat_rows = batches_to_rows(&sat).map_err(CaseResult::inconclusive)?;
            let must: BTreeSet<usize> = sat_rows.iter().filter_map(|r| if let V::Int(i) = r[0] { Some(i as usize) } else { None }).collect();
            let got: Vec<datafusion::datasource::listing::PartitionedFile> = pruned_partition_list(&state, store.as_ref(), &url, &pfilters, ext, &part_cols)
                .await
                .map_err(|e| df_fail("pruned_partition_list", &e))?
                .try_collect()
                .await
                .map_err(|e| df_fail("pruned_partition_list stream", &e))?;
            let got_idx: BTreeSet<usize> = got.iter().filter_map(|pf| fs_to_idx.get(&pf.object_meta.location.to_string()).copied()).collect();
            let missing: Vec<usize> = must.difference(&got_idx).copied().collect();
            if !missing.is_empty() {
                return Ok(Outcome {
                    violation: Some(format!(
                        "pruned_partition_list with filters {:?} dropped {:?} whose partition values {:?} satisfy the filters (kept {:?})",
                        pfilters.iter().map(|f| f.to_string()).collect::<Vec<_>>(),
                        missing.iter().map(|i| laid[*i].rel.join("/")).collect::<Vec<_>>(),
                        missing.iter().map(|i| laid[*i].values.clone()).collect::<Vec<_>>(),
                        got_idx.iter().map(|i| laid[*i].rel.join("/")).collect::<Vec<_>>()
                    )),
                    labels,
                    nontrivial: true,
                });
            }
            kept = got_idx.len();
            pruned = members.len().saturating_sub(kept);
        }
    }
    let alt = laid.iter().any(|l| l.in_table && l.alt_spelling);
    if pruned > 0 && kept > 0 {
        labels.push("pruned>=1&kept>=1".into());
    } else if pruned > 0 {
        labels.push("all-files-pruned".into());
    }
    if alt {
        labels.push("alternate-spelling-in-table".into());
    }
    labels.push(format!("member-files={}", members.len().min(9)));
    if members.len() < laid.len() {
        labels.push("non-member-files-present".into());
    }
    Ok(Outcome { violation: None, labels, nontrivial: (pruned > 0 && kept > 0) || alt })
}

fn pred_kinds(p: &Pred, out: &mut BTreeSet<String>) {
    let side = |c: &ColRef| if matches!(c, ColRef::P(_)) { "partition" } else { "data" };
    match p {
        Pred::And(a, b) => {
            out.insert("pred:and".into());
            pred_kinds(a, out);
            pred_kinds(b, out);
        }
        Pred::Or(a, b) => {
            out.insert("pred:or".into());
            pred_kinds(a, out);
            pred_kinds(b, out);
        }
        Pred::Not(a) => {
            out.insert("pred:not".into());
            pred_kinds(a, out);
        }
        Pred::Cmp(c, op, l) => {
            out.insert(format!("pred:{}-col", side(c)));
            out.insert(if *op == Op::Eq { "pred:eq".into() } else { "pred:cmp".to_string() });
            if l.is_none() {
                out.insert("pred:null-literal".into());
            }
        }
        Pred::In(c, ..) => {
            out.insert(format!("pred:{}-col", side(c)));
            out.insert("pred:in".into());
        }
        Pred::Between(c, ..) => {
            out.insert(format!("pred:{}-col", side(c)));
            out.insert("pred:between".into());
        }
        Pred::IsNull(c, _) => {
            out.insert(format!("pred:{}-col", side(c)));
            out.insert("pred:is-null".into());
        }
        Pred::CastText(c, ..) => {
            out.insert(format!("pred:{}-col", side(c)));
            out.insert("pred:cast".into());
        }
        Pred::Func(c, ..) => {
            out.insert(format!("pred:{}-col", side(c)));
            out.insert("pred:function".into());
        }
        Pred::EqFile(..) => {
            out.insert("pred:partition-col".into());
            out.insert("pred:eq".into());
            out.insert("pred:eq-on-leading-columns-of-a-file".into());
        }
    }
}

fn colref() -> BoxedStrategy<ColRef> {
    prop_oneof![6 => (0u8..3).prop_map(ColRef::P), 1 => Just(ColRef::Id), 1 => Just(ColRef::Vv), 1 => Just(ColRef::S)].boxed()
}

fn op() -> BoxedStrategy<Op> {
    prop_oneof![4 => Just(Op::Eq), 1 => Just(Op::Ne), 1 => Just(Op::Lt), 1 => Just(Op::Le), 1 => Just(Op::Gt), 1 => Just(Op::Ge)].boxed()
}

fn pred_strategy() -> BoxedStrategy<Pred> {
    let leaf = prop_oneof![
        6 => (colref(), op(), prop::option::weighted(0.95, any::<u16>())).prop_map(|(c, o, l)| Pred::Cmp(c, o, l)),
        2 => (colref(), prop::collection::vec(any::<u16>(), 1..4), prop::bool::weighted(0.25)).prop_map(|(c, l, n)| Pred::In(c, l, n)),
        1 => (colref(), any::<u16>(), any::<u16>()).prop_map(|(c, a, b)| Pred::Between(c, a, b)),
        1 => (colref(), any::<bool>()).prop_map(|(c, n)| Pred::IsNull(c, n)),
        1 => (colref(), op(), any::<u16>()).prop_map(|(c, o, l)| Pred::CastText(c, o, l)),
        2 => (colref(), any::<u8>(), op(), any::<u16>()).prop_map(|(c, f, o, l)| Pred::Func(c, f, o, l)),
        4 => (any::<u16>(), prop_oneof![1 => Just(1u8), 2 => Just(2u8), 2 => Just(3u8)]).prop_map(|(k, m)| Pred::EqFile(k, m)),
    ];
    let tree = leaf.clone().prop_recursive(3, 8, 2, |inner| {
        prop_oneof![
            2 => (inner.clone(), inner.clone()).prop_map(|(a, b)| Pred::And(Box::new(a), Box::new(b))),
            3 => (inner.clone(), inner.clone()).prop_map(|(a, b)| Pred::Or(Box::new(a), Box::new(b))),
            1 => inner.prop_map(|a| Pred::Not(Box::new(a))),
        ]
    });
    prop_oneof![2 => leaf, 3 => tree].boxed()
}

fn file_strategy(tier: Tier) -> BoxedStrategy<FileSpec> {
    let text = prop_oneof![3 => "[a-c]{1,3}", 1 => prop::sample::select(vec!["a b", "x,y", "q\"r", "é", "NULL", "1"]).prop_map(|s| s.to_string())];
    let row = (prop::option::weighted(0.8, -3i64..6), prop::option::weighted(0.8, text)).prop_map(|(v, s)| DataRow { v, s });
    (
        prop::collection::vec((any::<u16>(), prop_oneof![3 => Just(0u8), 2 => Just(1u8), 2 => Just(2u8), 2 => Just(3u8), 1 => Just(4u8), 2 => Just(5u8)]), 1..4),
        prop_oneof![12 => Just(3u8), 1 => Just(0u8), 1 => Just(1u8), 1 => Just(2u8)],
        prop::option::weighted(0.06, 0u8..3),
        prop_oneof![10 => Just(0u8), 1 => Just(1u8), 1 => Just(2u8)],
        0u8..4,
        prop_oneof![10 => Just(0u8), 2 => 1u8..9],
        prop::bool::weighted(0.04),
        prop::collection::vec(row, 0..tier.pick(4, 12)),
    )
        .prop_map(|(pvals, depth, wrong_name_at, extra_sub, name, ext, empty, rows)| FileSpec { pvals, depth, wrong_name_at, extra_sub, name, ext, empty, rows })
        .boxed()
}

impl Property for C27 {
    type Case = Case;
    fn id(&self) -> &'static str {
        "C27"
    }
    fn sub(&self) -> &'static str {
        "c27"
    }
    fn strategy(&self, tier: Tier) -> BoxedStrategy<Case> {
        let pty = prop_oneof![4 => Just(PTy::Utf8), 2 => Just(PTy::Int), 1 => Just(PTy::Date)];
        (
            prop::collection::vec(pty, 1..4),
            prop::collection::vec(file_strategy(tier), 1..tier.pick(13, 25)),
            prop::option::weighted(0.9, pred_strategy()),
            0u8..6,
            prop_oneof![6 => Just(Location::Dir), 3 => (0u8..7).prop_map(Location::Glob), 1 => any::<u16>().prop_map(Location::SingleFile)],
            any::<bool>(),
            any::<bool>(),
            prop_oneof![3 => Just(0u8), 1 => Just(1u8), 2 => Just(2u8)],
            prop::bool::weighted(0.3),
            (1u8..5, prop_oneof![1 => Just(vec![]), 4 => prop::collection::vec(any::<u16>(), 2..6)]),
        )
            .prop_map(|(pcols, files, pred, query, location, ignore_subdirectory, list_cache, format, ddl, (target_partitions, palette))| Case {
                pcols,
                files,
                pred,
                query,
                location,
                ignore_subdirectory,
                list_cache,
                format,
                ddl,
                target_partitions,
                palette,
            })
            .boxed()
    }
    fn budget(&self, tier: Tier) -> Budget {
        Budget::new(tier.pick(1_200, 40_000), tier.pick(8, 16)).min_nontrivial(tier.pick(300, 10_000)).case_timeout(180)
    }
    fn rule(&self) -> String {
        "1-3 typed partition columns, 1-12 harness-written files in a hive layout with 6 directory spellings per value, layout noise, dir/glob/single-file location, \
         ignore_subdirectory, list-files cache, filters over partition and data columns, 6 query shapes; non-trivial = the partition filters handed to the table prune >=1 member file and keep >=1, \
         or a member file's directory spelling differs from the plain text of its value; distinct by case JSON"
            .into()
    }
    fn assumptions(&self) -> Vec<String> {
        vec![
            "expression evaluation over a MemTable is correct (C33): it is the reference for both the query result and for which files satisfy the partition filters".into(),
            "membership of a file in a table follows the documented rules modelled in Case::layout (extension suffix, glob over non-k=v segments, ignore_subdirectory, leading col=value directories, size>0)".into(),
            "directory spellings never over-encode unreserved characters; the open finding `prefix-alternate-spelling` is excluded by signature".into(),
        ]
    }
    fn known_signature(&self, c: &Case) -> Option<String> {
        if std::env::var("VERIF_C27_NO_EXCLUDE").map(|v| v == "1").unwrap_or(false) {
            return None;
        }
        if c.pcols.is_empty() || c.files.is_empty() || c.single().is_some() {
            return None;
        }
        c.pred.as_ref()?;
        // the open defect: a directory spelled differently from the directory name DataFusion derives from the
        // literal, for a column of the prefix it really lists, in a table file carrying exactly those values
        if c.alternate_spelling_under_prefix() {
            return Some("prefix-alternate-spelling".into());
        }
        None
    }
    fn run(&self, c: &Case) -> CaseResult {
        if c.pcols.is_empty() || c.pcols.len() > 3 || c.files.is_empty() || c.files.len() > 40 {
            return CaseResult::discard("outside domain");
        }
        let tmp = match tempfile::tempdir() {
            Ok(t) => t,
            Err(e) => return CaseResult::inconclusive(format!("tempdir: {e}")),
        };
        let out = block_on_timeout(if c.target_partitions > 2 { 2 } else { 1 }, 90, run_case(c, tmp.path()));
        drop(tmp);
        let o = match out {
            Err(()) => return CaseResult::inconclusive("timeout after 90 s"),
            Ok(Err(r)) => return r,
            Ok(Ok(o)) => o,
        };
        let mut r = match o.violation {
            Some(m) => CaseResult::violation(m),
            None => CaseResult::pass(),
        };
        r = r.nontrivial(o.nontrivial).labels(o.labels);
        r = r.label(format!("pcols={}", c.n()));
        for t in c.pcols.iter().take(3) {
            r = r.label(format!("ptype:{t:?}"));
        }
        r = r.label(match c.location {
            Location::Dir => "location:dir",
            Location::Glob(_) => "location:glob",
            Location::SingleFile(_) => "location:single-file",
        });
        r = r.label(format!("ignore_subdirectory={}", c.ignore_subdirectory)).label(format!("list_cache={}", c.list_cache));
        r = r.label(match c.format {
            1 => "format:ndjson",
            2 => "format:parquet",
            _ => "format:csv",
        });
        r = r.label(format!("query={}", c.query % 6));
        if c.single().is_none() && c.escaped_non_last_in_run() {
            r = r.label("eq-run:escaped-value-in-non-last-column");
        }
        if c.single().is_none() && c.model_prefix_len() > 0 {
            r = r.label(format!("listing-prefix-columns={}", c.model_prefix_len()));
        }
        let mut kinds = BTreeSet::new();
        match &c.pred {
            Some(p) => pred_kinds(p, &mut kinds),
            None => {
                kinds.insert("pred:none".into());
            }
        }
        r = r.labels(kinds);
        let mut spells = BTreeSet::new();
        for f in &c.files {
            for (_, s) in &f.pvals {
                spells.insert(format!("spelling:{}", ["object_store", "df-encode-set", "spark-like", "raw", "lower-hex", "zero-padded/raw"][(*s as usize).min(5)]));
            }
            if f.depth < 3 && (f.depth as usize) < c.n() {
                spells.insert("noise:stale-or-partial-depth".into());
            }
            if f.wrong_name_at.is_some() {
                spells.insert("noise:wrong-column-name".into());
            }
            if f.extra_sub == 1 {
                spells.insert("noise:extra-subdir".into());
            }
            if f.extra_sub == 2 {
                spells.insert("noise:extra-eq-dir".into());
            }
            if f.ext != 0 && !c.ddl {
                spells.insert("noise:other-extension".into());
            }
            if f.empty {
                spells.insert("noise:empty-file".into());
            }
        }
        r.labels(spells)
    }
}
