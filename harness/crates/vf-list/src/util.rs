//! Shared helpers of the vf-list properties (C25, C26, C27): plain values, Arrow conversion both
//! ways, session construction, per-case runtime + timeout, error classification.
//! (`vf-df` did not exist when these checks were written; everything needed is local.)
use arrow::array::*;
use arrow::compute::cast;
use arrow::datatypes::{DataType, Field, Schema, SchemaRef, TimeUnit};
use arrow::record_batch::RecordBatch;
use datafusion::error::DataFusionError;
use datafusion::execution::runtime_env::RuntimeEnvBuilder;
use datafusion::prelude::{SessionConfig, SessionContext};
use serde::{Deserialize, Serialize};
use std::cmp::Ordering;
use std::future::Future;
use std::sync::Arc;
use std::time::Duration;

/// A plain cell value. Floats are finite and never `-0.0` (generators guarantee it).
#[derive(Clone, Debug, Serialize, Deserialize, PartialEq)]
pub enum V {
    Null,
    Bool(bool),
    Int(i64),
    F(f64),
    Str(String),
    /// days since the epoch
    Date(i32),
    /// microseconds since the epoch, no time zone
    Ts(i64),
    /// unscaled value, scale
    Dec(i128, i8),
}

impl V {
    pub fn is_null(&self) -> bool {
        matches!(self, V::Null)
    }
    fn rank(&self) -> u8 {
        match self {
            V::Null => 0,
            V::Bool(_) => 1,
            V::Int(_) => 2,
            V::F(_) => 3,
            V::Str(_) => 4,
            V::Date(_) => 5,
            V::Ts(_) => 6,
            V::Dec(..) => 7,
        }
    }
    /// total order used only to sort rows before a multiset comparison
    pub fn total_cmp(&self, o: &V) -> Ordering {
        match (self, o) {
            (V::Bool(a), V::Bool(b)) => a.cmp(b),
            (V::Int(a), V::Int(b)) => a.cmp(b),
            (V::F(a), V::F(b)) => a.total_cmp(b),
            (V::Str(a), V::Str(b)) => a.cmp(b),
            (V::Date(a), V::Date(b)) => a.cmp(b),
            (V::Ts(a), V::Ts(b)) => a.cmp(b),
            (V::Dec(a, s), V::Dec(b, t)) => (s, a).cmp(&(t, b)),
            _ => self.rank().cmp(&o.rank()),
        }
    }
}

pub type Row = Vec<V>;

pub fn cmp_rows(a: &Row, b: &Row) -> Ordering {
    for (x, y) in a.iter().zip(b.iter()) {
        let c = x.total_cmp(y);
        if c != Ordering::Equal {
            return c;
        }
    }
    a.len().cmp(&b.len())
}

pub fn sort_rows(rows: &mut [Row]) {
    rows.sort_by(cmp_rows);
}

/// `None` when the two multisets are equal, else a short description of the first difference.
pub fn multiset_diff(expected: &[Row], actual: &[Row]) -> Option<String> {
    let mut e = expected.to_vec();
    let mut a = actual.to_vec();
    sort_rows(&mut e);
    sort_rows(&mut a);
    if e == a {
        return None;
    }
    let mut i = 0;
    let mut j = 0;
    let mut missing = vec![];
    let mut extra = vec![];
    while i < e.len() || j < a.len() {
        if i == e.len() {
            extra.push(a[j].clone());
            j += 1;
        } else if j == a.len() {
            missing.push(e[i].clone());
            i += 1;
        } else {
            match cmp_rows(&e[i], &a[j]) {
                Ordering::Equal => {
                    i += 1;
                    j += 1;
                }
                Ordering::Less => {
                    missing.push(e[i].clone());
                    i += 1;
                }
                Ordering::Greater => {
                    extra.push(a[j].clone());
                    j += 1;
                }
            }
        }
    }
    missing.truncate(4);
    extra.truncate(4);
    Some(format!("expected {} rows, got {}; missing (first): {:?}; unexpected (first): {:?}", expected.len(), actual.len(), missing, extra))
}

#[derive(Clone, Debug, Serialize, Deserialize, PartialEq, Eq)]
pub enum Ty {
    Int64,
    Int32,
    Float64,
    Bool,
    Date32,
    TsMicros,
    /// precision, scale
    Dec(u8, i8),
    Utf8,
}

impl Ty {
    pub fn arrow(&self) -> DataType {
        match self {
            Ty::Int64 => DataType::Int64,
            Ty::Int32 => DataType::Int32,
            Ty::Float64 => DataType::Float64,
            Ty::Bool => DataType::Boolean,
            Ty::Date32 => DataType::Date32,
            Ty::TsMicros => DataType::Timestamp(TimeUnit::Microsecond, None),
            Ty::Dec(p, s) => DataType::Decimal128(*p, *s),
            Ty::Utf8 => DataType::Utf8,
        }
    }
    pub fn sql(&self) -> String {
        match self {
            Ty::Int64 => "BIGINT".into(),
            Ty::Int32 => "INT".into(),
            Ty::Float64 => "DOUBLE".into(),
            Ty::Bool => "BOOLEAN".into(),
            Ty::Date32 => "DATE".into(),
            Ty::TsMicros => "TIMESTAMP(6)".into(),
            Ty::Dec(p, s) => format!("DECIMAL({p},{s})"),
            Ty::Utf8 => "VARCHAR".into(),
        }
    }
    pub fn kind(&self) -> &'static str {
        match self {
            Ty::Int64 => "int64",
            Ty::Int32 => "int32",
            Ty::Float64 => "float64",
            Ty::Bool => "bool",
            Ty::Date32 => "date",
            Ty::TsMicros => "ts",
            Ty::Dec(..) => "decimal",
            Ty::Utf8 => "utf8",
        }
    }
    /// does `v` inhabit this type (NULL inhabits all)
    pub fn admits(&self, v: &V) -> bool {
        match (self, v) {
            (_, V::Null) => true,
            (Ty::Int64, V::Int(_)) => true,
            (Ty::Int32, V::Int(i)) => i32::try_from(*i).is_ok(),
            (Ty::Float64, V::F(f)) => f.is_finite() && !(*f == 0.0 && f.is_sign_negative()),
            (Ty::Bool, V::Bool(_)) => true,
            (Ty::Date32, V::Date(_)) => true,
            (Ty::TsMicros, V::Ts(_)) => true,
            (Ty::Dec(p, s), V::Dec(u, t)) => s == t && u.unsigned_abs() < 10u128.pow(*p as u32),
            (Ty::Utf8, V::Str(_)) => true,
            _ => false,
        }
    }
}

pub fn schema_of(cols: &[(String, Ty)]) -> SchemaRef {
    Arc::new(Schema::new(cols.iter().map(|(n, t)| Field::new(n, t.arrow(), true)).collect::<Vec<_>>()))
}

/// Render one column of plain values to an Arrow array of the column's type.
pub fn column_to_array(ty: &Ty, vals: &[&V]) -> Result<ArrayRef, String> {
    for v in vals {
        if !ty.admits(v) {
            return Err(format!("value {v:?} does not inhabit {ty:?}"));
        }
    }
    Ok(match ty {
        Ty::Int64 => Arc::new(Int64Array::from_iter(vals.iter().map(|v| if let V::Int(i) = v { Some(*i) } else { None }))),
        Ty::Int32 => Arc::new(Int32Array::from_iter(vals.iter().map(|v| if let V::Int(i) = v { Some(*i as i32) } else { None }))),
        Ty::Float64 => Arc::new(Float64Array::from_iter(vals.iter().map(|v| if let V::F(f) = v { Some(*f) } else { None }))),
        Ty::Bool => Arc::new(BooleanArray::from_iter(vals.iter().map(|v| if let V::Bool(b) = v { Some(*b) } else { None }))),
        Ty::Date32 => Arc::new(Date32Array::from_iter(vals.iter().map(|v| if let V::Date(d) = v { Some(*d) } else { None }))),
        Ty::TsMicros => Arc::new(TimestampMicrosecondArray::from_iter(vals.iter().map(|v| if let V::Ts(t) = v { Some(*t) } else { None }))),
        Ty::Dec(p, s) => Arc::new(
            Decimal128Array::from_iter(vals.iter().map(|v| if let V::Dec(u, _) = v { Some(*u) } else { None }))
                .with_precision_and_scale(*p, *s)
                .map_err(|e| e.to_string())?,
        ),
        Ty::Utf8 => Arc::new(StringArray::from_iter(vals.iter().map(|v| if let V::Str(s) = v { Some(s.as_str()) } else { None }))),
    })
}

pub fn rows_to_batch(cols: &[(String, Ty)], rows: &[Row]) -> Result<RecordBatch, String> {
    let schema = schema_of(cols);
    let mut arrays = vec![];
    for (i, (_, ty)) in cols.iter().enumerate() {
        let vals: Vec<&V> = rows.iter().map(|r| r.get(i).unwrap_or(&V::Null)).collect();
        arrays.push(column_to_array(ty, &vals)?);
    }
    let opts = RecordBatchOptions::new().with_row_count(Some(rows.len()));
    RecordBatch::try_new_with_options(schema, arrays, &opts).map_err(|e| e.to_string())
}

/// Split rows into batches at the given cut points (sorted, deduplicated, clamped here).
pub fn rows_to_batches(cols: &[(String, Ty)], rows: &[Row], cuts: &[usize]) -> Result<Vec<RecordBatch>, String> {
    let mut cs: Vec<usize> = cuts.iter().map(|c| (*c).min(rows.len())).collect();
    cs.push(0);
    cs.push(rows.len());
    cs.sort();
    cs.dedup();
    let mut out = vec![];
    for w in cs.windows(2) {
        out.push(rows_to_batch(cols, &rows[w[0]..w[1]])?);
    }
    if out.is_empty() {
        out.push(rows_to_batch(cols, &[])?);
    }
    Ok(out)
}

/// One Arrow column to plain values (type-agnostic on the value level: any integer width → Int, any
/// string encoding → Str, …).
pub fn array_to_values(a: &ArrayRef) -> Result<Vec<V>, String> {
    let n = a.len();
    let e = |x: arrow::error::ArrowError| x.to_string();
    Ok(match a.data_type() {
        DataType::Null => vec![V::Null; n],
        DataType::Boolean => {
            let b = a.as_boolean();
            (0..n).map(|i| if b.is_null(i) { V::Null } else { V::Bool(b.value(i)) }).collect()
        }
        DataType::Int8 | DataType::Int16 | DataType::Int32 | DataType::Int64 | DataType::UInt8 | DataType::UInt16 | DataType::UInt32 | DataType::UInt64 => {
            let c = cast(a, &DataType::Int64).map_err(e)?;
            if c.null_count() != a.null_count() {
                return Err("integer out of i64 range".into());
            }
            let c = c.as_primitive::<arrow::datatypes::Int64Type>();
            (0..n).map(|i| if c.is_null(i) { V::Null } else { V::Int(c.value(i)) }).collect()
        }
        DataType::Float16 | DataType::Float32 | DataType::Float64 => {
            let c = cast(a, &DataType::Float64).map_err(e)?;
            let c = c.as_primitive::<arrow::datatypes::Float64Type>();
            (0..n).map(|i| if c.is_null(i) { V::Null } else { V::F(c.value(i)) }).collect()
        }
        DataType::Utf8 | DataType::LargeUtf8 | DataType::Utf8View | DataType::Dictionary(_, _) => {
            let c = cast(a, &DataType::Utf8).map_err(e)?;
            let c = c.as_string::<i32>();
            (0..n).map(|i| if c.is_null(i) { V::Null } else { V::Str(c.value(i).to_string()) }).collect()
        }
        DataType::Date32 | DataType::Date64 => {
            let c = cast(a, &DataType::Date32).map_err(e)?;
            let c = c.as_primitive::<arrow::datatypes::Date32Type>();
            (0..n).map(|i| if c.is_null(i) { V::Null } else { V::Date(c.value(i)) }).collect()
        }
        DataType::Timestamp(_, _) => {
            let c = cast(a, &DataType::Timestamp(TimeUnit::Microsecond, None)).map_err(e)?;
            let c = c.as_primitive::<arrow::datatypes::TimestampMicrosecondType>();
            (0..n).map(|i| if c.is_null(i) { V::Null } else { V::Ts(c.value(i)) }).collect()
        }
        DataType::Decimal128(_, s) => {
            let c = a.as_primitive::<arrow::datatypes::Decimal128Type>();
            (0..n).map(|i| if c.is_null(i) { V::Null } else { V::Dec(c.value(i), *s) }).collect()
        }
        other => return Err(format!("unsupported result type {other}")),
    })
}

pub fn batches_to_rows(batches: &[RecordBatch]) -> Result<Vec<Row>, String> {
    let mut out = vec![];
    for b in batches {
        let cols: Vec<Vec<V>> = b.columns().iter().map(array_to_values).collect::<Result<_, _>>()?;
        for i in 0..b.num_rows() {
            out.push(cols.iter().map(|c| c[i].clone()).collect());
        }
    }
    Ok(out)
}

// -------------------------------------------------------------------------------------------------
// SQL text

pub fn sql_str(s: &str) -> String {
    format!("'{}'", s.replace('\'', "''"))
}

pub fn date_text(days: i32) -> String {
    match chrono::NaiveDate::from_num_days_from_ce_opt(719_163 + days) {
        Some(d) => d.format("%Y-%m-%d").to_string(),
        None => "1970-01-01".into(),
    }
}

/// A typed SQL literal for `v`.
pub fn sql_lit(v: &V) -> String {
    match v {
        V::Null => "NULL".into(),
        V::Bool(b) => if *b { "TRUE" } else { "FALSE" }.into(),
        V::Int(i) => {
            if *i == i64::MIN {
                "(-9223372036854775807 - 1)".into()
            } else if *i < 0 {
                format!("({i})")
            } else {
                i.to_string()
            }
        }
        V::F(f) => format!("CAST('{f:e}' AS DOUBLE)"),
        V::Str(s) => sql_str(s),
        V::Date(d) => format!("DATE '{}'", date_text(*d)),
        V::Ts(t) => format!("arrow_cast({t}, 'Timestamp(Microsecond, None)')"),
        V::Dec(u, s) => format!("arrow_cast({u}, 'Decimal128(38, 0)') / arrow_cast(1{}, 'Decimal128(38, 0)')", "0".repeat(*s as usize)),
    }
}

// -------------------------------------------------------------------------------------------------
// sessions, runtimes, errors

#[derive(Clone, Debug, Default)]
pub struct SessOpts {
    pub target_partitions: usize,
    pub batch_size: usize,
    /// `datafusion.*` keys set through `SessionConfig::set_str`
    pub sets: Vec<(String, String)>,
    /// None = default cache manager; Some(false) = list-files cache disabled
    pub list_files_cache: Option<bool>,
}

pub fn session(o: &SessOpts) -> Result<SessionContext, String> {
    let mut cfg = SessionConfig::new().with_target_partitions(o.target_partitions.max(1)).with_information_schema(false);
    if o.batch_size > 0 {
        cfg = cfg.with_batch_size(o.batch_size);
    }
    for (k, v) in &o.sets {
        cfg.options_mut().set(k, v).map_err(|e| format!("config {k}={v}: {e}"))?;
    }
    let mut rb = RuntimeEnvBuilder::new();
    if o.list_files_cache == Some(false) {
        let cm = datafusion::execution::cache::cache_manager::CacheManagerConfig::default().with_list_files_cache_limit(0);
        rb = rb.with_cache_manager(cm);
    }
    let rt = rb.build_arc().map_err(|e| e.to_string())?;
    Ok(SessionContext::new_with_config_rt(cfg, rt))
}

pub fn runtime(workers: usize) -> tokio::runtime::Runtime {
    if workers <= 1 {
        tokio::runtime::Builder::new_current_thread().enable_all().build().expect("tokio runtime")
    } else {
        tokio::runtime::Builder::new_multi_thread().worker_threads(workers).enable_all().build().expect("tokio runtime")
    }
}

/// Run `fut` on a fresh runtime with a timeout. `Err(())` = timed out.
pub fn block_on_timeout<F: Future>(workers: usize, secs: u64, fut: F) -> Result<F::Output, ()> {
    let t0 = std::time::Instant::now();
    let rt = runtime(workers);
    let r = rt.block_on(async { tokio::time::timeout(Duration::from_secs(secs), fut).await });
    let t1 = t0.elapsed();
    rt.shutdown_timeout(Duration::from_secs(2));
    if std::env::var("VERIF_DEBUG").is_ok() {
        eprintln!("[timing] block_on {:?}, shutdown {:?}", t1, t0.elapsed() - t1);
    }
    r.map_err(|_| ())
}

#[derive(Clone, Copy, Debug, PartialEq, Eq)]
pub enum ErrClass {
    /// the engine says "not supported" / rejects the statement while planning
    Rejected,
    Resources,
    Other,
}

pub fn classify(e: &DataFusionError) -> ErrClass {
    match e.find_root() {
        DataFusionError::NotImplemented(_) | DataFusionError::Plan(_) | DataFusionError::SQL(..) | DataFusionError::Configuration(_) | DataFusionError::SchemaError(..) => ErrClass::Rejected,
        DataFusionError::ResourcesExhausted(_) => ErrClass::Resources,
        _ => ErrClass::Other,
    }
}

pub async fn run_sql(ctx: &SessionContext, sql: &str) -> Result<Vec<RecordBatch>, DataFusionError> {
    ctx.sql(sql).await?.collect().await
}

pub async fn sql_rows(ctx: &SessionContext, sql: &str) -> Result<Vec<Row>, SqlFail> {
    let b = run_sql(ctx, sql).await.map_err(|e| SqlFail { class: classify(&e), msg: format!("{sql} -> {e}") })?;
    batches_to_rows(&b).map_err(|m| SqlFail { class: ErrClass::Other, msg: format!("{sql} -> result conversion: {m}") })
}

#[derive(Debug, Clone)]
pub struct SqlFail {
    pub class: ErrClass,
    pub msg: String,
}
