//! vf-list: C25 (write → read round trip), C26 (byte-range scans), C27 (listing-table partition pruning).
mod c25;
mod c26;
mod c27;
mod chunkstore;
mod util;

fn main() {
    vf_kit::dispatch! {
        "c25" => c25::C25,
        "c26" => c26::C26,
        "c27" => c27::C27,
    }
}
