//! C26 — parallel byte-range scans read every record exactly once.
//!
//! Three kinds of generated cases share this sub-command (weights 24 : 2 : 1, i.e. ≈ 6 000 unit cases,
//! ≈ 500 SQL cases and ≈ 250 direct-scan cases in the quick tier) plus a deterministic exhaustive sub-run (`Property::extra`).
//!
//! **(a) Unit** — `AlignedBoundaryStream::new(store, path, raw_start, raw_end, file_size, terminator)`
//! (datafusion/datasource/src/boundary_stream.rs; `END_SCAN_LOOKAHEAD` = 16 KiB is read from the crate)
//! over a harness `ObjectStore` wrapper (`chunkstore.rs`) that re-chunks every GET response to a
//! generated cyclic plan of chunk sizes (1 B … whole, now and then an empty chunk — the object_store
//! `ChunkedStore` the DataFusion tests use emits those too), or over `LocalFileSystem` (the
//! `GetResultPayload::File` path). A file is a list of lines (length, content seed, optional `\r`),
//! with or without a final terminator; terminator byte `\n` (mostly), `|` or `\r`. Cut points are
//! placed relative to line starts (± a few bytes, ± the lookahead) so boundaries fall on, just before
//! and just after line breaks and around the lookahead refill; 0–3 cuts give 1–4 contiguous ranges
//! covering the file; the last range may overshoot the file size (as the DataFusion unit tests do).
//! Oracle (the contract documented on `CsvOpener::open` / `JsonOpener::open`): the output of range
//! `[s,e)` is exactly the bytes of the lines whose first byte lies in `[s,e)`, hence the concatenation
//! over contiguous ranges is the file. The oracle is computed from the line table, not by scanning.
//!
//! **Exhaustive sub-run** (`extra`): because a range's output depends on `(s,e)` only, "every split of
//! a file into 1–4 contiguous ranges" is covered by every pair `0 ≤ s ≤ e ≤ size (+1 overshoot)`:
//! all line-length compositions of total size ≤ 7 B, a list of canned files ≤ 64 B (CRLF, blank lines,
//! no final newline, only newlines, one long line) and seed-derived files ≤ 64 B, each under chunk
//! plans {1, 2, 3, 7, whole, [0,1]}; plus files with lines of LOOKAHEAD−1 … 2·LOOKAHEAD+1 bytes with all
//! pairs of boundaries taken from {line start, ±1, ±2, + LOOKAHEAD ± 1} under chunk plans
//! {whole, 8192, 16384, 16385, 4099}. Counts are reported in `coverage.exhaustive_subrun`.
//!
//! **(b) SQL** — 1–4 CSV or NDJSON files (explicit schema `f,n,v,s`; rows carry file and line number)
//! in a listing table, scanned with `repartition_file_scans = true`, `repartition_file_min_size = 1`,
//! `target_partitions` 1–8, work stealing on/off, small batch sizes, over the chunking store or the
//! local file system; compared as multisets with (i) the rows the files were rendered from and (ii) the
//! scan with `repartition_file_scans = false`, `target_partitions = 1`. For `SELECT *` the plan is
//! executed per partition and, within one partition, the rows of one byte range of one file must come
//! out in file order. The byte ranges actually planned are read from the `DataSourceExec`.
//! Guards: no quoted fields with embedded newlines (documented unsupported for range scans);
//! compressed files are not generated (not splittable); for CSV the string column never holds `''`
//! (CSV identifies it with NULL — C25's business).
//!
//! **(c) direct scans** — the same rendered files scanned by a `DataSourceExec` built by hand
//! (`FileScanConfigBuilder` + `CsvSource` / `JsonSource`) whose file groups hold *generated* byte ranges
//! (0–4 cuts per file placed relative to record starts, ranges dealt to 1–4 groups in generated order, whole
//! files with and without an explicit range): rows = the rows written, and file order inside one range.
//! This reaches the header handling of `CsvOpener` (`start != 0`) and the decoders at arbitrary boundaries,
//! which the evenly sized ranges of the repartitioner never produce.
//!
//! Non-trivial: (unit) some boundary strictly inside a line and another exactly at a line start;
//! (SQL) the planned ranges contain a boundary strictly inside a line.
//!
//! Deviations from DESIGN.md: unit, SQL and direct-scan parts share one sub-command; the chunk plan is cyclic
//! (not one size per case); request *delays* of §3.8(e) are not generated (the stream under test has no
//! timing dependence — it is a pure state machine over the chunk sequence).
//!
//! Sensitivity probes (tools/mutrun, patches in crates/vf-list/probes/, quick tier):
//! 1. boundary_stream.rs: fetch from `raw_start` instead of `raw_start - 1`;
//! 2. boundary_stream.rs: the lookahead refill GET starts at `pos + 1` (drops one byte);
//! 3. boundary_stream.rs: `search_from = chunk_in_range_len` (a terminator exactly at `end - 1` is missed, the
//!    next line is read twice).
//! All three are env-guarded in probes/combined-datasource-env-guarded.diff and run by probes/run-all.sh
//! (probes/log-all.txt): 1 → VIOLATION after 15 cases, 2 → VIOLATION after 4 cases, 3 → VIOLATION after 21 cases.
use crate::chunkstore::ChunkStore;
use crate::util::*;
use bytes::Bytes;
use datafusion::datasource::physical_plan::FileScanConfig;
use datafusion::datasource::source::DataSourceExec;
use datafusion::physical_plan::{ExecutionPlan, collect_partitioned};
use datafusion_datasource::boundary_stream::{AlignedBoundaryStream, END_SCAN_LOOKAHEAD};
use futures::TryStreamExt;
use object_store::memory::InMemory;
use object_store::path::Path as OPath;
use object_store::{ObjectStore, ObjectStoreExt, PutPayload};
use proptest::prelude::*;
use serde::{Deserialize, Serialize};
use serde_json::{Value, json};
use std::collections::BTreeMap;
use std::sync::Arc;
use vf_kit::engine::*;

pub struct C26;

const LA: u64 = END_SCAN_LOOKAHEAD;

#[derive(Clone, Debug, Serialize, Deserialize)]
pub enum Case {
    Unit(UnitCase),
    Sql(SqlCase),
    /// the real CSV / NDJSON openers over generated (not evenly sized) byte ranges and groupings
    Scan(ScanCase),
}

// ---------------------------------------------------------------------------------------------
// (a) unit part

#[derive(Clone, Debug, Serialize, Deserialize)]
pub struct Line {
    pub len: u32,
    pub seed: u8,
    /// content ends with a carriage return (CRLF files)
    pub cr: bool,
}

#[derive(Clone, Debug, Serialize, Deserialize)]
pub struct Cut {
    /// monotone index into the line-start table (plus one entry for the file size)
    pub line: u16,
    pub delta: i32,
}

#[derive(Clone, Debug, Serialize, Deserialize)]
pub struct UnitCase {
    pub lines: Vec<Line>,
    /// the last line is terminated
    pub trailing: bool,
    pub term: u8,
    pub cuts: Vec<Cut>,
    /// the last range ends this many bytes past the file size
    pub overshoot: u32,
    pub chunks: Vec<u32>,
    pub local_file: bool,
}

const ALPHA: &[u8] = b"abcdefghijklmnopqrstuvwxyz0123456789,\" {}:";

impl UnitCase {
    fn bytes(&self) -> (Vec<u8>, Vec<u64>) {
        let mut out = vec![];
        let mut starts = vec![];
        let n = self.lines.len();
        for (i, l) in self.lines.iter().enumerate() {
            starts.push(out.len() as u64);
            for j in 0..l.len as usize {
                let mut b = ALPHA[(j + l.seed as usize + i) % ALPHA.len()];
                if b == self.term {
                    b = b'_';
                }
                out.push(b);
            }
            if l.cr && self.term != b'\r' {
                out.push(b'\r');
            }
            if i + 1 < n || self.trailing {
                out.push(self.term);
            }
        }
        // a final line without content and without terminator does not exist
        if let Some(last) = starts.last() {
            if *last == out.len() as u64 {
                starts.pop();
            }
        }
        (out, starts)
    }
    fn ranges(&self, starts: &[u64], size: u64) -> Vec<(u64, u64)> {
        let mut table: Vec<u64> = starts.to_vec();
        table.push(size);
        let mut cs: Vec<u64> = self
            .cuts
            .iter()
            .map(|c| {
                let base = table[pick_index(c.line, table.len())] as i64;
                (base + c.delta as i64).clamp(0, size as i64) as u64
            })
            .collect();
        cs.sort();
        let mut out = vec![];
        let mut prev = 0u64;
        for c in cs {
            out.push((prev, c));
            prev = c;
        }
        out.push((prev, size + self.overshoot as u64));
        out
    }
}

/// bytes of the lines whose first byte lies in [s, e)
fn expected_range(data: &[u8], starts: &[u64], s: u64, e: u64) -> (usize, usize) {
    let first = starts.partition_point(|p| *p < s);
    let last = starts.partition_point(|p| *p < e);
    if first >= last {
        return (0, 0);
    }
    let from = starts[first] as usize;
    let to = if last < starts.len() { starts[last] as usize } else { data.len() };
    (from, to)
}

async fn read_range(store: Arc<dyn ObjectStore>, path: OPath, s: u64, e: u64, size: u64, term: u8) -> Result<Vec<u8>, String> {
    let st = AlignedBoundaryStream::new(store, path, s, e, size, term).await.map_err(|x| format!("AlignedBoundaryStream::new({s},{e},{size}): {x}"))?;
    let chunks: Vec<Bytes> = st.try_collect().await.map_err(|x| format!("stream [{s},{e}) of {size}: {x}"))?;
    Ok(chunks.concat())
}

fn show(b: &[u8]) -> String {
    let s = String::from_utf8_lossy(b);
    truncate(&format!("{s:?}"), 160)
}

struct UnitOutcome {
    violation: Option<String>,
    gets: u64,
    ranges: Vec<(u64, u64)>,
    starts: Vec<u64>,
    size: u64,
}

fn run_unit(c: &UnitCase) -> Result<UnitOutcome, String> {
    let (data, starts) = c.bytes();
    let size = data.len() as u64;
    let ranges = c.ranges(&starts, size);
    let tmp;
    let mut counter: Option<Arc<ChunkStore>> = None;
    let (store, path): (Arc<dyn ObjectStore>, OPath) = if c.local_file {
        tmp = tempfile::tempdir().map_err(|e| e.to_string())?;
        std::fs::write(tmp.path().join("f.txt"), &data).map_err(|e| e.to_string())?;
        let fs = object_store::local::LocalFileSystem::new_with_prefix(tmp.path()).map_err(|e| e.to_string())?;
        (Arc::new(fs), OPath::from("f.txt"))
    } else {
        let cs = Arc::new(ChunkStore::new(Arc::new(InMemory::new()), c.chunks.clone()));
        counter = Some(cs.clone());
        (cs, OPath::from("dir/f.txt"))
    };
    let rt = runtime(1);
    let res: Result<Option<String>, String> = rt.block_on(async {
        if !c.local_file {
            store.put(&path, PutPayload::from(data.clone())).await.map_err(|e| e.to_string())?;
        }
        let mut all = vec![];
        for (s, e) in &ranges {
            let got = match read_range(store.clone(), path.clone(), *s, *e, size, c.term).await {
                Ok(g) => g,
                Err(m) => return Ok(Some(m)),
            };
            let (a, b) = expected_range(&data, &starts, *s, *e);
            if got != data[a..b] {
                return Ok(Some(format!(
                    "range [{s},{e}) of a {size}-byte file (line starts {:?}) produced {} bytes {} but the lines starting inside the range are bytes [{a},{b}) = {}",
                    truncate(&format!("{starts:?}"), 200),
                    got.len(),
                    show(&got),
                    show(&data[a..b])
                )));
            }
            all.extend_from_slice(&got);
        }
        if all != data {
            return Ok(Some(format!("concatenation of ranges {ranges:?} has {} bytes, file has {size}", all.len())));
        }
        Ok(None)
    });
    let violation = res?;
    Ok(UnitOutcome { violation, gets: counter.map(|c| c.get_count()).unwrap_or(0), ranges, starts, size })
}

fn unit_result(c: &UnitCase) -> CaseResult {
    if c.lines.len() > 64 || c.cuts.len() > 3 || c.lines.iter().any(|l| l.len > 200_000) || c.term == 0 {
        return CaseResult::discard("outside domain");
    }
    let o = match run_unit(c) {
        Ok(o) => o,
        Err(m) => return CaseResult::inconclusive(format!("harness I/O: {m}")),
    };
    if let Some(m) = o.violation {
        return CaseResult::violation(m).label("unit");
    }
    let mut inside = false;
    let mut at_start = false;
    for (s, _) in o.ranges.iter().skip(1) {
        if *s == 0 || *s >= o.size {
            continue;
        }
        if o.starts.binary_search(s).is_ok() {
            at_start = true;
        } else {
            inside = true;
        }
    }
    let mut r = CaseResult::pass().nontrivial(inside && at_start).label("unit").label(format!("unit:ranges={}", o.ranges.len()));
    if inside {
        r = r.label("unit:cut-inside-line");
    }
    if at_start {
        r = r.label("unit:cut-at-line-start");
    }
    if c.lines.iter().any(|l| l.len as u64 >= LA) {
        r = r.label("unit:line>=lookahead");
    }
    if c.lines.iter().any(|l| l.len == 0) {
        r = r.label("unit:empty-line");
    }
    if c.lines.iter().any(|l| l.cr) {
        r = r.label("unit:crlf");
    }
    if !c.trailing {
        r = r.label("unit:no-final-terminator");
    }
    if c.overshoot > 0 {
        r = r.label("unit:end-past-eof");
    }
    if c.local_file {
        r = r.label("unit:local-file-payload");
    } else {
        if c.chunks.iter().any(|x| *x == 1) {
            r = r.label("unit:chunk=1B");
        }
        if c.chunks.iter().any(|x| *x == 0) {
            r = r.label("unit:empty-chunks");
        }
        if c.chunks.is_empty() {
            r = r.label("unit:chunk=whole");
        }
        let live = o.ranges.iter().filter(|(s, e)| s < e && *s < o.size).count() as u64;
        if o.gets > live + 1 {
            r = r.label("unit:lookahead-refill");
        }
    }
    if c.term != b'\n' {
        r = r.label("unit:other-terminator");
    }
    if o.size == 0 {
        r = r.label("unit:empty-file");
    }
    r
}

fn line_strategy(tier: Tier) -> BoxedStrategy<Line> {
    let la = LA as u32;
    let big = tier.pick(3, 6);
    let len = prop_oneof![
        6 => 0u32..12,
        2 => Just(0u32),
        2 => 12u32..80,
        1 => (la - 3)..(la + 4),
        2 => (2 * la - 2)..(2 * la + 3),
        2 => (la / 2)..(la * big),
    ];
    (len, any::<u8>(), prop::bool::weighted(0.15)).prop_map(|(len, seed, cr)| Line { len, seed, cr }).boxed()
}

fn cut_strategy() -> BoxedStrategy<Cut> {
    let la = LA as i32;
    let delta = prop_oneof![
        5 => -3i32..4,
        5 => Just(0i32),
        2 => 4i32..40,
        2 => (la - 3)..(la + 4),
        1 => (-la - 3)..(-la + 4),
        2 => 0i32..(3 * la),
    ];
    (any::<u16>(), delta).prop_map(|(line, delta)| Cut { line, delta }).boxed()
}

fn chunk_plan() -> BoxedStrategy<Vec<u32>> {
    let la = LA as u32;
    let one = prop_oneof![
        4 => Just(1u32),
        4 => 2u32..9,
        2 => 9u32..100,
        1 => Just(0u32),
        2 => prop::sample::select(vec![4096u32, 8192, la - 1, la, la + 1, 2 * la]),
        2 => 100u32..40_000,
    ];
    prop_oneof![
        2 => Just(vec![]),
        5 => prop::collection::vec(one.clone(), 1..2),
        3 => prop::collection::vec(one, 2..5),
    ]
    .boxed()
}

fn unit_strategy(tier: Tier) -> BoxedStrategy<UnitCase> {
    (
        prop_oneof![1 => Just(vec![]), 30 => prop::collection::vec(line_strategy(tier), 1..tier.pick(9, 24))],
        prop::bool::weighted(0.7),
        prop_oneof![8 => Just(b'\n'), 1 => Just(b'|'), 1 => Just(b'\r')],
        prop::collection::vec(cut_strategy(), 0..4),
        prop_oneof![6 => Just(0u32), 1 => 1u32..5, 1 => Just(LA as u32)],
        chunk_plan(),
        prop::bool::weighted(0.04),
    )
        .prop_map(|(lines, trailing, term, cuts, overshoot, chunks, local_file)| UnitCase { lines, trailing, term, cuts, overshoot, chunks, local_file })
        .boxed()
}

// ---------------------------------------------------------------------------------------------
// (b) SQL part

#[derive(Clone, Debug, Serialize, Deserialize)]
pub struct RowSpec {
    pub v: Option<i64>,
    pub s: Option<String>,
    /// blank lines after this record
    pub blanks: u8,
}

#[derive(Clone, Debug, Serialize, Deserialize)]
pub struct FileSpec {
    pub rows: Vec<RowSpec>,
    pub trailing_newline: bool,
    pub crlf: bool,
}

#[derive(Clone, Debug, Serialize, Deserialize)]
pub struct SqlCase {
    pub json: bool,
    pub header: bool,
    pub files: Vec<FileSpec>,
    pub target_partitions: u8,
    /// None = local file system; Some(plan) = in-memory store behind the chunking wrapper
    pub chunks: Option<Vec<u32>>,
    pub work_stealing: bool,
    pub batch_size: u16,
    pub query: u8,
}

fn csv_field(s: &str) -> String {
    let needs = s.contains(',') || s.contains('"') || s.starts_with(' ') || s.ends_with(' ') || s.is_empty();
    if needs { format!("\"{}\"", s.replace('"', "\"\"")) } else { s.to_string() }
}

impl SqlCase {
    fn clean(s: &str) -> String {
        s.chars().filter(|c| *c != '\n' && *c != '\r').collect()
    }
    /// the value of column `s` the table holds for a generated string
    fn s_value(&self, s: &Option<String>) -> V {
        match s {
            None => V::Null,
            Some(x) => {
                let x = Self::clean(x);
                if !self.json && x.is_empty() { V::Null } else { V::Str(x) }
            }
        }
    }
    fn render(&self, fi: usize, f: &FileSpec) -> (Vec<u8>, Vec<u64>) {
        let nl = if f.crlf { "\r\n" } else { "\n" };
        let mut out = String::new();
        let mut starts = vec![];
        if !self.json && self.header {
            out.push_str("f,n,v,s");
            out.push_str(nl);
        }
        let n = f.rows.len();
        for (i, r) in f.rows.iter().enumerate() {
            starts.push(out.len() as u64);
            let sv = self.s_value(&r.s);
            if self.json {
                let mut m = serde_json::Map::new();
                m.insert("f".into(), json!(fi as i64));
                m.insert("n".into(), json!(i as i64));
                if let Some(v) = r.v {
                    m.insert("v".into(), json!(v));
                } else if i % 2 == 0 {
                    m.insert("v".into(), Value::Null);
                }
                if let V::Str(s) = &sv {
                    m.insert("s".into(), json!(s));
                }
                out.push_str(&Value::Object(m).to_string());
            } else {
                out.push_str(&format!("{fi},{i},{},{}", r.v.map(|v| v.to_string()).unwrap_or_default(), if let V::Str(s) = &sv { csv_field(s) } else { String::new() }));
            }
            let last = i + 1 == n;
            if !last || f.trailing_newline {
                out.push_str(nl);
                for _ in 0..r.blanks {
                    out.push_str(nl);
                }
            }
        }
        (out.into_bytes(), starts)
    }
    fn expected(&self) -> Vec<Row> {
        let mut rows = vec![];
        for (fi, f) in self.files.iter().enumerate() {
            for (i, r) in f.rows.iter().enumerate() {
                rows.push(vec![V::Int(fi as i64), V::Int(i as i64), r.v.map(V::Int).unwrap_or(V::Null), self.s_value(&r.s)]);
            }
        }
        rows
    }
    fn query(&self) -> (&'static str, Vec<Row>) {
        let all = self.expected();
        match self.query {
            1 => {
                let cnt = all.len() as i64;
                let sum: i64 = all.iter().map(|r| if let V::Int(n) = r[1] { n } else { 0 }).sum();
                let cv = all.iter().filter(|r| !r[2].is_null()).count() as i64;
                let cs = all.iter().filter(|r| !r[3].is_null()).count() as i64;
                ("SELECT count(*), coalesce(sum(n), 0), count(v), count(s) FROM t", vec![vec![V::Int(cnt), V::Int(sum), V::Int(cv), V::Int(cs)]])
            }
            2 => ("SELECT f, n FROM t WHERE n % 2 = 0", all.iter().filter(|r| matches!(r[1], V::Int(n) if n % 2 == 0)).map(|r| vec![r[0].clone(), r[1].clone()]).collect()),
            3 => ("SELECT s FROM t", all.iter().map(|r| vec![r[3].clone()]).collect()),
            _ => ("SELECT f, n, v, s FROM t", all),
        }
    }
}

struct SqlOutcome {
    violation: Option<String>,
    labels: Vec<String>,
    nontrivial: bool,
}

fn find_scan(plan: &Arc<dyn ExecutionPlan>) -> Option<Vec<Vec<(String, Option<(i64, i64)>)>>> {
    if let Some(ds) = plan.downcast_ref::<DataSourceExec>() {
        if let Some(cfg) = ds.data_source().downcast_ref::<FileScanConfig>() {
            return Some(cfg.file_groups.iter().map(|g| g.iter().map(|f| (f.object_meta.location.to_string(), f.range.as_ref().map(|r| (r.start, r.end)))).collect()).collect());
        }
    }
    for c in plan.children() {
        if let Some(x) = find_scan(c) {
            return Some(x);
        }
    }
    None
}

async fn run_sql_case(c: &SqlCase, dir: &std::path::Path) -> Result<SqlOutcome, CaseResult> {
    let ext = if c.json { "json" } else { "csv" };
    let rendered: Vec<(Vec<u8>, Vec<u64>)> = c.files.iter().enumerate().map(|(i, f)| c.render(i, f)).collect();
    let mem = Arc::new(InMemory::new());
    let location = if c.chunks.is_some() {
        for (i, (b, _)) in rendered.iter().enumerate() {
            mem.put(&OPath::from(format!("t/part-{i}.{ext}")), PutPayload::from(b.clone())).await.map_err(|e| CaseResult::inconclusive(format!("harness put: {e}")))?;
        }
        "chunk://data/t/".to_string()
    } else {
        std::fs::create_dir_all(dir.join("t")).map_err(|e| CaseResult::inconclusive(format!("harness mkdir: {e}")))?;
        for (i, (b, _)) in rendered.iter().enumerate() {
            std::fs::write(dir.join("t").join(format!("part-{i}.{ext}")), b).map_err(|e| CaseResult::inconclusive(format!("harness write: {e}")))?;
        }
        format!("{}/t/", dir.display())
    };
    let ddl = format!(
        "CREATE EXTERNAL TABLE t (f BIGINT, n BIGINT, v BIGINT, s VARCHAR) STORED AS {} LOCATION '{}'{}",
        if c.json { "JSON" } else { "CSV" },
        location,
        if c.json { String::new() } else { format!(" OPTIONS ('format.has_header' '{}')", c.header) }
    );
    let (sql, expected) = c.query();
    let mk = |parallel: bool| -> Result<datafusion::prelude::SessionContext, CaseResult> {
        let o = SessOpts {
            target_partitions: if parallel { c.target_partitions.clamp(1, 16) as usize } else { 1 },
            batch_size: c.batch_size.max(1) as usize,
            sets: vec![
                ("datafusion.optimizer.repartition_file_scans".into(), parallel.to_string()),
                ("datafusion.optimizer.repartition_file_min_size".into(), "1".into()),
                ("datafusion.execution.enable_file_stream_work_stealing".into(), c.work_stealing.to_string()),
            ],
            list_files_cache: None,
        };
        let ctx = session(&o).map_err(CaseResult::inconclusive)?;
        if let Some(plan) = &c.chunks {
            let store = Arc::new(ChunkStore::new(mem.clone(), plan.clone()));
            ctx.register_object_store(&url::Url::parse("chunk://data").expect("url"), store);
        }
        Ok(ctx)
    };
    let fail = |what: &str, f: SqlFail| -> CaseResult {
        match f.class {
            ErrClass::Rejected => CaseResult::discard(format!("{what}: {}", f.msg)),
            ErrClass::Resources => CaseResult::inconclusive(f.msg),
            ErrClass::Other => CaseResult::violation(format!("{what} failed: {}", f.msg)),
        }
    };
    // serial reference scan
    let ctx1 = mk(false)?;
    sql_rows(&ctx1, &ddl).await.map_err(|f| fail("DDL", f))?;
    let serial = sql_rows(&ctx1, sql).await.map_err(|f| fail("single-partition scan", f))?;
    // parallel scan
    let ctx = mk(true)?;
    sql_rows(&ctx, &ddl).await.map_err(|f| fail("DDL", f))?;
    let df = ctx.sql(sql).await.map_err(|e| fail("plan", SqlFail { class: classify(&e), msg: e.to_string() }))?;
    let plan = df.create_physical_plan().await.map_err(|e| fail("physical plan", SqlFail { class: classify(&e), msg: e.to_string() }))?;
    let groups = find_scan(&plan).unwrap_or_default();
    let parts = collect_partitioned(plan.clone(), ctx.task_ctx()).await.map_err(|e| fail("range scan", SqlFail { class: classify(&e), msg: format!("{sql}: {e}") }))?;
    let mut parallel = vec![];
    let mut per_part = vec![];
    for p in &parts {
        let rows = batches_to_rows(p).map_err(|m| CaseResult::violation(format!("result conversion: {m}")))?;
        parallel.extend(rows.iter().cloned());
        per_part.push(rows);
    }
    let mut labels = vec![];
    let mut ranged = 0usize;
    let mut inside = false;
    let mut files_split = std::collections::BTreeSet::new();
    for g in &groups {
        for (loc, r) in g {
            if let Some((s, e)) = r {
                ranged += 1;
                let idx = c.files.iter().enumerate().position(|(i, _)| loc.ends_with(&format!("part-{i}.{ext}")));
                if let Some(i) = idx {
                    let (bytes, starts) = &rendered[i];
                    let size = bytes.len() as i64;
                    if *s > 0 || *e < size {
                        files_split.insert(i);
                    }
                    for b in [*s, *e] {
                        if b > 0 && b < size {
                            let header_len = starts.first().copied().unwrap_or(size as u64);
                            let is_start = starts.binary_search(&(b as u64)).is_ok() || (b as u64) == header_len;
                            // a boundary after the last terminator of blank lines is also a line start; be conservative
                            if !is_start && bytes[(b - 1) as usize] != b'\n' {
                                inside = true;
                            }
                        }
                    }
                }
            }
        }
    }
    labels.push(format!("sql:groups={}", groups.len().min(9)));
    if ranged > 0 {
        labels.push("sql:byte-ranges".into());
    }
    if !files_split.is_empty() {
        labels.push("sql:file-split".into());
    }
    if inside {
        labels.push("sql:boundary-inside-line".into());
    }
    if groups.iter().any(|g| g.len() > 1) {
        labels.push("sql:several-files-per-group".into());
    }
    let head = format!("{} file(s), target_partitions={}, planned groups {:?}", c.files.len(), c.target_partitions, truncate(&format!("{groups:?}"), 600));
    if let Some(d) = multiset_diff(&expected, &parallel) {
        return Ok(SqlOutcome { violation: Some(format!("range scan differs from the rows the files were written from: {d}; {head}; query {sql}")), labels, nontrivial: inside });
    }
    if let Some(d) = multiset_diff(&expected, &serial) {
        return Ok(SqlOutcome { violation: Some(format!("single-partition scan differs from the rows the files were written from: {d}; query {sql}")), labels, nontrivial: inside });
    }
    if c.query == 0 || c.query > 3 {
        // order inside one byte range of one file
        let mut range_of: BTreeMap<(i64, i64), (i64, i64)> = BTreeMap::new();
        for g in &groups {
            for (loc, r) in g {
                if let Some(i) = c.files.iter().enumerate().position(|(i, _)| loc.ends_with(&format!("part-{i}.{ext}"))) {
                    let (bytes, starts) = &rendered[i];
                    let (s, e) = r.unwrap_or((0, bytes.len() as i64));
                    for (n, st) in starts.iter().enumerate() {
                        // the record of line n belongs to the range holding its first byte; records of the
                        // first range also include a header line, which carries no row
                        if (*st as i64) >= s && (*st as i64) < e {
                            range_of.insert((i as i64, n as i64), (s, e));
                        }
                    }
                }
            }
        }
        for (pi, rows) in per_part.iter().enumerate() {
            let mut last: BTreeMap<(i64, (i64, i64)), i64> = BTreeMap::new();
            for r in rows {
                if let (V::Int(f), V::Int(n)) = (&r[0], &r[1]) {
                    if let Some(rg) = range_of.get(&(*f, *n)) {
                        let k = (*f, *rg);
                        if let Some(prev) = last.get(&k) {
                            if *prev >= *n {
                                return Ok(SqlOutcome {
                                    violation: Some(format!("partition {pi}: rows of file {f} byte range {rg:?} out of file order (line {n} after line {prev}); {head}")),
                                    labels,
                                    nontrivial: inside,
                                });
                            }
                        }
                        last.insert(k, *n);
                    }
                }
            }
        }
        labels.push("sql:order-checked".into());
    }
    Ok(SqlOutcome { violation: None, labels, nontrivial: inside })
}

fn sql_result(c: &SqlCase) -> CaseResult {
    if c.files.is_empty() || c.files.len() > 8 || c.files.iter().any(|f| f.rows.len() > 400) {
        return CaseResult::discard("outside domain");
    }
    let tmp = match tempfile::tempdir() {
        Ok(t) => t,
        Err(e) => return CaseResult::inconclusive(format!("tempdir: {e}")),
    };
    let workers = if c.target_partitions > 2 { 2 } else { 1 };
    let out = block_on_timeout(workers, 60, run_sql_case(c, tmp.path()));
    drop(tmp);
    let o = match out {
        Err(()) => return CaseResult::inconclusive("timeout after 60 s"),
        Ok(Err(r)) => return r.label("sql"),
        Ok(Ok(o)) => o,
    };
    let mut r = match o.violation {
        Some(m) => CaseResult::violation(m),
        None => CaseResult::pass(),
    };
    r = r.nontrivial(o.nontrivial).label("sql").label(if c.json { "sql:ndjson" } else { "sql:csv" }).labels(o.labels);
    r = r.label(format!("sql:target_partitions={}", c.target_partitions));
    if c.chunks.is_some() {
        r = r.label("sql:chunk-store");
    } else {
        r = r.label("sql:local-fs");
    }
    if c.files.iter().any(|f| f.crlf) {
        r = r.label("sql:crlf");
    }
    if c.files.iter().any(|f| !f.trailing_newline && !f.rows.is_empty()) {
        r = r.label("sql:no-final-newline");
    }
    if c.files.iter().any(|f| f.rows.iter().any(|x| x.blanks > 0)) {
        r = r.label("sql:blank-lines");
    }
    if !c.work_stealing {
        r = r.label("sql:no-work-stealing");
    }
    r.label(format!("sql:query={}", c.query.min(4)))
}

fn text_strategy() -> BoxedStrategy<String> {
    let piece = prop::sample::select(vec!["a", "b", "xyz", ",", "\"", " ", "{", "}", ":", "é", "日本", "😀", "\\", "'", "0", "null", "\t", "long-ish piece of text"]).prop_map(|s| s.to_string());
    prop_oneof![
        4 => prop::collection::vec(piece, 0..5).prop_map(|v| v.concat()),
        2 => "[a-z]{1,12}",
        1 => (20usize..300).prop_map(|n| "x".repeat(n)),
    ]
    .boxed()
}

fn sql_strategy(tier: Tier) -> BoxedStrategy<SqlCase> {
    let row = (prop::option::weighted(0.7, -1000i64..1000), prop::option::weighted(0.8, text_strategy()), prop_oneof![8 => Just(0u8), 1 => 1u8..3]).prop_map(|(v, s, blanks)| RowSpec { v, s, blanks });
    let file = (prop::collection::vec(row, 0..tier.pick(14, 60)), prop::bool::weighted(0.7), prop::bool::weighted(0.2)).prop_map(|(rows, trailing_newline, crlf)| FileSpec { rows, trailing_newline, crlf });
    (
        any::<bool>(),
        prop::bool::weighted(0.7),
        prop::collection::vec(file, 1..tier.pick(4, 6)),
        1u8..9,
        prop::option::weighted(0.6, chunk_plan()),
        prop::bool::weighted(0.7),
        prop_oneof![Just(1u16), Just(2u16), Just(7u16), Just(8192u16)],
        prop_oneof![5 => Just(0u8), 1 => Just(1u8), 1 => Just(2u8), 1 => Just(3u8)],
    )
        .prop_map(|(json, header, files, target_partitions, chunks, work_stealing, batch_size, query)| SqlCase { json, header, files, target_partitions, chunks, work_stealing, batch_size, query })
        .boxed()
}


// ---------------------------------------------------------------------------------------------
// (c) direct scans: DataSourceExec over generated byte ranges

#[derive(Clone, Debug, Serialize, Deserialize)]
pub struct ScanCase {
    /// files, format, header, store and batch size are taken from here (query / target_partitions unused)
    pub base: SqlCase,
    /// cut points per file (cyclic), relative to record starts
    pub cuts: Vec<Vec<Cut>>,
    pub groups: u8,
    /// group of the k-th range (cyclic)
    pub assign: Vec<u8>,
}

async fn run_scan_case(c: &ScanCase, dir: &std::path::Path) -> Result<SqlOutcome, CaseResult> {
    use datafusion::datasource::listing::PartitionedFile;
    use datafusion::datasource::object_store::ObjectStoreUrl;
    use datafusion::datasource::physical_plan::{CsvSource, FileGroup, FileScanConfigBuilder, JsonSource};
    let b = &c.base;
    let ext = if b.json { "json" } else { "csv" };
    let rendered: Vec<(Vec<u8>, Vec<u64>)> = b.files.iter().enumerate().map(|(i, f)| b.render(i, f)).collect();
    let o = SessOpts { target_partitions: 1, batch_size: b.batch_size.max(1) as usize, sets: vec![("datafusion.execution.enable_file_stream_work_stealing".into(), b.work_stealing.to_string())], list_files_cache: None };
    let ctx = session(&o).map_err(CaseResult::inconclusive)?;
    let mem = Arc::new(InMemory::new());
    let mut paths: Vec<String> = vec![];
    let store_url = if let Some(plan) = &b.chunks {
        for (i, (bytes, _)) in rendered.iter().enumerate() {
            let p = format!("t/part-{i}.{ext}");
            mem.put(&OPath::from(p.as_str()), PutPayload::from(bytes.clone())).await.map_err(|e| CaseResult::inconclusive(format!("harness put: {e}")))?;
            paths.push(p);
        }
        ctx.register_object_store(&url::Url::parse("chunk://data").expect("url"), Arc::new(ChunkStore::new(mem.clone(), plan.clone())));
        ObjectStoreUrl::parse("chunk://data").map_err(|e| CaseResult::inconclusive(e.to_string()))?
    } else {
        std::fs::create_dir_all(dir.join("t")).map_err(|e| CaseResult::inconclusive(format!("harness mkdir: {e}")))?;
        for (i, (bytes, _)) in rendered.iter().enumerate() {
            let fp = dir.join("t").join(format!("part-{i}.{ext}"));
            std::fs::write(&fp, bytes).map_err(|e| CaseResult::inconclusive(format!("harness write: {e}")))?;
            paths.push(fp.display().to_string().trim_start_matches('/').to_string());
        }
        ObjectStoreUrl::local_filesystem()
    };
    // ranges
    let ngroups = c.groups.clamp(1, 6) as usize;
    let mut groups: Vec<Vec<PartitionedFile>> = vec![vec![]; ngroups];
    let mut planned: Vec<Vec<(usize, i64, i64)>> = vec![vec![]; ngroups];
    let mut k = 0usize;
    let mut inside = false;
    let mut nranges = 0usize;
    for (i, (bytes, starts)) in rendered.iter().enumerate() {
        let size = bytes.len() as u64;
        if size == 0 {
            continue; // listing never hands out empty files
        }
        let mut table: Vec<u64> = starts.clone();
        table.push(size);
        let cuts: &[Cut] = if c.cuts.is_empty() { &[] } else { &c.cuts[i % c.cuts.len()] };
        let mut cs: Vec<u64> = cuts.iter().take(4).map(|ct| (table[pick_index(ct.line, table.len())] as i64 + ct.delta as i64).clamp(0, size as i64) as u64).collect();
        cs.sort();
        cs.dedup();
        let mut prev = 0u64;
        let mut ranges = vec![];
        for x in cs {
            if x > prev {
                ranges.push((prev, x));
                prev = x;
            }
        }
        if prev < size {
            ranges.push((prev, size));
        }
        for (s, e) in ranges {
            if s > 0 && starts.binary_search(&s).is_err() && bytes[(s - 1) as usize] != b'\n' {
                inside = true;
            }
            let g = if c.assign.is_empty() { k % ngroups } else { c.assign[k % c.assign.len()] as usize % ngroups };
            k += 1;
            nranges += 1;
            let whole = s == 0 && e == size;
            let pf = PartitionedFile::new(paths[i].clone(), size);
            groups[g].push(if whole && k % 2 == 0 { pf } else { pf.with_range(s as i64, e as i64) });
            planned[g].push((i, s as i64, e as i64));
        }
    }
    let schema = schema_of(&[("f".to_string(), Ty::Int64), ("n".to_string(), Ty::Int64), ("v".to_string(), Ty::Int64), ("s".to_string(), Ty::Utf8)]);
    let source: Arc<dyn datafusion::datasource::physical_plan::FileSource> = if b.json {
        Arc::new(JsonSource::new(schema.clone()))
    } else {
        let opts = datafusion::common::config::CsvOptions::default().with_has_header(b.header);
        Arc::new(CsvSource::new(schema.clone()).with_csv_options(opts))
    };
    let file_groups: Vec<FileGroup> = groups.into_iter().filter(|g| !g.is_empty()).map(FileGroup::new).collect();
    let planned: Vec<Vec<(usize, i64, i64)>> = planned.into_iter().filter(|g| !g.is_empty()).collect();
    let mut labels = vec![format!("scan:groups={}", file_groups.len().min(9)), format!("scan:ranges={}", nranges.min(9))];
    if inside {
        labels.push("scan:boundary-inside-line".into());
    }
    if file_groups.is_empty() {
        return Ok(SqlOutcome { violation: None, labels, nontrivial: false });
    }
    let cfg = FileScanConfigBuilder::new(store_url, source).with_file_groups(file_groups).build();
    let plan: Arc<dyn ExecutionPlan> = DataSourceExec::from_data_source(cfg);
    let parts = match collect_partitioned(plan, ctx.task_ctx()).await {
        Ok(p) => p,
        Err(e) => {
            return Err(match classify(&e) {
                ErrClass::Rejected => CaseResult::discard(format!("scan rejected: {e}")),
                ErrClass::Resources => CaseResult::inconclusive(e.to_string()),
                ErrClass::Other => CaseResult::violation(format!("scan over byte ranges {planned:?} failed: {e}")),
            });
        }
    };
    let expected = b.expected();
    let mut all = vec![];
    let head = format!("{} file(s), groups of (file, start, end): {}", b.files.len(), truncate(&format!("{planned:?}"), 600));
    for (pi, p) in parts.iter().enumerate() {
        let rows = batches_to_rows(p).map_err(|m| CaseResult::violation(format!("result conversion: {m}")))?;
        // order inside one range
        let mut last: BTreeMap<(i64, i64), i64> = BTreeMap::new();
        for r in &rows {
            if let (V::Int(f), V::Int(n)) = (&r[0], &r[1]) {
                let st = rendered.get(*f as usize).and_then(|(_, starts)| starts.get(*n as usize)).copied().unwrap_or(0) as i64;
                // with work stealing a range may be read by another partition than the one it was planned for
                let rg = planned.iter().flatten().find(|(fi, s, e)| *fi as i64 == *f && *s <= st && st < *e).map(|(_, s, _)| *s).unwrap_or(-1);
                if let Some(prev) = last.get(&(*f, rg)) {
                    if *prev >= *n {
                        return Ok(SqlOutcome { violation: Some(format!("partition {pi}: rows of file {f} range starting at {rg} out of file order (line {n} after {prev}); {head}")), labels, nontrivial: inside });
                    }
                }
                last.insert((*f, rg), *n);
            }
        }
        all.extend(rows);
    }
    if let Some(d) = multiset_diff(&expected, &all) {
        return Ok(SqlOutcome { violation: Some(format!("scan over generated byte ranges differs from the rows the files were written from: {d}; {head}")), labels, nontrivial: inside });
    }
    Ok(SqlOutcome { violation: None, labels, nontrivial: inside })
}

fn scan_result(c: &ScanCase) -> CaseResult {
    let b = &c.base;
    if b.files.is_empty() || b.files.len() > 8 || b.files.iter().any(|f| f.rows.len() > 400) {
        return CaseResult::discard("outside domain");
    }
    let tmp = match tempfile::tempdir() {
        Ok(t) => t,
        Err(e) => return CaseResult::inconclusive(format!("tempdir: {e}")),
    };
    let out = block_on_timeout(if c.groups > 2 { 2 } else { 1 }, 60, run_scan_case(c, tmp.path()));
    drop(tmp);
    let o = match out {
        Err(()) => return CaseResult::inconclusive("timeout after 60 s"),
        Ok(Err(r)) => return r.label("scan"),
        Ok(Ok(o)) => o,
    };
    let mut r = match o.violation {
        Some(m) => CaseResult::violation(m),
        None => CaseResult::pass(),
    };
    r = r.nontrivial(o.nontrivial).label("scan").label(if b.json { "scan:ndjson" } else { "scan:csv" }).labels(o.labels);
    r = r.label(if b.chunks.is_some() { "scan:chunk-store" } else { "scan:local-fs" });
    if !b.json && b.header {
        r = r.label("scan:csv-header");
    }
    r
}

fn scan_strategy(tier: Tier) -> BoxedStrategy<ScanCase> {
    let cut = (any::<u16>(), prop_oneof![4 => -3i32..4, 3 => Just(0i32), 2 => 4i32..30]).prop_map(|(line, delta)| Cut { line, delta });
    (sql_strategy(tier), prop::collection::vec(prop::collection::vec(cut, 0..4), 1..4), 1u8..5, prop::collection::vec(any::<u8>(), 0..6))
        .prop_map(|(base, cuts, groups, assign)| ScanCase { base, cuts, groups, assign })
        .boxed()
}

// ---------------------------------------------------------------------------------------------
// exhaustive sub-run

fn compositions(total: usize, out: &mut Vec<Vec<u32>>) {
    // all sequences of line lengths whose rendered size (len + 1 terminator each) is exactly `total`
    fn rec(left: usize, cur: &mut Vec<u32>, out: &mut Vec<Vec<u32>>) {
        if left == 0 {
            out.push(cur.clone());
            return;
        }
        for l in 0..left {
            cur.push(l as u32);
            rec(left - l - 1, cur, out);
            cur.pop();
        }
    }
    rec(total, &mut vec![], out);
}

fn mk_lines(lens: &[u32], seed: u8, cr_every: usize) -> Vec<Line> {
    lens.iter().enumerate().map(|(i, l)| Line { len: *l, seed: seed.wrapping_add(i as u8), cr: cr_every > 0 && i % cr_every == 0 }).collect()
}

fn pair_case(base: &UnitCase, s: u64, e: u64, size: u64, chunks: &[u32]) -> UnitCase {
    let mut c = base.clone();
    if e > size {
        c.cuts = vec![Cut { line: 0, delta: s as i32 }];
        c.overshoot = (e - size) as u32;
    } else {
        c.cuts = vec![Cut { line: 0, delta: s as i32 }, Cut { line: 0, delta: e as i32 }];
        c.overshoot = 0;
    }
    c.chunks = chunks.to_vec();
    c
}

fn exhaustive(tier: Tier, seed: u64) -> Result<Value, (String, Case)> {
    let rt = runtime(1);
    let mut files: Vec<UnitCase> = vec![];
    let base = |lines: Vec<Line>, trailing: bool, term: u8| UnitCase { lines, trailing, term, cuts: vec![], overshoot: 0, chunks: vec![], local_file: false };
    // 1. every composition up to 7 bytes, with and without the final terminator
    for total in 0..=tier.pick(7usize, 10) {
        let mut comps = vec![];
        compositions(total, &mut comps);
        for lens in comps {
            files.push(base(mk_lines(&lens, 3, 0), true, b'\n'));
            if lens.last().map(|l| *l > 0).unwrap_or(false) {
                files.push(base(mk_lines(&lens, 5, 0), false, b'\n'));
            }
        }
    }
    let tiny = files.len();
    // 2. canned files up to 64 bytes
    let canned: Vec<(Vec<u32>, bool, usize, u8)> = vec![
        (vec![5, 5, 5], true, 0, b'\n'),
        (vec![5, 5, 5], false, 0, b'\n'),
        (vec![0, 0, 0, 0, 0, 0], true, 0, b'\n'),
        (vec![62], true, 0, b'\n'),
        (vec![63], false, 0, b'\n'),
        (vec![10, 0, 0, 20, 1, 0, 9], true, 0, b'\n'),
        (vec![4, 6, 0, 8, 3], true, 1, b'\n'),
        (vec![4, 6, 0, 8, 3], false, 2, b'\n'),
        (vec![7, 7, 7, 7, 7, 7, 7], true, 0, b'|'),
        (vec![1, 2, 3, 4, 5, 6, 7, 8], false, 0, b'\r'),
        (vec![30, 30], true, 0, b'\n'),
        (vec![0, 31, 0, 30], false, 0, b'\n'),
    ];
    for (lens, trailing, cr, term) in canned {
        files.push(base(mk_lines(&lens, 11, cr), trailing, term));
    }
    // 3. seed-derived files up to 64 bytes
    let mut x = splitmix64(seed ^ 0xC26);
    for _ in 0..tier.pick(8, 60) {
        let mut lens = vec![];
        let mut left = 64i64;
        loop {
            x = splitmix64(x);
            let l = (x % 14) as i64 * ((x >> 8) % 3 != 0) as i64;
            if left - l - 1 < 0 {
                break;
            }
            lens.push(l as u32);
            left -= l + 1;
            if (x >> 20) % 9 == 0 {
                break;
            }
        }
        x = splitmix64(x);
        let trailing = x % 3 != 0 || lens.last().map(|l| *l == 0).unwrap_or(true);
        files.push(base(mk_lines(&lens, (x >> 8) as u8, ((x >> 16) % 4) as usize), trailing, b'\n'));
    }
    let plans: Vec<Vec<u32>> = vec![vec![1], vec![2], vec![3], vec![7], vec![], vec![0, 1]];
    let mut streams = 0u64;
    let mut pairs = 0u64;
    for (fi, f) in files.iter().enumerate() {
        let (data, starts) = f.bytes();
        let size = data.len() as u64;
        let mem: Arc<dyn ObjectStore> = Arc::new(InMemory::new());
        let path = OPath::from("d/f");
        if rt.block_on(mem.put(&path, PutPayload::from(data.clone()))).is_err() {
            continue;
        }
        let use_plans: &[Vec<u32>] = if fi < tiny { &plans[..] } else { &plans[..] };
        for plan in use_plans {
            let store: Arc<dyn ObjectStore> = Arc::new(ChunkStore::new(mem.clone(), plan.clone()));
            for s in 0..=size {
                for e in s..=size + 1 {
                    pairs += 1;
                    let got = rt.block_on(read_range(store.clone(), path.clone(), s, e, size, f.term));
                    streams += 1;
                    let (a, b) = expected_range(&data, &starts, s, e);
                    let bad = match &got {
                        Ok(g) => g[..] != data[a..b],
                        Err(_) => true,
                    };
                    if bad {
                        let case = pair_case(f, s, e, size, plan);
                        return Err((
                            format!("exhaustive: range [{s},{e}) of {size}-byte file {} with chunk plan {plan:?} gave {:?}, expected {}", show(&data), got.map(|g| show(&g)), show(&data[a..b])),
                            Case::Unit(case),
                        ));
                    }
                }
            }
        }
    }
    // 4. long lines around the lookahead
    let la = LA as u32;
    let long_files: Vec<Vec<u32>> = vec![vec![3, la - 1, 2], vec![la, 4], vec![2, la + 1, 0, 5], vec![1, 2 * la + 1, 3], vec![la - 2, la - 2, 6]];
    let long_plans: Vec<Vec<u32>> = vec![vec![], vec![8192], vec![la], vec![la + 1], vec![4099]];
    let mut long_streams = 0u64;
    for (k, lens) in long_files.iter().enumerate() {
        for trailing in [true, false] {
            let f = base(mk_lines(lens, 17 + k as u8, 0), trailing, b'\n');
            let (data, starts) = f.bytes();
            let size = data.len() as u64;
            let mut pts = std::collections::BTreeSet::new();
            for st in starts.iter().chain(std::iter::once(&size)) {
                for d in [-2i64, -1, 0, 1, 2] {
                    for off in [0i64, LA as i64, -(LA as i64)] {
                        let p = *st as i64 + d + off;
                        if p >= 0 && p <= size as i64 {
                            pts.insert(p as u64);
                        }
                    }
                }
            }
            let pts: Vec<u64> = pts.into_iter().collect();
            let mem: Arc<dyn ObjectStore> = Arc::new(InMemory::new());
            let path = OPath::from("d/long");
            if rt.block_on(mem.put(&path, PutPayload::from(data.clone()))).is_err() {
                continue;
            }
            for plan in &long_plans {
                let store: Arc<dyn ObjectStore> = Arc::new(ChunkStore::new(mem.clone(), plan.clone()));
                for (i, s) in pts.iter().enumerate() {
                    for e in pts.iter().skip(i) {
                        let got = rt.block_on(read_range(store.clone(), path.clone(), *s, *e, size, b'\n'));
                        long_streams += 1;
                        let (a, b) = expected_range(&data, &starts, *s, *e);
                        let bad = match &got {
                            Ok(g) => g[..] != data[a..b],
                            Err(_) => true,
                        };
                        if bad {
                            return Err((
                                format!(
                                    "exhaustive(long lines {lens:?}, trailing={trailing}): range [{s},{e}) of {size} bytes, chunk plan {plan:?}: got {} bytes, expected bytes [{a},{b})",
                                    got.as_ref().map(|g| g.len() as i64).unwrap_or(-1)
                                ),
                                Case::Unit(pair_case(&f, *s, *e, size, plan)),
                            ));
                        }
                    }
                }
            }
        }
    }
    Ok(json!({"exhaustive_subrun": {
        "files_le_64B": files.len(),
        "tiny_files_all_compositions": tiny,
        "chunk_plans": plans.len(),
        "start_end_pairs": pairs,
        "streams_checked": streams,
        "long_line_files": long_files.len() * 2,
        "long_line_streams_checked": long_streams,
        "lookahead": LA,
    }}))
}

impl Property for C26 {
    type Case = Case;
    fn id(&self) -> &'static str {
        "C26"
    }
    fn sub(&self) -> &'static str {
        "c26"
    }
    fn strategy(&self, tier: Tier) -> BoxedStrategy<Case> {
        prop_oneof![
            24 => unit_strategy(tier).prop_map(Case::Unit),
            2 => sql_strategy(tier).prop_map(Case::Sql),
            1 => scan_strategy(tier).prop_map(Case::Scan),
        ]
        .boxed()
    }
    fn budget(&self, tier: Tier) -> Budget {
        Budget::new(tier.pick(6_750, 400_000), tier.pick(8, 16)).min_nontrivial(tier.pick(800, 40_000)).case_timeout(180)
    }
    fn rule(&self) -> String {
        "unit: file = generated lines (0..12 B, blank, CR, around 1x/2x END_SCAN_LOOKAHEAD) + optional final terminator; 0-3 cuts placed relative to line starts give 1-4 contiguous byte ranges; \
         responses re-chunked by a cyclic plan (1 B..whole, empty chunks) or served as a local file; non-trivial = one boundary strictly inside a line and another exactly at a line start. \
         sql: 1-4 CSV/NDJSON files scanned with repartition_file_scans, min size 1, target_partitions 1-8; non-trivial = a planned byte-range boundary strictly inside a line. distinct by case JSON"
            .into()
    }
    fn assumptions(&self) -> Vec<String> {
        vec![
            "the contract of a byte range is the one documented on CsvOpener::open/JsonOpener::open: a range owns the lines whose first byte lies in [start,end)".into(),
            "CSV fields never contain line breaks (range scans are documented unsupported for them); files are uncompressed".into(),
            "blank lines carry no record for both CSV (≥2 columns) and NDJSON".into(),
        ]
    }
    fn run(&self, case: &Case) -> CaseResult {
        match case {
            Case::Unit(u) => unit_result(u),
            Case::Sql(s) => sql_result(s),
            Case::Scan(s) => scan_result(s),
        }
    }
    fn extra(&self, tier: Tier, seed: u64) -> Result<Value, (String, Case)> {
        exhaustive(tier, seed)
    }
}
