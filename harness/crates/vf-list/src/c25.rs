//! C25 — written files read back to the data that was written.
//!
//! Domain: a table of 2–6 columns over {Int64, Int32, Float64 (dyadic rationals only), Boolean, Date32,
//! Timestamp(µs), Decimal128, Utf8} with 0–60 rows (quick: 0–24), NULL-heavy, strings containing
//! separators, quotes, line breaks, unicode, leading/trailing spaces and the empty string; held in a
//! `MemTable` split into generated batches / partitions. It is written through one of
//!   * `COPY src TO …`, `COPY (SELECT …) TO …` with `STORED AS`, `PARTITIONED BY`, `OPTIONS`,
//!   * `INSERT INTO` a `CREATE EXTERNAL TABLE … LOCATION 'dir/'` listing table (optionally in two halves),
//!   * `DataFrame::write_parquet / write_csv / write_json` (Arrow IPC has no DataFrame writer → COPY),
//! in format Parquet / CSV / NDJSON / Arrow IPC with every compression the format offers (Parquet:
//! uncompressed, snappy, gzip, zstd, lz4, lz4_raw, brotli; CSV / NDJSON: none, gzip, bzip2, xz, zstd),
//! as a single file or a directory (`soft_max_rows_per_output_file` 1–5 and
//! `minimum_parallel_output_files` 1–4 with small input batches force many files), with 0–2 hive
//! partition columns (Utf8 / Int64 / Int32 / Date32 / Boolean; string values from a list containing
//! `/ = % space ' " \ : ~ [ ] ? # * & +`, unicode, tab, newline, `.`/`..`, the empty string) and
//! `keep_partition_by_columns` on/off.
//! Read back with the written schema through `CREATE EXTERNAL TABLE (cols) … [PARTITIONED BY]` or
//! `SessionContext::read_{parquet,csv,json,arrow}` with explicit schema / partition columns / extension /
//! compression; with `keep_partition_by_columns` the files carry all columns and are read without
//! partition columns.
//!
//! Oracle: multiset equality of plain rows (columns selected by name in the written order); for CSV —
//! and only for CSV — NULL and `''` of string columns are identified.
//!
//! Guards (each from the statement / DESIGN): floats only from the exact (dyadic) domain; a NULL in a
//! partition column is observe-only (labels `null-partition-value:*`, never a violation — hive partition
//! values are never NULL by the listing code's own documentation); CSV files always carry ≥ 2 columns (a
//! one-column NULL row is an empty line, which CSV cannot represent) and NDJSON/Parquet/Arrow files ≥ 1;
//! `keep_partition_by_columns = true` is only combined with COPY / DataFrame sinks (for INSERT it is a
//! session option that makes the table unreadable through its own PARTITIONED BY definition for CSV).
//!
//! Non-trivial: ≥ 2 output files, or a partition value whose directory name needs escaping, or a string
//! that needs quoting/escaping in the text formats.
//!
//! Deviations from DESIGN.md: lives in vf-list; column names are plain `c0…` (quoted partition column
//! names are a known upstream gap, see copy.slt / issue 9714). The DDL used for the sink table and for
//! reading back spells the *written* Arrow types (`TIMESTAMP(6)`; `VARCHAR` = Utf8 via
//! `sql_parser.map_string_types_to_utf8view = false`, or — for every format but Arrow IPC, label
//! `ddl-varchar=utf8view` — the session default Utf8View). `format.compression` in CREATE EXTERNAL TABLE
//! means the file compression of CSV/NDJSON only; Parquet codecs are passed as a COPY option /
//! `TableParquetOptions` / `datafusion.execution.parquet.compression` (INSERT).
//!
//! Observations (not asserted, outside the statement):
//! * Arrow IPC files are only readable with exactly the written types: `CREATE EXTERNAL TABLE (c VARCHAR)
//!   STORED AS ARROW` over a file written by `COPY … STORED AS ARROW` fails with `column types must match
//!   schema types, expected Utf8View but found Utf8` under default settings (same for TIMESTAMP = ns vs µs).
//! * NULL partition values: COPY / DataFrame writers put NULL strings into `k=/` and NULL integers into
//!   `k=0/` (the value slot of a NULL), INSERT INTO a partitioned listing table fails with `Invalid batch
//!   column … has null but schema specifies non-nullable`; labels `null-partition-value:*`.
//!
//! FIXED FINDING (the repair is committed in /repo; the case is now a plain regression and no signature is
//! recognised any more). Was: genuine defect, regressions/C25/c25/insert-into-compressed-text-table-extension.json,
//! fixes/C25-insert-compressed-file-extension.diff): INSERT INTO a listing table of compressed CSV/NDJSON
//! names its files `<id>.csv` / `<id>.json` (`ListingTable::insert_into` passes `format.get_ext()`), COPY and
//! the DataFrame writers name them `.csv.gz` …; a table registered with the matching extension
//! (`ListingOptions::with_file_extension(".csv.gz")`, which is what `register_csv` with
//! `file_extension(".csv.gz")` builds) accepts the INSERT and afterwards returns none of the rows. Found by
//! the `insert_api` variant (table registered through `register_listing_table`, read back through the same
//! table). Before the repair `known_signature` excluded exactly (INSERT sink, API-registered table, CSV/NDJSON,
//! compression ≠ none, ≥ 1 row). For tables
//! made by CREATE EXTERNAL TABLE the files are readable (extension filter empty); the independent read-back
//! then uses the extension the files actually carry (label `compressed-files-without-compression-suffix`).
//!
//! Sensitivity probes (tools/mutrun, patches in crates/vf-list/probes/, quick tier):
//! A. catalog-listing/helpers.rs `parse_partitions_for_path` returns the raw (not percent-decoded) value
//!    (probes/c25c27-pA-no-percent-decoding.diff) → VIOLATION after 16 cases.
//! B. datasource/write/orchestration.rs: the CSV "first batch" flag is never cleared (header written for every
//!    batch) and C. datasource/write/demux.rs: `EPOCH_DAYS_FROM_CE` off by one (date partition directories one
//!    day early) — both env-guarded in probes/combined-datasource-env-guarded.diff, run by probes/run-all.sh
//!    (probes/log-all.txt): B → VIOLATION after 11 cases, C → VIOLATION after 77 cases.
//! Both candidate repairs (fixes/C25-…, fixes/C27-…) were verified by the same run with the exclusions off
//! (exit 0 on seeds 0 and 1 each).
use crate::util::*;
use arrow::datatypes::{DataType, Schema};
use datafusion::common::config::{CsvOptions, JsonOptions, TableParquetOptions};
use datafusion::common::parsers::CompressionTypeVariant;
use datafusion::dataframe::DataFrameWriteOptions;
use datafusion::datasource::MemTable;
use datafusion::datasource::file_format::file_compression_type::FileCompressionType;
use datafusion::datasource::file_format::options::ArrowReadOptions;
use datafusion::prelude::{CsvReadOptions, JsonReadOptions, ParquetReadOptions};
use proptest::prelude::*;
use serde::{Deserialize, Serialize};
use std::collections::BTreeSet;
use std::sync::Arc;
use vf_kit::engine::Outcome as Outcome_;
use vf_kit::engine::*;

pub struct C25;

#[derive(Clone, Copy, Debug, Serialize, Deserialize, PartialEq, Eq)]
pub enum Fmt {
    Parquet,
    Csv,
    Json,
    Arrow,
}

#[derive(Clone, Copy, Debug, Serialize, Deserialize, PartialEq, Eq)]
pub enum Sink {
    CopyTable,
    CopyQuery,
    Insert,
    DataFrame,
}

#[derive(Clone, Debug, Serialize, Deserialize)]
pub struct Case {
    pub cols: Vec<Ty>,
    pub rows: Vec<Row>,
    /// indexes of partition columns (normalised in `plan`)
    pub part: Vec<u8>,
    pub format: Fmt,
    pub compression: u8,
    pub sink: Sink,
    pub single_file: bool,
    pub soft_max_rows: u16,
    pub min_parallel_files: u8,
    pub keep_partition_cols: bool,
    pub batch_cuts: Vec<u16>,
    pub src_partitions: u8,
    pub target_partitions: u8,
    /// read back through the read_* API instead of CREATE EXTERNAL TABLE
    pub read_api: bool,
    /// INSERT in two statements (append)
    pub two_inserts: bool,
    /// SQL `VARCHAR` means Utf8View (the session default) instead of the written type Utf8 in the DDL used
    /// for the sink table and for reading back (never for Arrow IPC, whose reader does not adapt types)
    #[serde(default)]
    pub varchar_is_view: bool,
    /// INSERT sink only: the listing table is registered through `register_listing_table` with the
    /// extension COPY would use (`.csv.gz` …) instead of CREATE EXTERNAL TABLE (whose extension filter is
    /// empty), and the rows are additionally read back through that same table
    #[serde(default)]
    pub insert_api: bool,
}

const PARQUET_COMP: &[&str] = &["uncompressed", "snappy", "gzip(4)", "zstd(3)", "lz4", "lz4_raw", "brotli(3)"];
const TEXT_COMP: &[(&str, &str)] = &[("uncompressed", ""), ("gzip", ".gz"), ("bzip2", ".bz2"), ("xz", ".xz"), ("zstd", ".zst")];

const PART_STRS: &[&str] = &[
    "a", "b", "a b", "a/b", "x=y", "50%", "%41", "é", "日本", "a'b", "a\"b", "a\\b", "a:b", "a~b", "[1]", "", " lead ", "q?#", "a*b", "a&b+c", ".", "..", "a\tb", "a\nb", "A", "ß", "{x}|<y>", "`^",
];
const DATA_STRS: &[&str] = &[
    "", " ", "a", "plain text", "comma,inside", "semi;colon", "quote\"inside", "\"quoted\"", "'single'", "line\nbreak", "cr\rhere", "crlf\r\nx", "tab\there", " leading", "trailing ", "back\\slash", "null", "NULL", "é", "日本語", "😀", "a|b", "{\"k\": 1}", "[1,2]", "1", "1.5", "true", "2020-01-01", "#hash", "\\N",
];

fn needs_text_quoting(s: &str) -> bool {
    s.is_empty() || s.chars().any(|c| matches!(c, ',' | '"' | '\n' | '\r' | '\\' | '\t')) || s.starts_with(' ') || s.ends_with(' ') || !s.is_ascii()
}

fn part_needs_escape(s: &str) -> bool {
    s.is_empty() || s == "." || s == ".." || !s.chars().all(|c| c.is_ascii_alphanumeric() || c == '-' || c == '_')
}

fn part_ok(t: &Ty) -> bool {
    matches!(t, Ty::Utf8 | Ty::Int64 | Ty::Int32 | Ty::Date32 | Ty::Bool)
}

struct Plan {
    names: Vec<String>,
    /// partition column indexes, in partitioning order
    part: Vec<usize>,
    single_file: bool,
    keep: bool,
    comp_name: String,
    comp_ext: String,
    ext: String,
}

impl Case {
    fn plan(&self) -> Plan {
        let n = self.cols.len();
        let names: Vec<String> = (0..n).map(|i| format!("c{i}")).collect();
        let mut part: Vec<usize> = vec![];
        for p in &self.part {
            let i = (*p as usize) % n.max(1);
            if part_ok(&self.cols[i]) && !part.contains(&i) && part.len() < 2 {
                part.push(i);
            }
        }
        let mut keep = self.keep_partition_cols && self.sink != Sink::Insert;
        // files must keep ≥ 2 columns for CSV, ≥ 1 otherwise
        let min_cols = if self.format == Fmt::Csv { 2 } else { 1 };
        while !part.is_empty() && !keep && n - part.len() < min_cols {
            part.pop();
        }
        if part.is_empty() {
            keep = false;
        }
        let single_file = self.single_file && part.is_empty() && self.sink != Sink::Insert;
        let (comp_name, comp_ext) = match self.format {
            Fmt::Parquet => (PARQUET_COMP[self.compression as usize % PARQUET_COMP.len()].to_string(), String::new()),
            Fmt::Csv | Fmt::Json => {
                let (a, b) = TEXT_COMP[self.compression as usize % TEXT_COMP.len()];
                (a.to_string(), b.to_string())
            }
            Fmt::Arrow => ("uncompressed".to_string(), String::new()),
        };
        let base = match self.format {
            Fmt::Parquet => ".parquet",
            Fmt::Csv => ".csv",
            Fmt::Json => ".json",
            Fmt::Arrow => ".arrow",
        };
        Plan { names, part, single_file, keep, ext: format!("{base}{comp_ext}"), comp_name, comp_ext }
    }
    fn stored_as(&self) -> &'static str {
        match self.format {
            Fmt::Parquet => "PARQUET",
            Fmt::Csv => "CSV",
            Fmt::Json => "JSON",
            Fmt::Arrow => "ARROW",
        }
    }
}

fn count_files(dir: &std::path::Path, out: &mut Vec<String>) {
    if let Ok(rd) = std::fs::read_dir(dir) {
        let mut es: Vec<_> = rd.filter_map(|e| e.ok()).collect();
        es.sort_by_key(|e| e.file_name());
        for e in es {
            let p = e.path();
            if p.is_dir() {
                count_files(&p, out);
            } else {
                out.push(p.display().to_string());
            }
        }
    }
}

fn fail(what: &str, e: &datafusion::error::DataFusionError) -> CaseResult {
    if std::env::var("VERIF_DEBUG").is_ok() {
        eprintln!("[c25] {what}: {e}");
    }
    match classify(e) {
        ErrClass::Rejected => CaseResult::discard(format!("{what} rejected: {}", first_line(&e.to_string()))),
        ErrClass::Resources => CaseResult::inconclusive(format!("{what}: {e}")),
        ErrClass::Other => CaseResult::violation(format!("{what} failed: {e}")),
    }
}

fn first_line(s: &str) -> String {
    truncate(s.lines().next().unwrap_or(""), 200)
}

struct Outcome {
    violation: Option<String>,
    labels: Vec<String>,
    nontrivial: bool,
}

async fn run_case_inner(c: &Case, root: &std::path::Path) -> Result<Outcome, CaseResult> {
    let p = c.plan();
    let n = c.cols.len();
    let cols: Vec<(String, Ty)> = p.names.iter().cloned().zip(c.cols.iter().cloned()).collect();
    let mut labels: Vec<String> = vec![];
    let t0 = std::time::Instant::now();
    let dbg = std::env::var("VERIF_DEBUG").is_ok();
    // ---- source table
    let cuts: Vec<usize> = c.batch_cuts.iter().map(|x| pick_index(*x, c.rows.len() + 1)).collect();
    let batches = rows_to_batches(&cols, &c.rows, &cuts).map_err(|m| CaseResult::discard(format!("outside domain: {m}")))?;
    let schema = schema_of(&cols);
    let k = (c.src_partitions.clamp(1, 4) as usize).min(batches.len().max(1));
    let mut parts: Vec<Vec<arrow::record_batch::RecordBatch>> = vec![vec![]; k];
    for (i, b) in batches.into_iter().enumerate() {
        parts[i % k].push(b);
    }
    let mut sets = vec![
        ("datafusion.execution.soft_max_rows_per_output_file".to_string(), c.soft_max_rows.max(1).to_string()),
        ("datafusion.execution.minimum_parallel_output_files".to_string(), c.min_parallel_files.clamp(1, 8).to_string()),
    ];
    if c.sink == Sink::DataFrame && p.keep {
        sets.push(("datafusion.execution.keep_partition_by_columns".into(), "true".into()));
    }
    if c.format == Fmt::Parquet && c.sink == Sink::Insert {
        sets.push(("datafusion.execution.parquet.compression".into(), p.comp_name.clone()));
    }
    let view = c.varchar_is_view && c.format != Fmt::Arrow;
    let view_set = ("datafusion.sql_parser.map_string_types_to_utf8view".to_string(), view.to_string());
    sets.push(view_set.clone());
    if view {
        labels.push("ddl-varchar=utf8view".into());
    }
    let o = SessOpts { target_partitions: c.target_partitions.clamp(1, 8) as usize, batch_size: 0, sets, list_files_cache: None };
    let ctx = session(&o).map_err(CaseResult::inconclusive)?;
    let mt = MemTable::try_new(schema.clone(), parts).map_err(|e| CaseResult::inconclusive(format!("memtable: {e}")))?;
    ctx.register_table("src", Arc::new(mt)).map_err(|e| CaseResult::inconclusive(format!("register: {e}")))?;

    if dbg {
        eprintln!("[timing] session+src {:?}", t0.elapsed());
    }
    // ---- write
    let out_dir = root.join("out");
    std::fs::create_dir_all(&out_dir).map_err(|e| CaseResult::inconclusive(format!("mkdir: {e}")))?;
    let target = if p.single_file { format!("{}/data{}", out_dir.display(), p.ext) } else { format!("{}/", out_dir.display()) };
    let part_names: Vec<String> = p.part.iter().map(|i| p.names[*i].clone()).collect();
    let mut same_table: Option<Vec<Row>> = None;
    let all_cols = p.names.join(", ");
    let col_defs = |idx: &[usize]| idx.iter().map(|i| format!("{} {}", p.names[*i], c.cols[*i].sql())).collect::<Vec<_>>().join(", ");
    let all_idx: Vec<usize> = (0..n).collect();
    // `format.compression` of CREATE EXTERNAL TABLE means the *file* compression of CSV/NDJSON; the Parquet
    // codec is a writer option: COPY takes it as an option, INSERT takes it from the session
    let comp_opt = match c.format {
        Fmt::Arrow | Fmt::Parquet => None,
        _ if p.comp_name == "uncompressed" => None,
        _ => Some(format!("'format.compression' '{}'", p.comp_name)),
    };
    let copy_comp_opt = if c.format == Fmt::Parquet { Some(format!("'format.compression' '{}'", p.comp_name)) } else { None };
    let header_opt = if c.format == Fmt::Csv { Some("'format.has_header' 'true'".to_string()) } else { None };
    let table_opts: Vec<String> = comp_opt.iter().cloned().chain(header_opt.iter().cloned()).collect();
    let opts_clause = |extra: &[String]| {
        let all: Vec<String> = table_opts.iter().cloned().chain(extra.iter().cloned()).collect();
        if all.is_empty() { String::new() } else { format!(" OPTIONS ({})", all.join(", ")) }
    };
    let partitioned_by = if part_names.is_empty() { String::new() } else { format!(" PARTITIONED BY ({})", part_names.join(", ")) };
    match c.sink {
        Sink::CopyTable | Sink::CopyQuery => {
            let src = if c.sink == Sink::CopyTable { "src".to_string() } else { format!("(SELECT {all_cols} FROM src)") };
            let mut extra: Vec<String> = copy_comp_opt.iter().cloned().collect();
            if p.keep {
                extra.push("'execution.keep_partition_by_columns' 'true'".to_string());
            }
            let sql = format!("COPY {src} TO {} STORED AS {}{partitioned_by}{}", sql_str(&target), c.stored_as(), opts_clause(&extra));
            run_sql(&ctx, &sql).await.map_err(|e| fail(&format!("COPY ({sql})"), &e))?;
        }
        Sink::Insert => {
            if c.insert_api {
                use datafusion::datasource::file_format::FileFormat;
                use datafusion::datasource::file_format::{arrow::ArrowFormat, csv::CsvFormat, json::JsonFormat, parquet::ParquetFormat};
                let fct = match p.comp_name.as_str() {
                    "gzip" => FileCompressionType::GZIP,
                    "bzip2" => FileCompressionType::BZIP2,
                    "xz" => FileCompressionType::XZ,
                    "zstd" => FileCompressionType::ZSTD,
                    _ => FileCompressionType::UNCOMPRESSED,
                };
                let format: Arc<dyn FileFormat> = match c.format {
                    Fmt::Parquet => Arc::new(ParquetFormat::default()),
                    Fmt::Csv => Arc::new(CsvFormat::default().with_has_header(true).with_file_compression_type(fct)),
                    Fmt::Json => Arc::new(JsonFormat::default().with_file_compression_type(fct)),
                    Fmt::Arrow => Arc::new(ArrowFormat),
                };
                let pcols: Vec<(String, DataType)> = p.part.iter().map(|i| (p.names[*i].clone(), c.cols[*i].arrow())).collect();
                let fidx: Vec<usize> = (0..n).filter(|i| !p.part.contains(i)).collect();
                let fschema = Arc::new(Schema::new(fidx.iter().map(|i| arrow::datatypes::Field::new(&p.names[*i], c.cols[*i].arrow(), true)).collect::<Vec<_>>()));
                let lo = datafusion::datasource::listing::ListingOptions::new(format).with_file_extension(p.ext.clone()).with_table_partition_cols(pcols);
                ctx.register_listing_table("sink", &target, lo, Some(fschema), None).await.map_err(|e| fail("register_listing_table(sink)", &e))?;
                labels.push("insert:api-table".into());
            } else {
                let ddl = format!("CREATE EXTERNAL TABLE sink ({}) STORED AS {} LOCATION {}{partitioned_by}{}", col_defs(&all_idx), c.stored_as(), sql_str(&target), opts_clause(&[]));
                run_sql(&ctx, &ddl).await.map_err(|e| fail(&format!("CREATE EXTERNAL TABLE ({ddl})"), &e))?;
            }
            if c.two_inserts && c.rows.len() >= 2 {
                // the two halves are told apart by a row number computed over the source
                let half = c.rows.len() / 2;
                let mt1 = MemTable::try_new(schema.clone(), vec![rows_to_batches(&cols, &c.rows[..half], &[]).map_err(CaseResult::inconclusive)?]).map_err(|e| CaseResult::inconclusive(e.to_string()))?;
                let mt2 = MemTable::try_new(schema.clone(), vec![rows_to_batches(&cols, &c.rows[half..], &[]).map_err(CaseResult::inconclusive)?]).map_err(|e| CaseResult::inconclusive(e.to_string()))?;
                ctx.register_table("src1", Arc::new(mt1)).map_err(|e| CaseResult::inconclusive(e.to_string()))?;
                ctx.register_table("src2", Arc::new(mt2)).map_err(|e| CaseResult::inconclusive(e.to_string()))?;
                for s in ["src1", "src2"] {
                    let sql = format!("INSERT INTO sink ({all_cols}) SELECT {all_cols} FROM {s}");
                    run_sql(&ctx, &sql).await.map_err(|e| fail(&format!("INSERT ({sql})"), &e))?;
                }
                labels.push("two-inserts".into());
            } else {
                let sql = format!("INSERT INTO sink ({all_cols}) SELECT {all_cols} FROM src");
                run_sql(&ctx, &sql).await.map_err(|e| fail(&format!("INSERT ({sql})"), &e))?;
            }
            if c.insert_api {
                let b = run_sql(&ctx, &format!("SELECT {all_cols} FROM sink")).await.map_err(|e| fail("reading the sink table after INSERT", &e))?;
                same_table = Some(batches_to_rows(&b).map_err(|m| CaseResult::violation(format!("result conversion: {m}")))?);
            }
        }
        Sink::DataFrame => {
            let df = ctx.table("src").await.map_err(|e| CaseResult::inconclusive(format!("table src: {e}")))?;
            let mut w = DataFrameWriteOptions::new().with_partition_by(part_names.clone());
            if part_names.is_empty() {
                w = w.with_single_file_output(p.single_file);
            }
            let variant = match p.comp_name.as_str() {
                "gzip" => CompressionTypeVariant::GZIP,
                "bzip2" => CompressionTypeVariant::BZIP2,
                "xz" => CompressionTypeVariant::XZ,
                "zstd" => CompressionTypeVariant::ZSTD,
                _ => CompressionTypeVariant::UNCOMPRESSED,
            };
            let r = match c.format {
                Fmt::Parquet => {
                    let mut po = TableParquetOptions::default();
                    po.global.compression = Some(p.comp_name.clone());
                    df.write_parquet(&target, w, Some(po)).await
                }
                Fmt::Csv => {
                    let co = CsvOptions::default().with_compression(variant).with_has_header(true);
                    df.write_csv(&target, w, Some(co)).await
                }
                Fmt::Json => {
                    let mut jo = JsonOptions::default();
                    jo.compression = variant;
                    df.write_json(&target, w, Some(jo)).await
                }
                Fmt::Arrow => {
                    // no DataFrame writer for Arrow IPC: COPY
                    let sql = format!("COPY src TO {} STORED AS ARROW{partitioned_by}", sql_str(&target));
                    run_sql(&ctx, &sql).await
                }
            };
            r.map_err(|e| fail("DataFrame write", &e))?;
        }
    }
    if dbg {
        eprintln!("[timing] written {:?}", t0.elapsed());
    }
    let mut files = vec![];
    count_files(&out_dir, &mut files);
    labels.push(format!("files={}", files.len().min(9)));

    // ---- read back (fresh session: nothing cached from the write)
    let rctx = session(&SessOpts { target_partitions: c.target_partitions.clamp(1, 8) as usize, batch_size: 0, sets: vec![view_set], list_files_cache: None }).map_err(CaseResult::inconclusive)?;
    // INSERT INTO names the files of a compressed CSV/NDJSON table `<id>.csv` / `<id>.json` (COPY and the
    // DataFrame writers append `.gz` …): the reader is told the extension the files actually carry
    let read_ext = if files.iter().all(|f| f.ends_with(&p.ext)) { p.ext.clone() } else { p.ext.strip_suffix(&p.comp_ext).unwrap_or(&p.ext).to_string() };
    if read_ext != p.ext {
        labels.push("compressed-files-without-compression-suffix".into());
    }
    let read_part: Vec<usize> = if p.keep { vec![] } else { p.part.clone() };
    let file_idx: Vec<usize> = (0..n).filter(|i| !read_part.contains(i)).collect();
    let select = format!("SELECT {all_cols} FROM back");
    let got: Vec<Row> = if c.read_api {
        labels.push("read:api".into());
        let file_schema = Schema::new(file_idx.iter().map(|i| arrow::datatypes::Field::new(&p.names[*i], c.cols[*i].arrow(), true)).collect::<Vec<_>>());
        let pcols: Vec<(String, DataType)> = read_part.iter().map(|i| (p.names[*i].clone(), c.cols[*i].arrow())).collect();
        let fct = match p.comp_name.as_str() {
            "gzip" => FileCompressionType::GZIP,
            "bzip2" => FileCompressionType::BZIP2,
            "xz" => FileCompressionType::XZ,
            "zstd" => FileCompressionType::ZSTD,
            _ => FileCompressionType::UNCOMPRESSED,
        };
        let df = match c.format {
            Fmt::Parquet => rctx.read_parquet(target.clone(), ParquetReadOptions::new().schema(&file_schema).table_partition_cols(pcols)).await,
            Fmt::Csv => {
                rctx.read_csv(target.clone(), CsvReadOptions::new().schema(&file_schema).has_header(true).file_extension(&read_ext).file_compression_type(fct).table_partition_cols(pcols)).await
            }
            Fmt::Json => rctx.read_json(target.clone(), JsonReadOptions::default().schema(&file_schema).file_extension(&read_ext).file_compression_type(fct).table_partition_cols(pcols)).await,
            Fmt::Arrow => rctx.read_arrow(target.clone(), ArrowReadOptions::default().schema(&file_schema).table_partition_cols(pcols)).await,
        };
        let df = df.map_err(|e| fail("read_* of the written files", &e))?;
        let exprs: Vec<datafusion::logical_expr::Expr> = p.names.iter().map(|nm| datafusion::prelude::col(nm.as_str())).collect();
        let df = df.select(exprs).map_err(|e| fail("select on read-back", &e))?;
        let b = df.collect().await.map_err(|e| fail("reading the written files back", &e))?;
        batches_to_rows(&b).map_err(|m| CaseResult::violation(format!("read-back result conversion: {m}")))?
    } else {
        labels.push("read:ddl".into());
        let rpart = if read_part.is_empty() { String::new() } else { format!(" PARTITIONED BY ({})", read_part.iter().map(|i| p.names[*i].clone()).collect::<Vec<_>>().join(", ")) };
        let ddl = format!("CREATE EXTERNAL TABLE back ({}) STORED AS {} LOCATION {}{rpart}{}", col_defs(&all_idx), c.stored_as(), sql_str(&target), opts_clause(&[]));
        run_sql(&rctx, &ddl).await.map_err(|e| fail(&format!("CREATE EXTERNAL TABLE for read-back ({ddl})"), &e))?;
        let b = run_sql(&rctx, &select).await.map_err(|e| fail("reading the written files back", &e))?;
        batches_to_rows(&b).map_err(|m| CaseResult::violation(format!("read-back result conversion: {m}")))?
    };

    if dbg {
        eprintln!("[timing] read back {:?}", t0.elapsed());
    }
    // ---- compare
    let csv = c.format == Fmt::Csv;
    let norm = |rows: &[Row]| -> Vec<Row> {
        rows.iter()
            .map(|r| {
                r.iter()
                    .enumerate()
                    .map(|(i, v)| match v {
                        V::Str(s) if csv && s.is_empty() && matches!(c.cols.get(i), Some(Ty::Utf8)) => V::Null,
                        other => other.clone(),
                    })
                    .collect()
            })
            .collect()
    };
    let expected = norm(&c.rows);
    let got = norm(&got);
    let null_part = !p.keep && c.rows.iter().any(|r| p.part.iter().any(|i| r.get(*i).map(|v| v.is_null()).unwrap_or(true)));
    if let (Some(st), false) = (&same_table, null_part) {
        if let Some(d) = multiset_diff(&expected, &norm(st)) {
            let names: Vec<String> = files.iter().map(|f| f.rsplit('/').next().unwrap_or(f).to_string()).take(6).collect();
            return Ok(Outcome {
                violation: Some(format!(
                    "the listing table (extension {:?}, format {:?}, compression {}) does not return the rows INSERTed into it: {d}; files written: {names:?}",
                    p.ext, c.format, p.comp_name
                )),
                labels,
                nontrivial: true,
            });
        }
    }
    let diff = multiset_diff(&expected, &got);
    // labels
    let escaped_part = c.rows.iter().any(|r| p.part.iter().any(|i| matches!(r.get(*i), Some(V::Str(s)) if part_needs_escape(s))));
    let quoted = c.rows.iter().any(|r| r.iter().any(|v| matches!(v, V::Str(s) if needs_text_quoting(s))));
    if escaped_part {
        labels.push("partition-value-needs-escaping".into());
    }
    if quoted {
        labels.push("string-needs-quoting".into());
    }
    if files.len() >= 2 {
        labels.push("files>=2".into());
    }
    let nontrivial = files.len() >= 2 || escaped_part || quoted;
    if null_part {
        labels.push(if diff.is_none() { "null-partition-value:round-trips".to_string() } else { "null-partition-value:differs(observe-only)".to_string() });
        return Ok(Outcome { violation: None, labels, nontrivial: false });
    }
    let violation = diff.map(|d| {
        format!(
            "read-back differs from the written rows: {d}; format {:?} compression {} sink {:?} partition columns {:?} keep={} single_file={} files written: {:?}",
            c.format,
            p.comp_name,
            c.sink,
            part_names,
            p.keep,
            p.single_file,
            files.iter().map(|f| f.strip_prefix(&format!("{}/", out_dir.display())).unwrap_or(f).to_string()).take(12).collect::<Vec<_>>()
        )
    });
    Ok(Outcome { violation, labels, nontrivial })
}

async fn run_case(c: &Case, root: &std::path::Path) -> Result<Outcome, CaseResult> {
    let p = c.plan();
    let null_part = c.rows.iter().any(|r| p.part.iter().any(|i| r.get(*i).map(|v| v.is_null()).unwrap_or(true)));
    match run_case_inner(c, root).await {
        // a NULL partition value is outside the asserted domain: whatever happens is only recorded
        Err(r) if null_part => {
            let what = match &r.outcome {
                Outcome_::Violation(_) => "null-partition-value:error(observe-only)",
                Outcome_::Discard(_) => "null-partition-value:rejected(observe-only)",
                _ => "null-partition-value:inconclusive(observe-only)",
            };
            Ok(Outcome { violation: None, labels: vec![what.to_string()], nontrivial: false })
        }
        other => other,
    }
}

// ---------------------------------------------------------------------------------------------
// generators

fn ty_strategy() -> BoxedStrategy<Ty> {
    prop_oneof![
        3 => Just(Ty::Int64),
        2 => Just(Ty::Int32),
        2 => Just(Ty::Float64),
        2 => Just(Ty::Bool),
        2 => Just(Ty::Date32),
        2 => Just(Ty::TsMicros),
        1 => Just(Ty::Dec(10, 2)),
        1 => Just(Ty::Dec(38, 10)),
        1 => Just(Ty::Dec(18, 0)),
        6 => Just(Ty::Utf8),
    ]
    .boxed()
}

/// raw material for one cell; turned into a value of the column's type by `cell`
#[derive(Clone, Debug)]
struct Raw {
    null: bool,
    a: i64,
    b: u16,
    e: i8,
}

fn raw() -> BoxedStrategy<Raw> {
    (prop::bool::weighted(0.15), prop_oneof![4 => -20i64..20, 1 => any::<i64>(), 1 => Just(i64::MAX), 1 => Just(i64::MIN)], any::<u16>(), -10i8..41)
        .prop_map(|(null, a, b, e)| Raw { null, a, b, e })
        .boxed()
}

fn cell(ty: &Ty, r: &Raw, as_partition: bool) -> V {
    if r.null && !(as_partition && r.b % 8 != 0) {
        // partition columns: NULL only rarely (observe-only class)
        return V::Null;
    }
    match ty {
        Ty::Int64 => V::Int(r.a),
        Ty::Int32 => V::Int(r.a.clamp(i32::MIN as i64, i32::MAX as i64)),
        Ty::Float64 => {
            let k = (r.a % (1 << 20)) as f64;
            let f = k * 2f64.powi(r.e as i32);
            V::F(if f == 0.0 { 0.0 } else { f })
        }
        Ty::Bool => V::Bool(r.b % 2 == 0),
        Ty::Date32 => V::Date(((r.a % 36_500) as i32) + if r.b % 3 == 0 { 18_000 } else { 0 }),
        Ty::TsMicros => V::Ts((r.a % 4_000_000_000_000_000) + if r.b % 3 == 0 { 1_600_000_000_000_000 } else { 0 }),
        Ty::Dec(p, s) => {
            let m = 10i128.pow((*p as u32).min(30));
            V::Dec((r.a as i128 * if *p > 18 { 1_000_000_007 } else { 1 }) % m, *s)
        }
        Ty::Utf8 => {
            if as_partition {
                V::Str(PART_STRS[pick_index(r.b, PART_STRS.len())].to_string())
            } else if r.b % 5 == 0 {
                V::Str(format!("v{}", r.a % 50))
            } else {
                V::Str(DATA_STRS[pick_index(r.b, DATA_STRS.len())].to_string())
            }
        }
    }
}

impl Property for C25 {
    type Case = Case;
    fn id(&self) -> &'static str {
        "C25"
    }
    fn sub(&self) -> &'static str {
        "c25"
    }
    fn strategy(&self, tier: Tier) -> BoxedStrategy<Case> {
        let max_rows = tier.pick(24usize, 60);
        (
            (
                prop::collection::vec(ty_strategy(), 2..7),
                prop::collection::vec(prop::collection::vec(raw(), 6), 0..max_rows),
                prop_oneof![3 => Just(vec![]), 4 => prop::collection::vec(0u8..6, 1..2), 3 => prop::collection::vec(0u8..6, 2..3)],
            ),
            (
                prop_oneof![3 => Just(Fmt::Parquet), 3 => Just(Fmt::Csv), 2 => Just(Fmt::Json), 1 => Just(Fmt::Arrow)],
                0u8..8,
                prop_oneof![2 => Just(Sink::CopyTable), 2 => Just(Sink::CopyQuery), 2 => Just(Sink::Insert), 2 => Just(Sink::DataFrame)],
                prop::bool::weighted(0.3),
                prop_oneof![3 => 1u16..6, 1 => Just(10_000u16)],
                1u8..5,
                prop::bool::weighted(0.25),
            ),
            (prop::collection::vec(any::<u16>(), 0..6), 1u8..4, 1u8..5, any::<bool>(), any::<bool>(), prop::bool::weighted(0.3), prop::bool::weighted(0.4)),
        )
            .prop_map(|((cols, raws, part), (format, compression, sink, single_file, soft_max_rows, min_parallel_files, keep_partition_cols), (batch_cuts, src_partitions, target_partitions, read_api, two_inserts, varchar_is_view, insert_api))| {
                let n = cols.len();
                let pidx: BTreeSet<usize> = part.iter().map(|p| (*p as usize) % n).collect();
                let rows: Vec<Row> = raws.iter().map(|rr| (0..n).map(|i| cell(&cols[i], &rr[i % rr.len()], pidx.contains(&i))).collect()).collect();
                Case { cols, rows, part, format, compression, sink, single_file, soft_max_rows, min_parallel_files, keep_partition_cols, batch_cuts, src_partitions, target_partitions, read_api, two_inserts, varchar_is_view, insert_api }
            })
            .boxed()
    }
    fn budget(&self, tier: Tier) -> Budget {
        Budget::new(tier.pick(280, 20_000), tier.pick(8, 16)).min_nontrivial(tier.pick(100, 6_000)).case_timeout(180)
    }
    fn rule(&self) -> String {
        "2-6 typed columns x 0-60 rows (NULLs, awkward strings), written by COPY table/query, INSERT INTO a listing table or DataFrame::write_* as Parquet/CSV/NDJSON/Arrow with every compression, \
         single file or directory (tiny soft_max_rows_per_output_file / minimum_parallel_output_files), 0-2 hive partition columns with values needing escaping, keep_partition_by_columns; \
         read back through CREATE EXTERNAL TABLE or read_* with the written schema; non-trivial = >=2 output files or a partition value needing escaping or a string needing quoting; distinct by case JSON"
            .into()
    }
    fn assumptions(&self) -> Vec<String> {
        vec![
            "floats are dyadic rationals (exact text round trip is only asserted there)".into(),
            "NULL partition values are outside the asserted domain (observe-only labels)".into(),
            "for CSV, NULL and '' of string columns are identified; CSV files carry at least two columns".into(),
        ]
    }
    fn run(&self, c: &Case) -> CaseResult {
        let n = c.cols.len();
        if !(2..=8).contains(&n) || c.rows.len() > 200 || c.rows.iter().any(|r| r.len() != n || r.iter().zip(c.cols.iter()).any(|(v, t)| !t.admits(v))) {
            return CaseResult::discard("outside domain: rows do not fit the column types");
        }
        if c.rows.iter().any(|r| r.iter().any(|v| matches!(v, V::Str(s) if s.len() > 64))) {
            return CaseResult::discard("outside domain: long string");
        }
        let tmp = match tempfile::tempdir() {
            Ok(t) => t,
            Err(e) => return CaseResult::inconclusive(format!("tempdir: {e}")),
        };
        let out = block_on_timeout(if c.target_partitions > 2 { 2 } else { 1 }, 90, run_case(c, tmp.path()));
        drop(tmp);
        let p = c.plan();
        let base_labels = |mut r: CaseResult| {
            r = r.label(format!("format:{:?}", c.format)).label(format!("sink:{:?}", c.sink)).label(format!("compression:{:?}:{}", c.format, p.comp_name));
            r = r.label(format!("partition-cols={}", p.part.len()));
            for i in &p.part {
                r = r.label(format!("partition-type:{}", c.cols[*i].kind()));
            }
            if p.single_file {
                r = r.label("single-file");
            } else {
                r = r.label("directory");
            }
            if p.keep {
                r = r.label("keep_partition_by_columns");
            }
            if c.rows.is_empty() {
                r = r.label("zero-rows");
            }
            let kinds: BTreeSet<&'static str> = c.cols.iter().map(|t| t.kind()).collect();
            for k in kinds {
                r = r.label(format!("type:{k}"));
            }
            r
        };
        match out {
            Err(()) => base_labels(CaseResult::inconclusive("timeout after 90 s")),
            Ok(Err(r)) => base_labels(r),
            Ok(Ok(o)) => {
                let r = match o.violation {
                    Some(m) => CaseResult::violation(m),
                    None => CaseResult::pass(),
                };
                base_labels(r.nontrivial(o.nontrivial).labels(o.labels))
            }
        }
    }
}
