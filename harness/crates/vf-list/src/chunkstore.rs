//! An `ObjectStore` wrapper (DESIGN §3.8e) that serves every GET response re-chunked to generated
//! chunk sizes (1 B … whole, occasionally an empty chunk), counts GET requests and records the
//! requested ranges. Everything else is forwarded to the wrapped store.
use async_trait::async_trait;
use bytes::Bytes;
use futures::StreamExt;
use futures::stream::BoxStream;
use object_store::path::Path;
use object_store::{
    CopyOptions, GetOptions, GetRange, GetResult, GetResultPayload, ListResult, MultipartUpload, ObjectMeta, ObjectStore, PutMultipartOptions, PutOptions, PutPayload, PutResult, Result,
};
use parking_lot::Mutex;
use std::fmt::{Debug, Display, Formatter};
use std::sync::Arc;
use std::sync::atomic::{AtomicU64, Ordering};

#[derive(Debug)]
pub struct ChunkStore {
    inner: Arc<dyn ObjectStore>,
    /// cyclic chunk-size plan; an entry 0 emits one empty chunk; entries larger than what is left
    /// serve the rest. An empty plan serves each response as a single chunk.
    plan: Vec<u32>,
    pub gets: AtomicU64,
    pub ranges: Mutex<Vec<(String, Option<(u64, u64)>)>>,
}

impl ChunkStore {
    pub fn new(inner: Arc<dyn ObjectStore>, plan: Vec<u32>) -> Self {
        ChunkStore { inner, plan, gets: AtomicU64::new(0), ranges: Mutex::new(vec![]) }
    }
    pub fn get_count(&self) -> u64 {
        self.gets.load(Ordering::SeqCst)
    }
}

impl Display for ChunkStore {
    fn fmt(&self, f: &mut Formatter<'_>) -> std::fmt::Result {
        write!(f, "ChunkStore({})", self.inner)
    }
}

/// Cut `data` into chunks following `plan`, starting at plan position `at`.
pub fn rechunk(data: &Bytes, plan: &[u32], at: usize) -> Vec<Bytes> {
    if plan.is_empty() || plan.iter().all(|p| *p == 0) {
        return vec![data.clone()];
    }
    let mut out = vec![];
    let mut pos = 0usize;
    let mut k = at % plan.len();
    while pos < data.len() {
        let want = plan[k] as usize;
        k = (k + 1) % plan.len();
        if want == 0 {
            out.push(Bytes::new());
            continue;
        }
        let end = (pos + want).min(data.len());
        out.push(data.slice(pos..end));
        pos = end;
    }
    out
}

#[async_trait]
impl ObjectStore for ChunkStore {
    async fn put_opts(&self, location: &Path, payload: PutPayload, opts: PutOptions) -> Result<PutResult> {
        self.inner.put_opts(location, payload, opts).await
    }
    async fn put_multipart_opts(&self, location: &Path, opts: PutMultipartOptions) -> Result<Box<dyn MultipartUpload>> {
        self.inner.put_multipart_opts(location, opts).await
    }
    async fn get_opts(&self, location: &Path, options: GetOptions) -> Result<GetResult> {
        let n = self.gets.fetch_add(1, Ordering::SeqCst) as usize;
        let asked = match &options.range {
            Some(GetRange::Bounded(r)) => Some((r.start, r.end)),
            Some(GetRange::Offset(o)) => Some((*o, u64::MAX)),
            Some(GetRange::Suffix(s)) => Some((u64::MAX, *s)),
            None => None,
        };
        if !options.head {
            self.ranges.lock().push((location.to_string(), asked));
        }
        let r = self.inner.get_opts(location, options).await?;
        let meta = r.meta.clone();
        let range = r.range.clone();
        let attributes = r.attributes.clone();
        let data = r.bytes().await?;
        let chunks = rechunk(&data, &self.plan, n);
        let stream = futures::stream::iter(chunks.into_iter().map(Ok)).boxed();
        Ok(GetResult { payload: GetResultPayload::Stream(stream), meta, range, attributes })
    }
    fn delete_stream(&self, locations: BoxStream<'static, Result<Path>>) -> BoxStream<'static, Result<Path>> {
        self.inner.delete_stream(locations)
    }
    fn list(&self, prefix: Option<&Path>) -> BoxStream<'static, Result<ObjectMeta>> {
        self.inner.list(prefix)
    }
    async fn list_with_delimiter(&self, prefix: Option<&Path>) -> Result<ListResult> {
        self.inner.list_with_delimiter(prefix).await
    }
    async fn copy_opts(&self, from: &Path, to: &Path, options: CopyOptions) -> Result<()> {
        self.inner.copy_opts(from, to, options).await
    }
}
