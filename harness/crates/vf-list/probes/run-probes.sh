#!/bin/bash
# runs the sensitivity probes of vf-list one after the other; logs next to this script
export CARGO_TARGET_DIR=/verif/harness/target-vf-list
P=/verif/harness/crates/vf-list/probes
cd /verif
run() { # name patch command...
  name=$1; patch=$2; shift; shift
  echo "=== $name ($(date +%T))" >> $P/probes.log
  /verif/tools/mutrun "$patch" -- "$@" > $P/log-$name.txt 2>&1
  echo "[$name] exit=$? ; $(grep -h -E 'VIOLATION|KNOWN-FINDING|quick:|BUILD-FAILED|exited with' $P/log-$name.txt | cut -c1-220 | tr '\n' '|')" >> $P/probes.log
}
for job in "$@"; do
case $job in
 F) run c27-fix /verif/fixes/C27-partition-prefix-single-spelling.diff env VERIF_C27_NO_EXCLUDE=1 ./check C27 quick ;;
 A) run c25c27-pA $P/c25c27-pA-no-percent-decoding.diff bash -c './check C25 quick; echo "C25 exit=$?"; ./check C27 quick; echo "C27 exit=$?"' ;;
 D) run c27-pD $P/c27-pD-prefix-for-encoded-values.diff ./check C27 quick ;;
 E) run c27-pE $P/c27-pE-ignore-subdirectory-depth.diff ./check C27 quick ;;
 B) run c25-pB $P/c25-pB-csv-header-every-batch.diff ./check C25 quick ;;
 C) run c25-pC $P/c25-pC-date-partition-off-by-one.diff ./check C25 quick ;;
 1) run c26-p1 $P/c26-p1-fetch-from-start.diff ./check C26 quick ;;
 2) run c26-p2 $P/c26-p2-refill-drops-byte.diff ./check C26 quick ;;
 3) run c26-p3 $P/c26-p3-search-from-end.diff ./check C26 quick ;;
esac
done
echo "=== done ($(date +%T))" >> $P/probes.log
