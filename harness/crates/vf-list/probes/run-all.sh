#!/bin/bash
# inside mutrun with all-in-one.diff (both candidate repairs + six env-guarded probes in datafusion-datasource):
# one rebuild; first the repairs are verified with the known-finding exclusions disabled, then each probe is
# switched on by VFL_PROBE (exclusions active again, as in a normal run)
cd /verif
for c in C27 C25; do
  for s in 0 1; do
    echo "##### fix-verification $c seed $s"
    VERIF_C25_NO_EXCLUDE=1 VERIF_C27_NO_EXCLUDE=1 VERIF_SEED=$s ./check $c quick 2>&1 | cut -c1-400
    echo "##### fix-verification $c seed $s exit=${PIPESTATUS[0]}"
  done
done
for pair in B:C25 C:C25 E:C27 1:C26 2:C26 3:C26; do
  p=${pair%%:*}; c=${pair##*:}
  echo "##### probe $p -> $c"
  VFL_PROBE=$p ./check $c quick 2>&1 | cut -c1-600
  echo "##### probe $p exit=${PIPESTATUS[0]}"
done
