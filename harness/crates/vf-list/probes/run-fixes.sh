#!/bin/bash
# inside mutrun (both candidate repairs applied): the checks must pass with the known-finding exclusions disabled
cd /verif
export VERIF_C25_NO_EXCLUDE=1 VERIF_C27_NO_EXCLUDE=1
for c in C27 C25; do
  for s in 0 1; do
    echo "##### fix-verification $c seed $s"
    VERIF_SEED=$s ./check $c quick 2>&1 | cut -c1-400
    echo "##### $c seed $s exit=${PIPESTATUS[0]}"
  done
done
