#!/bin/bash
# unchanged tree: every property, seeds 0..4 and 41..43, through ./check (exit codes recorded)
cd /verif
for c in C27 C26 C25; do for s in 0 1 2 3 4 41 42 43; do
  out=$(VERIF_SEED=$s ./check $c quick 2>&1 | grep -v "^KNOWN" | cut -c1-300 | tail -2 | tr '\n' '|'); code=${PIPESTATUS[0]}
  echo "$c seed=$s $out" ; done; done
