#!/bin/bash
# inside mutrun (combined-datasource-env-guarded.diff applied): one build, four probes selected by VFL_PROBE
cd /verif
for pair in C:C25 1:C26 2:C26 3:C26; do
  p=${pair%%:*}; c=${pair##*:}
  echo "##### probe $p -> $c"
  VFL_PROBE=$p ./check $c quick 2>&1 | cut -c1-600
  echo "##### probe $p exit=${PIPESTATUS[0]}"
done
