//! Plain-data tables <-> Arrow. Cases carry `Val`s only; Arrow objects are derived inside `run`.
use arrow::array::{
    Array, ArrayRef, BooleanArray, Int32Array, Int64Array, LargeStringArray, RecordBatch, RecordBatchOptions, StringArray, StringViewArray, UInt64Array,
};
use arrow::datatypes::{DataType, Field, Schema, SchemaRef};
use serde::{Deserialize, Serialize};
use std::cmp::Ordering;
use std::sync::Arc;

/// One logical value. The derived `Ord` is only used to canonicalise multisets, never as SQL order.
#[derive(Clone, Debug, PartialEq, Eq, PartialOrd, Ord, Hash, Serialize, Deserialize)]
pub enum Val {
    Null,
    B(bool),
    I(i64),
    S(String),
}

impl Val {
    pub fn is_null(&self) -> bool {
        matches!(self, Val::Null)
    }
    pub fn as_i(&self) -> Option<i64> {
        if let Val::I(v) = self { Some(*v) } else { None }
    }
}

impl std::fmt::Display for Val {
    fn fmt(&self, f: &mut std::fmt::Formatter<'_>) -> std::fmt::Result {
        match self {
            Val::Null => write!(f, "NULL"),
            Val::B(b) => write!(f, "{b}"),
            Val::I(i) => write!(f, "{i}"),
            Val::S(s) => write!(f, "{s:?}"),
        }
    }
}

#[derive(Clone, Copy, Debug, PartialEq, Eq, Hash, Serialize, Deserialize)]
pub enum Ty {
    I32,
    I64,
    Utf8,
    LargeUtf8,
    Utf8View,
    Bool,
}

impl Ty {
    pub fn arrow(self) -> DataType {
        match self {
            Ty::I32 => DataType::Int32,
            Ty::I64 => DataType::Int64,
            Ty::Utf8 => DataType::Utf8,
            Ty::LargeUtf8 => DataType::LargeUtf8,
            Ty::Utf8View => DataType::Utf8View,
            Ty::Bool => DataType::Boolean,
        }
    }
    pub fn is_string(self) -> bool {
        matches!(self, Ty::Utf8 | Ty::LargeUtf8 | Ty::Utf8View)
    }
    pub fn is_int(self) -> bool {
        matches!(self, Ty::I32 | Ty::I64)
    }
}

#[derive(Clone, Debug)]
pub struct ColDef {
    pub name: String,
    pub ty: Ty,
    pub nullable: bool,
}

impl ColDef {
    pub fn new(name: &str, ty: Ty, nullable: bool) -> Self {
        ColDef { name: name.to_string(), ty, nullable }
    }
}

pub type Row = Vec<Val>;

pub fn schema_of(cols: &[ColDef]) -> SchemaRef {
    Arc::new(Schema::new(cols.iter().map(|c| Field::new(&c.name, c.ty.arrow(), c.nullable)).collect::<Vec<_>>()))
}

fn column(ty: Ty, rows: &[&Row], j: usize) -> Result<ArrayRef, String> {
    let bad = |v: &Val| format!("value {v} does not fit column type {ty:?}");
    Ok(match ty {
        Ty::I32 => {
            let mut out = Vec::with_capacity(rows.len());
            for r in rows {
                out.push(match &r[j] {
                    Val::Null => None,
                    Val::I(v) => Some(i32::try_from(*v).map_err(|_| bad(&r[j]))?),
                    v => return Err(bad(v)),
                });
            }
            Arc::new(Int32Array::from(out))
        }
        Ty::I64 => {
            let mut out = Vec::with_capacity(rows.len());
            for r in rows {
                out.push(match &r[j] {
                    Val::Null => None,
                    Val::I(v) => Some(*v),
                    v => return Err(bad(v)),
                });
            }
            Arc::new(Int64Array::from(out))
        }
        Ty::Bool => {
            let mut out = Vec::with_capacity(rows.len());
            for r in rows {
                out.push(match &r[j] {
                    Val::Null => None,
                    Val::B(v) => Some(*v),
                    v => return Err(bad(v)),
                });
            }
            Arc::new(BooleanArray::from(out))
        }
        Ty::Utf8 | Ty::LargeUtf8 | Ty::Utf8View => {
            let mut out: Vec<Option<&str>> = Vec::with_capacity(rows.len());
            for r in rows {
                out.push(match &r[j] {
                    Val::Null => None,
                    Val::S(v) => Some(v.as_str()),
                    v => return Err(bad(v)),
                });
            }
            match ty {
                Ty::Utf8 => Arc::new(StringArray::from(out)),
                Ty::LargeUtf8 => Arc::new(LargeStringArray::from(out)),
                _ => Arc::new(StringViewArray::from(out)),
            }
        }
    })
}

/// Rows -> one RecordBatch of the given schema (zero rows allowed).
pub fn to_batch(schema: &SchemaRef, cols: &[ColDef], rows: &[&Row]) -> Result<RecordBatch, String> {
    for r in rows {
        if r.len() != cols.len() {
            return Err(format!("row width {} != {} columns", r.len(), cols.len()));
        }
    }
    let mut arrays = Vec::with_capacity(cols.len());
    for (j, c) in cols.iter().enumerate() {
        let a = column(c.ty, rows, j)?;
        if !c.nullable && a.null_count() > 0 {
            return Err(format!("NULL in non-nullable column {}", c.name));
        }
        arrays.push(a);
    }
    RecordBatch::try_new_with_options(schema.clone(), arrays, &RecordBatchOptions::new().with_row_count(Some(rows.len()))).map_err(|e| e.to_string())
}

/// Arrow -> plain rows (by the arrays' own data types).
pub fn batch_rows(batch: &RecordBatch) -> Result<Vec<Row>, String> {
    let n = batch.num_rows();
    let mut rows: Vec<Row> = (0..n).map(|_| Vec::with_capacity(batch.num_columns())).collect();
    for col in batch.columns() {
        if col.len() != n {
            return Err(format!("column length {} != batch rows {n}", col.len()));
        }
        macro_rules! fill {
            ($t:ty, $f:expr) => {{
                let a = col.as_any().downcast_ref::<$t>().ok_or_else(|| format!("downcast to {} failed", stringify!($t)))?;
                for (i, row) in rows.iter_mut().enumerate() {
                    row.push(if a.is_null(i) { Val::Null } else { $f(a.value(i)) });
                }
            }};
        }
        match col.data_type() {
            DataType::Int32 => fill!(Int32Array, |v: i32| Val::I(v as i64)),
            DataType::Int64 => fill!(Int64Array, |v: i64| Val::I(v)),
            DataType::UInt64 => fill!(UInt64Array, |v: u64| Val::I(v as i64)),
            DataType::Boolean => fill!(BooleanArray, |v: bool| Val::B(v)),
            DataType::Utf8 => fill!(StringArray, |v: &str| Val::S(v.to_string())),
            DataType::LargeUtf8 => fill!(LargeStringArray, |v: &str| Val::S(v.to_string())),
            DataType::Utf8View => fill!(StringViewArray, |v: &str| Val::S(v.to_string())),
            other => return Err(format!("unexpected output data type {other}")),
        }
    }
    Ok(rows)
}

/// Comparison of two values of the same column under sort options (the engine's convention:
/// integers numerically, strings byte-wise, false < true, NULL placement by `nulls_first`
/// independently of `descending`).
pub fn cmp_val(a: &Val, b: &Val, descending: bool, nulls_first: bool) -> Ordering {
    match (a, b) {
        (Val::Null, Val::Null) => Ordering::Equal,
        (Val::Null, _) => {
            if nulls_first {
                Ordering::Less
            } else {
                Ordering::Greater
            }
        }
        (_, Val::Null) => {
            if nulls_first {
                Ordering::Greater
            } else {
                Ordering::Less
            }
        }
        _ => {
            let o = match (a, b) {
                (Val::I(x), Val::I(y)) => x.cmp(y),
                (Val::S(x), Val::S(y)) => x.as_bytes().cmp(y.as_bytes()),
                (Val::B(x), Val::B(y)) => x.cmp(y),
                _ => a.cmp(b),
            };
            if descending { o.reverse() } else { o }
        }
    }
}

/// Lexicographic comparison of key tuples; `opts[i] = (descending, nulls_first)`.
pub fn cmp_keys(a: &[Val], b: &[Val], opts: &[(bool, bool)]) -> Ordering {
    for (i, (x, y)) in a.iter().zip(b.iter()).enumerate() {
        let (d, nf) = opts.get(i).copied().unwrap_or((false, false));
        let o = cmp_val(x, y, d, nf);
        if o != Ordering::Equal {
            return o;
        }
    }
    Ordering::Equal
}

/// Cut `n` items into consecutive chunks at the given fractions (u16 mapped monotonically onto
/// 0..=n). Duplicate cut points give empty chunks (empty batches are part of the domain).
pub fn cut_ranges(n: usize, cuts: &[u16]) -> Vec<(usize, usize)> {
    let mut pts: Vec<usize> = cuts.iter().map(|c| ((*c as usize) * (n + 1)) >> 16).collect();
    pts.sort();
    let mut out = Vec::with_capacity(pts.len() + 1);
    let mut prev = 0;
    for p in pts {
        out.push((prev, p));
        prev = p;
    }
    out.push((prev, n));
    out
}

/// Multiset difference report: (missing from actual, unexpected in actual), both sorted.
pub fn multiset_diff(expected: &[Row], actual: &[Row]) -> (Vec<Row>, Vec<Row>) {
    let mut e: Vec<&Row> = expected.iter().collect();
    let mut a: Vec<&Row> = actual.iter().collect();
    e.sort();
    a.sort();
    let (mut i, mut j) = (0, 0);
    let mut missing = vec![];
    let mut extra = vec![];
    while i < e.len() && j < a.len() {
        match e[i].cmp(a[j]) {
            Ordering::Equal => {
                i += 1;
                j += 1;
            }
            Ordering::Less => {
                missing.push(e[i].clone());
                i += 1;
            }
            Ordering::Greater => {
                extra.push(a[j].clone());
                j += 1;
            }
        }
    }
    missing.extend(e[i..].iter().map(|r| (*r).clone()));
    extra.extend(a[j..].iter().map(|r| (*r).clone()));
    (missing, extra)
}

pub fn fmt_rows(rows: &[Row], max: usize) -> String {
    let mut s = String::new();
    for (i, r) in rows.iter().enumerate() {
        if i >= max {
            s.push_str(&format!(" …(+{} more)", rows.len() - max));
            break;
        }
        s.push('(');
        for (k, v) in r.iter().enumerate() {
            if k > 0 {
                s.push(',');
            }
            s.push_str(&v.to_string());
        }
        s.push(')');
    }
    s
}
