//! C05 — every join operator computes exactly its join type's result.
//!
//! Operator level: the join `ExecutionPlan`s are constructed directly over scripted sources
//! (module `source`), executed on a per-case tokio runtime, and the multiset of output rows is
//! compared with a nested-loop reference over plain rows.
//!
//! Domain (one `Case`): two small tables (`k0[,k1]` key columns of one of seven key shapes, `x`/`y`
//! Int64 payload used by residual filters, `id` Int32 unique) with duplicates, NULL keys, empty
//! sides, integer extremes, batch cuts (incl. empty batches), 1–3 source partitions per side and
//! `Pending` jitter; operator ∈ {HashJoin CollectLeft, HashJoin Partitioned (inputs hash
//! repartitioned by `RepartitionExec`), HashJoin null-aware (CollectLeft; LeftAnti/RightAnti, single
//! key; LeftAnti also with a residual filter), SortMergeJoin (inputs key-partitioned and sorted by the harness under all four
//! sort-option combinations per key), NestedLoopJoin (key equality folded into the filter, or pure
//! filter), SymmetricHashJoin (single partition / partitioned; optionally with inputs sorted on the
//! payload + declared sort exprs so the pruning path runs), CrossJoin, PiecewiseMergeJoin (buffered
//! side sorted as the operator requires)}; all 10 join types; both `NullEquality` modes; optional
//! residual `JoinFilter` (10 shapes, three-valued); `batch_size` ∈ {1,2,3,5,12,25,8192};
//! `enforce_batch_size_in_joins`; perfect-hash-join thresholds (default / disabled / forced);
//! optional embedded projection (hash, nested loop, sort merge); optional `fetch` (hash join);
//! optional memory limit (Greedy/FairSpill pool + private spill directory); consumption mode
//! (CoalescePartitionsExec / partitions sequentially / partitions concurrently); current-thread or
//! 2-worker runtime.
//!
//! Oracle: `match(l,r) := keys equal under the NullEquality ∧ filter(l,r) IS TRUE`; per join type the
//! documented result (JoinType rustdoc): pairs, NULL-padded unmatched rows of preserved sides,
//! semi/anti = rows with / without a match, mark = every row + non-null Boolean "has a match".
//! Null-aware anti (rustdoc comment in hash_join/stream.rs, = SQL `NOT IN`; with a residual filter =
//! correlated `x NOT IN (SELECT y FROM other WHERE filter)`, which is the plan the planner builds for
//! it): with S = other-side rows passing the filter for this row, the row qualifies iff S is empty, or
//! its key is non-NULL and S holds neither a NULL nor an equal key. With `fetch`: output ⊆ expected, ≥ min(fetch, |expected|)
//! rows, ≤ fetch per output partition.
//!
//! Outcomes: constructor / execute-time `NotImplemented` or `Plan` errors = discard (histogrammed
//! as `op jt: reason`); `ResourcesExhausted` with a memory limit = inconclusive; timeout (20 s) =
//! inconclusive; any other execution error or a multiset difference = violation.
//!
//! Non-trivial: both sides non-empty, ≥ 1 matching pair, and (an unmatched row on some side or a
//! NULL key present).
//!
//! Deviations from DESIGN.md: crate is `vf-join` (not vf-plan); null-aware joins are generated only
//! in CollectLeft mode — `HashJoinExecBuilder` also accepts null-aware LeftAnti in Partitioned mode,
//! but no planner path produces it (physical_planner.rs / join_selection.rs force CollectLeft) and
//! its per-partition NULL flags cannot implement NOT IN, so it is outside the domain.
//! PiecewiseMergeJoin is generated only for the six supported join types; the four unsupported ones
//! are pinned as clean `NotImplemented` in `extra()`.
//!
//! Genuine defects found (all reproduced on the unchanged tree, recorded in
//! /verif/known_findings.json, cases under /verif/regressions/C05/c05/, repairs under /verif/fixes/;
//! with the four repairs applied `c05 quick` passes seeds 0-2 with every exclusion switched off):
//!  * `nlj-spill-fallback:right-side-emission-skipped` — NestedLoopJoin memory-limited fallback: a
//!    pass that finds no further left batch (last left batch hit the limit, or left side empty)
//!    jumps to Done and skips EmitGlobalRightUnmatched: RIGHT/FULL/RIGHT SEMI/ANTI/MARK lose their
//!    deferred right-side output. Fix: fixes/C05-nlj-spill-fallback-right-emission.diff.
//!  * `nlj-spill-fallback:multi-right-partitions:left-emitting` — same fallback with > 1 right
//!    partitions: LEFT/LEFT SEMI/ANTI/MARK emit left rows per partition from partial matches
//!    (acknowledged as "latent issue" in a code comment). Fix (fallback disabled for these, as it
//!    already is for FULL → clean ResourcesExhausted): fixes/C05-nlj-spill-fallback-multi-partition.diff.
//!  * `shj:null-equals-null:null-key` — SymmetricHashJoin inserts NULL-key rows under a stale hash
//!    (hashes_buffer resized but not cleared; create_hashes skips NULL slots) → lost matches under
//!    NullEqualsNull. Fix: fixes/C05-shj-stale-hash-for-null-keys.diff.
//!  * `hash-null-aware:left-anti:with-filter` — null-aware LeftAnti with a residual filter (the plan
//!    of a correlated `a NOT IN (SELECT b FROM t2 WHERE t2.c < t1.c)`) applies its NULL / emptiness
//!    tests globally instead of over the rows passing the filter: rows are lost (SQL repro in
//!    known_findings.json returns no row instead of (2,20)). No repair patch: a correct version needs
//!    per-build-row NULL tracking (or the planner must not choose the null-aware hash join when a
//!    residual filter exists); described in the report.
//! The four shapes are excluded from generation by `known_signature` (counted in
//! `known_excluded`) until the repairs land.
//!
//! Sensitivity probes (tools/mkpatch + tools/mutrun; one mutated build carrying one mutation per
//! operator, each operator checked separately with `VF_C05_OP=<op> VF_CASES=<that operator's share
//! of the quick budget> vf-join c05 quick`; all exits 1 unless noted):
//!  * M1 hash_join/stream.rs — every probe partition emits the unmatched build rows in CollectLeft
//!    (`report_probe_completed()` result ignored): DETECTED after 2 cases (HashCollect/Left, 2 rows for 1).
//!  * M2 sort_merge_join/materializing_stream.rs — streamed/buffered comparator built with
//!    NullEqualsNull regardless of the join's NullEquality: DETECTED after 198 cases (Inner, NULL keys joined).
//!  * M3 symmetric_hash_join.rs — prune length + 1: DETECTED after 328 cases (sorted variant, Band filter).
//!  * M4 piecewise_merge_join/classic_join.rs — `<`/`>` also accept equality: DETECTED after 4 cases.
//!  * M5 nested_loop_join.rs — left visited-bitmap index drops `l_start_index` in
//!    process_left_range_join: NOT detected by the first generator (1124 NestedLoop cases): the
//!    range path needs batch_size / right_rows > 10 and a left side longer than that ratio, which
//!    batch sizes {1,2,3,5,8192} × ≤ 10 rows never produced. Generator widened (batch sizes 12 and 25,
//!    nested-loop left side up to 2·max+2 rows) and re-probed: see the line below.
//!  * M5 re-probe (same mutation, widened generator, VF_C05_OP=NestedLoop VF_CASES=860): DETECTED after
//!    215 cases (seed 0: NestedLoop/Left, 14 rows for 13) and after 86 cases (seed 1: NestedLoop/Full).
//!
//! `VF_C05_OP` / `VF_CASES` are probe aids only (default off; the evidence run never sets them).
use crate::data::*;
use crate::source::*;
use arrow::compute::SortOptions;
use datafusion_common::{JoinSide, JoinType, NullEquality, ScalarValue};
use datafusion_execution::config::SessionConfig;
use datafusion_expr::Operator;
use datafusion_physical_expr::expressions::{BinaryExpr, Column, IsNullExpr, Literal};
use datafusion_physical_expr::{LexOrdering, Partitioning, PhysicalExpr, PhysicalSortExpr};
use datafusion_physical_plan::coalesce_partitions::CoalescePartitionsExec;
use datafusion_physical_plan::joins::utils::{ColumnIndex, JoinFilter};
use datafusion_physical_plan::joins::{
    CrossJoinExec, HashJoinExecBuilder, NestedLoopJoinExec, PartitionMode, PiecewiseMergeJoinExec, SortMergeJoinExec, StreamJoinPartitionMode, SymmetricHashJoinExec,
};
use datafusion_physical_plan::repartition::RepartitionExec;
use datafusion_physical_plan::{ExecutionPlan, ExecutionPlanProperties};
use proptest::prelude::*;
use serde::{Deserialize, Serialize};
use std::sync::Arc;
use std::time::Duration;
use vf_kit::engine::*;

pub struct C05;

#[derive(Clone, Copy, Debug, PartialEq, Eq, Serialize, Deserialize)]
pub enum Op {
    HashCollect,
    HashPart,
    HashNullAware,
    SortMerge,
    NestedLoop,
    SymHash,
    Cross,
    Piecewise,
}

#[derive(Clone, Copy, Debug, PartialEq, Eq, Serialize, Deserialize)]
pub enum JT {
    Inner,
    Left,
    Right,
    Full,
    LeftSemi,
    RightSemi,
    LeftAnti,
    RightAnti,
    LeftMark,
    RightMark,
}

pub const ALL_JT: [JT; 10] = [JT::Inner, JT::Left, JT::Right, JT::Full, JT::LeftSemi, JT::RightSemi, JT::LeftAnti, JT::RightAnti, JT::LeftMark, JT::RightMark];

impl JT {
    pub fn df(self) -> JoinType {
        match self {
            JT::Inner => JoinType::Inner,
            JT::Left => JoinType::Left,
            JT::Right => JoinType::Right,
            JT::Full => JoinType::Full,
            JT::LeftSemi => JoinType::LeftSemi,
            JT::RightSemi => JoinType::RightSemi,
            JT::LeftAnti => JoinType::LeftAnti,
            JT::RightAnti => JoinType::RightAnti,
            JT::LeftMark => JoinType::LeftMark,
            JT::RightMark => JoinType::RightMark,
        }
    }
}

#[derive(Clone, Copy, Debug, PartialEq, Eq, Serialize, Deserialize)]
pub enum KeyKind {
    I32,
    I64,
    Utf8,
    LargeUtf8,
    Utf8View,
    I32Utf8,
    I64I32,
}

impl KeyKind {
    pub fn types(self) -> Vec<Ty> {
        match self {
            KeyKind::I32 => vec![Ty::I32],
            KeyKind::I64 => vec![Ty::I64],
            KeyKind::Utf8 => vec![Ty::Utf8],
            KeyKind::LargeUtf8 => vec![Ty::LargeUtf8],
            KeyKind::Utf8View => vec![Ty::Utf8View],
            KeyKind::I32Utf8 => vec![Ty::I32, Ty::Utf8],
            KeyKind::I64I32 => vec![Ty::I64, Ty::I32],
        }
    }
}

#[derive(Clone, Debug, Serialize, Deserialize)]
pub struct RowSpec {
    pub k: Vec<Val>,
    pub x: Val,
}

#[derive(Clone, Debug, Serialize, Deserialize)]
pub struct SideSpec {
    pub rows: Vec<RowSpec>,
    /// batch cut fractions
    pub cuts: Vec<u16>,
    /// number of source partitions (free layouts)
    pub parts: u8,
    /// `Pending` polls before batch i (cyclic)
    pub pend: Vec<u8>,
}

#[derive(Clone, Copy, Debug, PartialEq, Eq, Serialize, Deserialize)]
pub enum FilterSpec {
    /// x < y
    Lt,
    LtEq,
    Gt,
    GtEq,
    /// x != y
    NotEq,
    /// x + y = c
    SumEq(i64),
    /// x > y - a AND x < y + b
    Band(i64, i64),
    /// x > c (left only)
    LeftGt(i64),
    /// x < y OR y IS NULL
    LtOrNull,
    /// lid <= rid (never NULL)
    IdLe,
}

#[derive(Clone, Copy, Debug, PartialEq, Eq, Serialize, Deserialize)]
pub enum Consume {
    Coalesce,
    Sequential,
    Concurrent,
}

#[derive(Clone, Debug, Serialize, Deserialize)]
pub struct Case {
    pub op: Op,
    pub jt: JT,
    pub null_eq_null: bool,
    pub key: KeyKind,
    pub left: SideSpec,
    pub right: SideSpec,
    pub filter: Option<FilterSpec>,
    pub batch_size: u16,
    pub enforce_batch: bool,
    /// partition count of partitioned modes
    pub nparts: u8,
    /// (descending, nulls_first) per key column for sort-merge; [0].1 also = NULL placement of the
    /// sorted symmetric-hash variant
    pub sort: Vec<(bool, bool)>,
    pub shj_part: bool,
    pub shj_sorted: bool,
    /// nested loop: fold the key equality into the filter (else the filter alone is the predicate)
    pub nlj_keys: bool,
    /// piecewise: 0 `<`, 1 `<=`, 2 `>`, 3 `>=`
    pub pw_op: u8,
    /// perfect hash join thresholds: 0 default, 1 disabled, 2 forced
    pub phj: u8,
    pub projection: Option<Vec<u16>>,
    pub fetch: Option<u8>,
    pub mem: Option<(u32, PoolKind)>,
    pub consume: Consume,
    /// 0 = current-thread runtime, else worker threads
    pub threads: u8,
}

// ------------------------------------------------------------------------------------------------
// generators

fn int_key(wide: bool, nullw: u32) -> BoxedStrategy<Val> {
    let ext: Vec<i64> = if wide { vec![i64::MIN, i64::MAX, i64::MIN + 1, i64::MAX - 1] } else { vec![i32::MIN as i64, i32::MAX as i64, i32::MIN as i64 + 1, i32::MAX as i64 - 1] };
    prop_oneof![
        nullw => Just(Val::Null),
        12 => (0i64..5).prop_map(Val::I),
        3 => prop::sample::select(vec![5i64, 7, 100, -1, -3, 1000, 40000]).prop_map(Val::I),
        1 => prop::sample::select(ext).prop_map(Val::I),
    ]
    .boxed()
}

fn str_key(nullw: u32) -> BoxedStrategy<Val> {
    prop_oneof![
        nullw => Just(Val::Null),
        14 => prop::sample::select(vec!["", "a", "b", "ab", "ba", "A", "é", "a long string beyond twelve bytes", "a long string beyond twelve byteS"]).prop_map(|s| Val::S(s.to_string())),
    ]
    .boxed()
}

fn key_vals(kind: KeyKind, nullw: u32) -> BoxedStrategy<Vec<Val>> {
    match kind {
        KeyKind::I32 => int_key(false, nullw).prop_map(|v| vec![v]).boxed(),
        KeyKind::I64 => int_key(true, nullw).prop_map(|v| vec![v]).boxed(),
        KeyKind::Utf8 | KeyKind::LargeUtf8 | KeyKind::Utf8View => str_key(nullw).prop_map(|v| vec![v]).boxed(),
        KeyKind::I32Utf8 => (int_key(false, nullw), str_key(nullw)).prop_map(|(a, b)| vec![a, b]).boxed(),
        KeyKind::I64I32 => (int_key(true, nullw), int_key(false, nullw)).prop_map(|(a, b)| vec![a, b]).boxed(),
    }
}

fn payload() -> BoxedStrategy<Val> {
    prop_oneof![2 => Just(Val::Null), 11 => (-2i64..7).prop_map(Val::I)].boxed()
}

/// `nullw` = weight of NULL among key values (0 = no NULL keys at all in this side)
fn side(kind: KeyKind, max_rows: usize, nullw: u32) -> BoxedStrategy<SideSpec> {
    let rows = prop_oneof![
        1 => Just(vec![]),
        12 => prop::collection::vec((key_vals(kind, nullw), payload()).prop_map(|(k, x)| RowSpec { k, x }), 1..=max_rows),
    ];
    (rows, prop::collection::vec(any::<u16>(), 0..4), 1u8..=3, prop::collection::vec(0u8..3, 0..3)).prop_map(|(rows, cuts, parts, pend)| SideSpec { rows, cuts, parts, pend }).boxed()
}

fn filter_spec() -> BoxedStrategy<Option<FilterSpec>> {
    prop_oneof![
        5 => Just(None),
        1 => Just(Some(FilterSpec::Lt)),
        1 => Just(Some(FilterSpec::LtEq)),
        1 => Just(Some(FilterSpec::Gt)),
        1 => Just(Some(FilterSpec::GtEq)),
        1 => Just(Some(FilterSpec::NotEq)),
        1 => (0i64..8).prop_map(|c| Some(FilterSpec::SumEq(c))),
        1 => ((0i64..4), (0i64..4)).prop_map(|(a, b)| Some(FilterSpec::Band(a, b))),
        1 => (-1i64..5).prop_map(|c| Some(FilterSpec::LeftGt(c))),
        1 => Just(Some(FilterSpec::LtOrNull)),
        1 => Just(Some(FilterSpec::IdLe)),
    ]
    .boxed()
}

/// Probe aid (default off): `VF_C05_OP=<Op name>` restricts generation to one operator so that
/// several single-operator mutations can be checked with one mutated build.
fn op_filter() -> Option<Op> {
    let v = std::env::var("VF_C05_OP").ok()?;
    [Op::HashCollect, Op::HashPart, Op::HashNullAware, Op::SortMerge, Op::NestedLoop, Op::SymHash, Op::Cross, Op::Piecewise].into_iter().find(|o| format!("{o:?}") == v)
}

fn op_strategy() -> BoxedStrategy<Op> {
    if let Some(op) = op_filter() {
        return Just(op).boxed();
    }
    prop_oneof![
        4 => Just(Op::HashCollect),
        3 => Just(Op::HashPart),
        1 => Just(Op::HashNullAware),
        4 => Just(Op::SortMerge),
        3 => Just(Op::NestedLoop),
        3 => Just(Op::SymHash),
        1 => Just(Op::Cross),
        2 => Just(Op::Piecewise),
    ]
    .boxed()
}

fn case_strategy(tier: Tier) -> BoxedStrategy<Case> {
    let max_rows = tier.pick(10usize, 32usize);
    let kind = prop::sample::select(vec![KeyKind::I32, KeyKind::I32, KeyKind::I64, KeyKind::Utf8, KeyKind::LargeUtf8, KeyKind::Utf8View, KeyKind::I32Utf8, KeyKind::I64I32]);
    (op_strategy(), kind, prop::sample::select(vec![0u32, 0, 1, 4]))
        .prop_flat_map(move |(op, kind, nullw)| {
            // shape the choice lists per operator (construction, not rejection)
            let kind = match (op, kind) {
                (Op::HashNullAware, KeyKind::I32Utf8) => KeyKind::I32,
                (Op::HashNullAware, KeyKind::I64I32) => KeyKind::I64,
                (_, k) => k,
            };
            let jts: Vec<JT> = match op {
                Op::HashNullAware => vec![JT::LeftAnti, JT::RightAnti],
                Op::Cross => vec![JT::Inner],
                Op::Piecewise => vec![JT::Inner, JT::Left, JT::Right, JT::Full, JT::LeftSemi, JT::LeftAnti],
                _ => ALL_JT.to_vec(),
            };
            let filt = match op {
                Op::Cross | Op::Piecewise => Just(None).boxed(),
                _ => filter_spec(),
            };
            let mem = match op {
                Op::SortMerge | Op::NestedLoop | Op::HashPart => prop_oneof![
                    5 => Just(None),
                    2 => (prop::sample::select(vec![0u32, 64, 700, 3000, 20000, 200000]), prop::sample::select(vec![PoolKind::Greedy, PoolKind::Fair])).prop_map(Some),
                ]
                .boxed(),
                _ => prop_oneof![
                    14 => Just(None),
                    1 => (prop::sample::select(vec![3000u32, 20000, 200000]), prop::sample::select(vec![PoolKind::Greedy, PoolKind::Fair])).prop_map(Some),
                ]
                .boxed(),
            };
            // the nested-loop join probes the buffered left side in ranges of batch_size / right_rows (> 10) rows:
            // give it a left side that can exceed one such range
            let left_rows = if op == Op::NestedLoop { 2 * max_rows + 2 } else { max_rows };
            let core = (prop::sample::select(jts), any::<bool>(), side(kind, left_rows, nullw), side(kind, max_rows, nullw), filt, prop::sample::select(vec![1u16, 2, 3, 5, 12, 25, 8192, 8192]), any::<bool>(), 1u8..=4);
            let opts = (
                prop::collection::vec((any::<bool>(), any::<bool>()), 2),
                any::<bool>(),
                prop::bool::weighted(0.4),
                prop::bool::weighted(0.7),
                0u8..4,
                prop::sample::select(vec![0u8, 0, 1, 2]),
                prop::option::weighted(0.2, prop::collection::vec(any::<u16>(), 1..6)),
                prop::option::weighted(0.1, 0u8..12),
                mem,
                prop::sample::select(vec![Consume::Coalesce, Consume::Sequential, Consume::Concurrent]),
                prop::sample::select(vec![0u8, 0, 0, 0, 0, 2]),
            );
            (core, opts).prop_map(move |((jt, null_eq_null, left, right, filter, batch_size, enforce_batch, nparts), (sort, shj_part, shj_sorted, nlj_keys, pw_op, phj, projection, fetch, mem, consume, threads))| {
                let null_eq_null = if op == Op::HashNullAware { false } else { null_eq_null };
                // the builder rejects null-aware RightAnti with a filter; null-aware LeftAnti with a
                // filter is what the planner produces for a correlated `NOT IN`
                let filter = if op == Op::HashNullAware && jt == JT::RightAnti { None } else { filter };
                let projection = if matches!(op, Op::HashCollect | Op::HashPart | Op::NestedLoop | Op::SortMerge) { projection } else { None };
                let fetch = if matches!(op, Op::HashCollect | Op::HashPart) { fetch } else { None };
                // the sorted symmetric variant needs a filter over both payload columns
                let filter = if op == Op::SymHash && shj_sorted && !matches!(filter, Some(FilterSpec::Lt | FilterSpec::LtEq | FilterSpec::Gt | FilterSpec::GtEq | FilterSpec::Band(..))) {
                    Some(FilterSpec::Band(1, 2))
                } else {
                    filter
                };
                Case { op, jt, null_eq_null, key: kind, left, right, filter, batch_size, enforce_batch, nparts, sort, shj_part, shj_sorted, nlj_keys, pw_op, phj, projection, fetch, mem, consume, threads }
            })
        })
        .boxed()
}

// ------------------------------------------------------------------------------------------------
// reference semantics

fn keys_equal(a: &[Val], b: &[Val], null_eq_null: bool) -> bool {
    a.iter().zip(b.iter()).all(|(x, y)| match (x, y) {
        (Val::Null, Val::Null) => null_eq_null,
        (Val::Null, _) | (_, Val::Null) => false,
        _ => x == y,
    })
}

fn cmp3(a: &Val, b: &Val, f: impl Fn(i64, i64) -> bool) -> Option<bool> {
    match (a.as_i(), b.as_i()) {
        (Some(x), Some(y)) => Some(f(x, y)),
        _ => None,
    }
}

fn and3(a: Option<bool>, b: Option<bool>) -> Option<bool> {
    match (a, b) {
        (Some(false), _) | (_, Some(false)) => Some(false),
        (Some(true), Some(true)) => Some(true),
        _ => None,
    }
}

fn or3(a: Option<bool>, b: Option<bool>) -> Option<bool> {
    match (a, b) {
        (Some(true), _) | (_, Some(true)) => Some(true),
        (Some(false), Some(false)) => Some(false),
        _ => None,
    }
}

/// three-valued filter result for left row (x, id) and right row (y, id)
fn eval_filter(f: FilterSpec, x: &Val, lid: i64, y: &Val, rid: i64) -> Option<bool> {
    match f {
        FilterSpec::Lt => cmp3(x, y, |a, b| a < b),
        FilterSpec::LtEq => cmp3(x, y, |a, b| a <= b),
        FilterSpec::Gt => cmp3(x, y, |a, b| a > b),
        FilterSpec::GtEq => cmp3(x, y, |a, b| a >= b),
        FilterSpec::NotEq => cmp3(x, y, |a, b| a != b),
        FilterSpec::SumEq(c) => cmp3(x, y, |a, b| a.wrapping_add(b) == c),
        FilterSpec::Band(a, b) => and3(cmp3(x, y, |p, q| p > q.wrapping_sub(a)), cmp3(x, y, |p, q| p < q.wrapping_add(b))),
        FilterSpec::LeftGt(c) => x.as_i().map(|v| v > c),
        FilterSpec::LtOrNull => or3(cmp3(x, y, |a, b| a < b), Some(y.is_null())),
        FilterSpec::IdLe => Some(lid <= rid),
    }
}

/// What the operator is asked to compute.
struct Pred {
    use_keys: bool,
    null_eq_null: bool,
    filter: Option<FilterSpec>,
    null_aware: bool,
}

fn pred_of(case: &Case) -> Pred {
    match case.op {
        Op::Cross => Pred { use_keys: false, null_eq_null: false, filter: None, null_aware: false },
        Op::Piecewise => {
            let f = match case.pw_op {
                0 => FilterSpec::Lt,
                1 => FilterSpec::LtEq,
                2 => FilterSpec::Gt,
                _ => FilterSpec::GtEq,
            };
            Pred { use_keys: false, null_eq_null: false, filter: Some(f), null_aware: false }
        }
        Op::NestedLoop => Pred { use_keys: case.nlj_keys, null_eq_null: case.null_eq_null, filter: case.filter, null_aware: false },
        Op::HashNullAware => Pred { use_keys: true, null_eq_null: case.null_eq_null, filter: case.filter, null_aware: true },
        _ => Pred { use_keys: true, null_eq_null: case.null_eq_null, filter: case.filter, null_aware: false },
    }
}

fn full_rows(side: &SideSpec) -> Vec<Row> {
    side.rows
        .iter()
        .enumerate()
        .map(|(i, r)| {
            let mut v = r.k.clone();
            v.push(r.x.clone());
            v.push(Val::I(i as i64));
            v
        })
        .collect()
}

struct Reference {
    rows: Vec<Row>,
    matching_pairs: usize,
    unmatched: usize,
}

fn reference(case: &Case, pred: &Pred) -> Reference {
    let nk = case.key.types().len();
    let l = full_rows(&case.left);
    let r = full_rows(&case.right);
    let lw = nk + 2;
    let rw = nk + 2;
    let mut lm = vec![0usize; l.len()];
    let mut rm = vec![0usize; r.len()];
    let mut pairs: Vec<(usize, usize)> = vec![];
    for (i, a) in l.iter().enumerate() {
        for (j, b) in r.iter().enumerate() {
            let keys_ok = !pred.use_keys || keys_equal(&a[..nk], &b[..nk], pred.null_eq_null);
            if !keys_ok {
                continue;
            }
            let f_ok = match pred.filter {
                None => true,
                Some(f) => eval_filter(f, &a[nk], i as i64, &b[nk], j as i64) == Some(true),
            };
            if f_ok {
                lm[i] += 1;
                rm[j] += 1;
                pairs.push((i, j));
            }
        }
    }
    let nulls = |n: usize| vec![Val::Null; n];
    let cat = |a: &Row, b: &Row| {
        let mut v = a.clone();
        v.extend(b.iter().cloned());
        v
    };
    let mut out: Vec<Row> = vec![];
    let jt = case.jt;
    if pred.null_aware && matches!(jt, JT::LeftAnti | JT::RightAnti) {
        // `this.key NOT IN (SELECT other.key FROM other WHERE filter(this, other))`: with S = the
        // other-side rows that pass the (correlated) filter for this row, the row qualifies iff S is
        // empty, or its key is non-NULL and S holds neither a NULL key nor an equal key. Without a
        // filter S is the whole other side.
        let left_is_this = jt == JT::LeftAnti;
        let (this, other) = if left_is_this { (&l, &r) } else { (&r, &l) };
        for (i, t) in this.iter().enumerate() {
            let mut s_empty = true;
            let mut blocked = false;
            for (j, o) in other.iter().enumerate() {
                let passes = match pred.filter {
                    None => true,
                    Some(f) => {
                        let (a, ai, b, bi) = if left_is_this { (&t[nk], i, &o[nk], j) } else { (&o[nk], j, &t[nk], i) };
                        eval_filter(f, a, ai as i64, b, bi as i64) == Some(true)
                    }
                };
                if !passes {
                    continue;
                }
                s_empty = false;
                if t[0].is_null() || o[0].is_null() || t[0] == o[0] {
                    blocked = true;
                }
            }
            if s_empty || !blocked {
                out.push(t.clone());
            }
        }
    } else {
        match jt {
            JT::Inner | JT::Left | JT::Right | JT::Full => {
                for (i, j) in &pairs {
                    out.push(cat(&l[*i], &r[*j]));
                }
                if matches!(jt, JT::Left | JT::Full) {
                    for (i, a) in l.iter().enumerate() {
                        if lm[i] == 0 {
                            out.push(cat(a, &nulls(rw)));
                        }
                    }
                }
                if matches!(jt, JT::Right | JT::Full) {
                    for (j, b) in r.iter().enumerate() {
                        if rm[j] == 0 {
                            out.push(cat(&nulls(lw), b));
                        }
                    }
                }
            }
            JT::LeftSemi => out = l.iter().enumerate().filter(|(i, _)| lm[*i] > 0).map(|(_, a)| a.clone()).collect(),
            JT::LeftAnti => out = l.iter().enumerate().filter(|(i, _)| lm[*i] == 0).map(|(_, a)| a.clone()).collect(),
            JT::RightSemi => out = r.iter().enumerate().filter(|(j, _)| rm[*j] > 0).map(|(_, b)| b.clone()).collect(),
            JT::RightAnti => out = r.iter().enumerate().filter(|(j, _)| rm[*j] == 0).map(|(_, b)| b.clone()).collect(),
            JT::LeftMark => {
                out = l
                    .iter()
                    .enumerate()
                    .map(|(i, a)| {
                        let mut v = a.clone();
                        v.push(Val::B(lm[i] > 0));
                        v
                    })
                    .collect()
            }
            JT::RightMark => {
                out = r
                    .iter()
                    .enumerate()
                    .map(|(j, b)| {
                        let mut v = b.clone();
                        v.push(Val::B(rm[j] > 0));
                        v
                    })
                    .collect()
            }
        }
    }
    let unmatched = lm.iter().filter(|c| **c == 0).count() + rm.iter().filter(|c| **c == 0).count();
    Reference { rows: out, matching_pairs: pairs.len(), unmatched }
}

fn out_width(case: &Case) -> usize {
    let w = case.key.types().len() + 2;
    match case.jt {
        JT::Inner | JT::Left | JT::Right | JT::Full => 2 * w,
        JT::LeftSemi | JT::LeftAnti | JT::RightSemi | JT::RightAnti => w,
        JT::LeftMark | JT::RightMark => w + 1,
    }
}

fn projection_indices(choice: &[u16], width: usize) -> Vec<usize> {
    let mut avail: Vec<usize> = (0..width).collect();
    let mut out = vec![];
    for c in choice {
        if avail.is_empty() {
            break;
        }
        let i = pick_index(*c, avail.len());
        out.push(avail.remove(i));
    }
    out
}

// ------------------------------------------------------------------------------------------------
// plan construction

fn side_cols(case: &Case, left: bool) -> Vec<ColDef> {
    let p = if left { "l" } else { "r" };
    let mut cols: Vec<ColDef> = case.key.types().iter().enumerate().map(|(i, t)| ColDef::new(&format!("{p}k{i}"), *t, true)).collect();
    cols.push(ColDef::new(if left { "lx" } else { "ry" }, Ty::I64, true));
    cols.push(ColDef::new(&format!("{p}id"), Ty::I32, false));
    cols
}

enum Layout {
    /// rows in case order, cut, batches dealt round-robin to `parts` partitions
    Free,
    /// all rows sorted by the given columns, one partition, ordering declared
    SortedSingle(Vec<(usize, bool, bool)>),
    /// rows placed by a harness hash of the key into n partitions, each sorted by the key
    KeyPartitionedSorted(usize, Vec<(usize, bool, bool)>),
}

fn sort_rows(rows: &mut [Row], by: &[(usize, bool, bool)]) {
    rows.sort_by(|a, b| {
        for (c, d, nf) in by {
            let o = cmp_val(&a[*c], &b[*c], *d, *nf);
            if o != std::cmp::Ordering::Equal {
                return o;
            }
        }
        std::cmp::Ordering::Equal
    });
}

fn ordering_of(cols: &[ColDef], by: &[(usize, bool, bool)]) -> Option<LexOrdering> {
    LexOrdering::new(by.iter().map(|(c, d, nf)| PhysicalSortExpr::new(Arc::new(Column::new(&cols[*c].name, *c)) as Arc<dyn PhysicalExpr>, SortOptions::new(*d, *nf))).collect::<Vec<_>>())
}

fn build_source(side: &SideSpec, cols: &[ColDef], nk: usize, layout: &Layout) -> Result<Arc<dyn ExecutionPlan>, String> {
    let schema = schema_of(cols);
    let mut rows = full_rows(side);
    let batches_of = |rows: &[Row]| -> Result<Vec<arrow::array::RecordBatch>, String> {
        let mut out = vec![];
        for (a, b) in cut_ranges(rows.len(), &side.cuts) {
            let refs: Vec<&Row> = rows[a..b].iter().collect();
            out.push(to_batch(&schema, cols, &refs)?);
        }
        Ok(out)
    };
    match layout {
        Layout::Free => {
            let parts = side.parts.clamp(1, 8) as usize;
            let mut per: Vec<Vec<arrow::array::RecordBatch>> = vec![vec![]; parts];
            for (i, b) in batches_of(&rows)?.into_iter().enumerate() {
                per[i % parts].push(b);
            }
            let scripts = per.into_iter().map(|b| script(b, &side.pend)).collect();
            Ok(Arc::new(ScriptedExec::new(schema, scripts, None)))
        }
        Layout::SortedSingle(by) => {
            sort_rows(&mut rows, by);
            let scripts = vec![script(batches_of(&rows)?, &side.pend)];
            Ok(Arc::new(ScriptedExec::new(schema.clone(), scripts, ordering_of(cols, by))))
        }
        Layout::KeyPartitionedSorted(n, by) => {
            let n = (*n).max(1);
            let mut per: Vec<Vec<Row>> = vec![vec![]; n];
            for r in rows {
                let h = fnv1a(format!("{:?}", &r[..nk]).as_bytes());
                per[(h % n as u64) as usize].push(r);
            }
            let mut scripts = vec![];
            for mut p in per {
                sort_rows(&mut p, by);
                scripts.push(script(batches_of(&p)?, &side.pend));
            }
            Ok(Arc::new(ScriptedExec::new(schema.clone(), scripts, ordering_of(cols, by))))
        }
    }
}

fn single(plan: Arc<dyn ExecutionPlan>) -> Arc<dyn ExecutionPlan> {
    if plan.output_partitioning().partition_count() > 1 { Arc::new(CoalescePartitionsExec::new(plan)) } else { plan }
}

fn col_expr(cols: &[ColDef], i: usize) -> Arc<dyn PhysicalExpr> {
    Arc::new(Column::new(&cols[i].name, i))
}

struct FilterBuilder {
    fields: Vec<arrow::datatypes::Field>,
    idx: Vec<ColumnIndex>,
}

impl FilterBuilder {
    fn col(&mut self, side: JoinSide, cols: &[ColDef], i: usize) -> Arc<dyn PhysicalExpr> {
        let pos = match self.idx.iter().position(|c| c.side == side && c.index == i) {
            Some(p) => p,
            None => {
                self.idx.push(ColumnIndex { index: i, side });
                self.fields.push(arrow::datatypes::Field::new(&cols[i].name, cols[i].ty.arrow(), true));
                self.idx.len() - 1
            }
        };
        Arc::new(Column::new(&cols[i].name, pos))
    }
    fn finish(self, expr: Arc<dyn PhysicalExpr>) -> JoinFilter {
        JoinFilter::new(expr, self.idx, Arc::new(arrow::datatypes::Schema::new(self.fields)))
    }
}

fn bin(l: Arc<dyn PhysicalExpr>, op: Operator, r: Arc<dyn PhysicalExpr>) -> Arc<dyn PhysicalExpr> {
    Arc::new(BinaryExpr::new(l, op, r))
}

fn lit_i64(v: i64) -> Arc<dyn PhysicalExpr> {
    Arc::new(Literal::new(ScalarValue::Int64(Some(v))))
}

fn build_filter(case: &Case, pred: &Pred, fold_keys: bool, lcols: &[ColDef], rcols: &[ColDef]) -> Option<JoinFilter> {
    let nk = case.key.types().len();
    let mut fb = FilterBuilder { fields: vec![], idx: vec![] };
    let mut conj: Vec<Arc<dyn PhysicalExpr>> = vec![];
    if fold_keys {
        for i in 0..nk {
            let l = fb.col(JoinSide::Left, lcols, i);
            let r = fb.col(JoinSide::Right, rcols, i);
            conj.push(bin(l, if pred.null_eq_null { Operator::IsNotDistinctFrom } else { Operator::Eq }, r));
        }
    }
    if let Some(f) = pred.filter {
        let e = match f {
            FilterSpec::Lt | FilterSpec::LtEq | FilterSpec::Gt | FilterSpec::GtEq | FilterSpec::NotEq => {
                let op = match f {
                    FilterSpec::Lt => Operator::Lt,
                    FilterSpec::LtEq => Operator::LtEq,
                    FilterSpec::Gt => Operator::Gt,
                    FilterSpec::GtEq => Operator::GtEq,
                    _ => Operator::NotEq,
                };
                bin(fb.col(JoinSide::Left, lcols, nk), op, fb.col(JoinSide::Right, rcols, nk))
            }
            FilterSpec::SumEq(c) => bin(bin(fb.col(JoinSide::Left, lcols, nk), Operator::Plus, fb.col(JoinSide::Right, rcols, nk)), Operator::Eq, lit_i64(c)),
            FilterSpec::Band(a, b) => {
                let lo = bin(fb.col(JoinSide::Left, lcols, nk), Operator::Gt, bin(fb.col(JoinSide::Right, rcols, nk), Operator::Minus, lit_i64(a)));
                let hi = bin(fb.col(JoinSide::Left, lcols, nk), Operator::Lt, bin(fb.col(JoinSide::Right, rcols, nk), Operator::Plus, lit_i64(b)));
                bin(lo, Operator::And, hi)
            }
            FilterSpec::LeftGt(c) => bin(fb.col(JoinSide::Left, lcols, nk), Operator::Gt, lit_i64(c)),
            FilterSpec::LtOrNull => {
                let lt = bin(fb.col(JoinSide::Left, lcols, nk), Operator::Lt, fb.col(JoinSide::Right, rcols, nk));
                let isn: Arc<dyn PhysicalExpr> = Arc::new(IsNullExpr::new(fb.col(JoinSide::Right, rcols, nk)));
                bin(lt, Operator::Or, isn)
            }
            FilterSpec::IdLe => bin(fb.col(JoinSide::Left, lcols, nk + 1), Operator::LtEq, fb.col(JoinSide::Right, rcols, nk + 1)),
        };
        conj.push(e);
    }
    let mut it = conj.into_iter();
    let first = it.next()?;
    let expr = it.fold(first, |acc, e| bin(acc, Operator::And, e));
    Some(fb.finish(expr))
}

type DfErr = datafusion_common::DataFusionError;

enum BuildErr {
    Harness(String),
    Df(DfErr),
}

impl From<DfErr> for BuildErr {
    fn from(e: DfErr) -> Self {
        BuildErr::Df(e)
    }
}

fn build_plan(case: &Case, pred: &Pred) -> Result<Arc<dyn ExecutionPlan>, BuildErr> {
    let nk = case.key.types().len();
    let lcols = side_cols(case, true);
    let rcols = side_cols(case, false);
    let h = |s: String| BuildErr::Harness(s);
    let neq = if case.null_eq_null { NullEquality::NullEqualsNull } else { NullEquality::NullEqualsNothing };
    let on: Vec<(Arc<dyn PhysicalExpr>, Arc<dyn PhysicalExpr>)> = (0..nk).map(|i| (col_expr(&lcols, i), col_expr(&rcols, i))).collect();
    let jt = case.jt.df();
    let width = out_width(case);
    let projection = case.projection.as_ref().map(|p| projection_indices(p, width));
    let nparts = case.nparts.clamp(1, 8) as usize;
    let free_l = || build_source(&case.left, &lcols, nk, &Layout::Free).map_err(h);
    let free_r = || build_source(&case.right, &rcols, nk, &Layout::Free).map_err(h);
    let hash_repart = |src: Arc<dyn ExecutionPlan>, cols: &[ColDef]| -> Result<Arc<dyn ExecutionPlan>, BuildErr> {
        let exprs = (0..nk).map(|i| col_expr(cols, i)).collect();
        Ok(Arc::new(RepartitionExec::try_new(src, Partitioning::Hash(exprs, nparts))?))
    };
    Ok(match case.op {
        Op::HashCollect | Op::HashNullAware => {
            let l = single(free_l()?);
            let r = free_r()?;
            let filter = build_filter(case, pred, false, &lcols, &rcols);
            Arc::new(
                HashJoinExecBuilder::new(l, r, on, jt)
                    .with_filter(filter)
                    .with_projection(projection)
                    .with_partition_mode(PartitionMode::CollectLeft)
                    .with_null_equality(neq)
                    .with_null_aware(case.op == Op::HashNullAware)
                    .with_fetch(case.fetch.map(|f| f as usize))
                    .build()?,
            )
        }
        Op::HashPart => {
            let l = hash_repart(free_l()?, &lcols)?;
            let r = hash_repart(free_r()?, &rcols)?;
            let filter = build_filter(case, pred, false, &lcols, &rcols);
            Arc::new(
                HashJoinExecBuilder::new(l, r, on, jt)
                    .with_filter(filter)
                    .with_projection(projection)
                    .with_partition_mode(PartitionMode::Partitioned)
                    .with_null_equality(neq)
                    .with_fetch(case.fetch.map(|f| f as usize))
                    .build()?,
            )
        }
        Op::SortMerge => {
            let by: Vec<(usize, bool, bool)> = (0..nk).map(|i| (i, case.sort.get(i).map(|s| s.0).unwrap_or(false), case.sort.get(i).map(|s| s.1).unwrap_or(false))).collect();
            let layout = Layout::KeyPartitionedSorted(nparts, by.clone());
            let l = build_source(&case.left, &lcols, nk, &layout).map_err(h)?;
            let r = build_source(&case.right, &rcols, nk, &layout).map_err(h)?;
            let filter = build_filter(case, pred, false, &lcols, &rcols);
            let opts = by.iter().map(|(_, d, nf)| SortOptions::new(*d, *nf)).collect();
            let j = SortMergeJoinExec::try_new(l, r, on, filter, jt, opts, neq)?;
            match projection {
                Some(p) => Arc::new(j.with_projection(Some(p))?),
                None => Arc::new(j),
            }
        }
        Op::NestedLoop => {
            let l = single(free_l()?);
            let r = free_r()?;
            let filter = build_filter(case, pred, pred.use_keys, &lcols, &rcols);
            Arc::new(NestedLoopJoinExec::try_new(l, r, filter, &jt, projection)?)
        }
        Op::Cross => {
            let l = single(free_l()?);
            let r = free_r()?;
            Arc::new(CrossJoinExec::new(l, r))
        }
        Op::SymHash => {
            let filter = build_filter(case, pred, false, &lcols, &rcols);
            let (l, r, lsort, rsort) = if case.shj_sorted {
                let nf = case.sort.first().map(|s| s.1).unwrap_or(false);
                let by = vec![(nk, false, nf)];
                let layout = Layout::SortedSingle(by.clone());
                let l = build_source(&case.left, &lcols, nk, &layout).map_err(h)?;
                let r = build_source(&case.right, &rcols, nk, &layout).map_err(h)?;
                (l, r, ordering_of(&lcols, &by), ordering_of(&rcols, &by))
            } else {
                (free_l()?, free_r()?, None, None)
            };
            let (l, r, mode) = if case.shj_part {
                (hash_repart(l, &lcols)?, hash_repart(r, &rcols)?, StreamJoinPartitionMode::Partitioned)
            } else {
                (single(l), single(r), StreamJoinPartitionMode::SinglePartition)
            };
            Arc::new(SymmetricHashJoinExec::try_new(l, r, on, filter, &jt, neq, lsort, rsort, mode)?)
        }
        Op::Piecewise => {
            let (op, desc) = match case.pw_op {
                0 => (Operator::Lt, true),
                1 => (Operator::LtEq, true),
                2 => (Operator::Gt, false),
                _ => (Operator::GtEq, false),
            };
            // buffered side sorted as documented: descending for < / <=, ascending for > / >=, nulls first
            let l = build_source(&case.left, &lcols, nk, &Layout::SortedSingle(vec![(nk, desc, true)])).map_err(h)?;
            let r = free_r()?;
            let n = r.output_partitioning().partition_count();
            Arc::new(PiecewiseMergeJoinExec::try_new(l, r, (col_expr(&lcols, nk), col_expr(&rcols, nk)), op, jt, n)?)
        }
    })
}

fn session_config(case: &Case) -> SessionConfig {
    let mut c = SessionConfig::new().with_batch_size((case.batch_size as usize).max(1));
    {
        let o = c.options_mut();
        o.execution.enforce_batch_size_in_joins = case.enforce_batch;
        match case.phj {
            1 => {
                o.execution.perfect_hash_join_small_build_threshold = 0;
                o.execution.perfect_hash_join_min_key_density = f64::INFINITY;
            }
            2 => {
                // array map for every key range below 64 Ki (density rule left at its default: a
                // density of 0.0 would ask for an array over the whole key range, e.g. 2^63 slots)
                o.execution.perfect_hash_join_small_build_threshold = 1 << 16;
            }
            _ => {}
        }
    }
    c
}

enum ExecOutcome {
    Rows(Vec<Vec<Row>>),
    Err(DfErr),
    Harness(String),
    Timeout,
}

async fn drain(mut s: datafusion_execution::SendableRecordBatchStream) -> Result<Vec<arrow::array::RecordBatch>, DfErr> {
    use futures::StreamExt;
    let mut out = vec![];
    while let Some(b) = s.next().await {
        out.push(b?);
    }
    Ok(out)
}

fn execute(case: &Case, plan: Arc<dyn ExecutionPlan>, env: &Env) -> ExecOutcome {
    let rt = if case.threads == 0 {
        tokio::runtime::Builder::new_current_thread().enable_time().build()
    } else {
        tokio::runtime::Builder::new_multi_thread().worker_threads(case.threads.clamp(1, 8) as usize).enable_time().build()
    };
    let rt = match rt {
        Ok(rt) => rt,
        Err(e) => return ExecOutcome::Harness(format!("tokio runtime: {e}")),
    };
    let ctx = env.ctx.clone();
    let consume = case.consume;
    let fut = async move {
        let plan: Arc<dyn ExecutionPlan> = if consume == Consume::Coalesce && plan.output_partitioning().partition_count() > 1 { Arc::new(CoalescePartitionsExec::new(plan)) } else { plan };
        let n = plan.output_partitioning().partition_count();
        let mut per: Vec<Vec<arrow::array::RecordBatch>> = vec![];
        match consume {
            Consume::Concurrent => {
                let mut streams = vec![];
                for p in 0..n {
                    streams.push(plan.execute(p, ctx.clone())?);
                }
                per = futures::future::try_join_all(streams.into_iter().map(drain)).await?;
            }
            _ => {
                for p in 0..n {
                    let s = plan.execute(p, ctx.clone())?;
                    per.push(drain(s).await?);
                }
            }
        }
        Ok::<_, DfErr>(per)
    };
    let res = rt.block_on(async { tokio::time::timeout(Duration::from_secs(20), fut).await });
    rt.shutdown_background();
    match res {
        Err(_) => ExecOutcome::Timeout,
        Ok(Err(e)) => ExecOutcome::Err(e),
        Ok(Ok(per)) => {
            let mut out = vec![];
            for batches in per {
                let mut rows = vec![];
                for b in &batches {
                    match batch_rows(b) {
                        Ok(r) => rows.extend(r),
                        Err(e) => return ExecOutcome::Harness(e),
                    }
                }
                out.push(rows);
            }
            ExecOutcome::Rows(out)
        }
    }
}

fn short(e: &DfErr) -> String {
    let s = e.to_string();
    let s = s.lines().next().unwrap_or("").to_string();
    s.chars().take(48).collect()
}

impl Property for C05 {
    type Case = Case;
    fn id(&self) -> &'static str {
        "C05"
    }
    fn sub(&self) -> &'static str {
        "c05"
    }
    fn strategy(&self, tier: Tier) -> BoxedStrategy<Case> {
        case_strategy(tier)
    }
    fn budget(&self, tier: Tier) -> Budget {
        let cases = std::env::var("VF_CASES").ok().and_then(|v| v.parse().ok()).unwrap_or(tier.pick(6_000, 400_000));
        Budget::new(cases, tier.pick(8, 16)).min_nontrivial(tier.pick(1_000, 50_000)).case_timeout(60)
    }
    fn rule(&self) -> String {
        "two generated tables (0-10 rows quick / 0-32 thorough; NULL/duplicate/extreme keys, batch cuts, partitions, Pending jitter) x join operator x 10 join types x NullEquality x optional residual filter x batch size/config; \
         non-trivial = both sides non-empty, >=1 matching pair and (an unmatched row on some side or a NULL key); distinct by case JSON"
            .into()
    }
    fn assumptions(&self) -> Vec<String> {
        vec![
            "reference = nested-loop evaluation with three-valued filter logic over plain rows; mark column = non-null 'has a match'; null-aware anti = SQL NOT IN".into(),
            "null-aware hash joins only in CollectLeft mode without residual filter (the only form the planner produces / documents)".into(),
            "merge-join inputs are sorted (and key-partitioned) by the harness with the engine's ordering convention (bytes-wise strings, NULL placement by nulls_first)".into(),
            "RepartitionExec (C10), CoalescePartitionsExec and expression evaluation are trusted as plumbing".into(),
        ]
    }
    fn run(&self, case: &Case) -> CaseResult {
        run_case(case)
    }
    fn known_signature(&self, case: &Case) -> Option<String> {
        known_shape(case)
    }
    fn extra(&self, _tier: Tier, _seed: u64) -> Result<serde_json::Value, (String, Case)> {
        // PiecewiseMergeJoin: the four unsupported join types are rejected cleanly at construction
        let mut n = 0;
        for jt in [JT::RightSemi, JT::RightAnti, JT::LeftMark, JT::RightMark] {
            let case = Case {
                op: Op::Piecewise,
                jt,
                null_eq_null: false,
                key: KeyKind::I32,
                left: SideSpec { rows: vec![RowSpec { k: vec![Val::I(1)], x: Val::I(1) }], cuts: vec![], parts: 1, pend: vec![] },
                right: SideSpec { rows: vec![RowSpec { k: vec![Val::I(1)], x: Val::I(2) }], cuts: vec![], parts: 1, pend: vec![] },
                filter: None,
                batch_size: 8192,
                enforce_batch: false,
                nparts: 1,
                sort: vec![(false, false), (false, false)],
                shj_part: false,
                shj_sorted: false,
                nlj_keys: false,
                pw_op: 0,
                phj: 0,
                projection: None,
                fetch: None,
                mem: None,
                consume: Consume::Sequential,
                threads: 0,
            };
            let pred = pred_of(&case);
            match build_plan(&case, &pred) {
                Err(BuildErr::Df(e)) if is_unsupported(&e) => n += 1,
                Err(BuildErr::Df(e)) => return Err((format!("PiecewiseMergeJoinExec::try_new({jt:?}) failed with a non-NotImplemented error: {e}"), case)),
                Err(BuildErr::Harness(e)) => return Err((format!("harness: {e}"), case)),
                Ok(_) => {
                    // became supported: it must then be correct
                    let r = run_case(&case);
                    if r.is_violation() {
                        return Err((format!("PiecewiseMergeJoin {jt:?} is accepted now but wrong: {:?}", r.outcome), case));
                    }
                }
            }
        }
        Ok(serde_json::json!({ "piecewise_unsupported_types_rejected_cleanly": n }))
    }
}

/// Shapes of the recorded (open) findings — see /verif/known_findings.json.
fn known_shape(case: &Case) -> Option<String> {
    if case.op == Op::SymHash && case.null_eq_null && case.left.rows.iter().chain(case.right.rows.iter()).any(|r| r.k.iter().any(|v| v.is_null())) {
        return Some("shj:null-equals-null:null-key".into());
    }
    if case.op == Op::HashNullAware && case.jt == JT::LeftAnti && case.filter.is_some() {
        return Some("hash-null-aware:left-anti:with-filter".into());
    }
    if case.op != Op::NestedLoop || case.mem.is_none() {
        return None;
    }
    if matches!(case.jt, JT::Right | JT::Full | JT::RightSemi | JT::RightAnti | JT::RightMark) {
        return Some("nlj-spill-fallback:right-side-emission-skipped".into());
    }
    if case.right.parts > 1 && matches!(case.jt, JT::Left | JT::LeftSemi | JT::LeftAnti | JT::LeftMark) {
        return Some("nlj-spill-fallback:multi-right-partitions:left-emitting".into());
    }
    None
}

pub fn run_case(case: &Case) -> CaseResult {
    let nk = case.key.types().len();
    for s in [&case.left, &case.right] {
        if s.rows.iter().any(|r| r.k.len() != nk) {
            return CaseResult::discard("outside domain: key width mismatch");
        }
    }
    if case.sort.len() < 2 {
        return CaseResult::discard("outside domain: sort options missing");
    }
    let pred = pred_of(case);
    let tag = format!("{:?}/{:?}", case.op, case.jt);
    let plan = match build_plan(case, &pred) {
        Ok(p) => p,
        Err(BuildErr::Harness(e)) => return CaseResult::discard(format!("outside domain: {e}")),
        Err(BuildErr::Df(e)) => {
            return CaseResult::discard(format!("{tag}: {}", short(&e))).label(format!("rejected {tag}"));
        }
    };
    let env = match make_env(session_config(case), case.mem.map(|(n, k)| (n as usize, k))) {
        Ok(e) => e,
        Err(e) => return CaseResult::inconclusive(format!("harness env: {e}")),
    };
    let outcome = execute(case, plan.clone(), &env);
    let mut labels: Vec<String> = vec![
        format!("op={:?}", case.op),
        format!("jt={:?}", case.jt),
        tag.clone(),
        format!("nulleq={}", case.null_eq_null),
        format!("batch_size={}", case.batch_size),
        format!("key={:?}", case.key),
        format!("consume={:?}", case.consume),
        if case.threads == 0 { "rt=current".into() } else { format!("rt=multi{}", case.threads) },
    ];
    match case.filter {
        None => labels.push("filter=none".into()),
        Some(f) => labels.push(
            format!("filter={f:?}")
                .split('(')
                .next()
                .map(|s| s.to_string())
                .unwrap_or_default(),
        ),
    }
    if case.mem.is_some() {
        labels.push("mem-limit".into());
    }
    if case.projection.is_some() {
        labels.push("projection".into());
    }
    if case.fetch.is_some() {
        labels.push("fetch".into());
    }
    if case.op == Op::SymHash {
        labels.push(format!("shj part={} sorted={}", case.shj_part, case.shj_sorted));
    }
    if case.op == Op::NestedLoop {
        labels.push(format!("nlj keys={}", case.nlj_keys));
    }
    let has_null_key = case.left.rows.iter().chain(case.right.rows.iter()).any(|r| r.k.iter().any(|v| v.is_null()));
    if has_null_key {
        labels.push("has-null-key".into());
    }
    if case.left.rows.is_empty() {
        labels.push("empty-left".into());
    }
    if case.right.rows.is_empty() {
        labels.push("empty-right".into());
    }
    let spilled = spill_count(&plan);
    if spilled > 0 {
        labels.push("spilled".into());
        labels.push(format!("spilled {:?}", case.op));
    }
    let array_maps = sum_metric(&plan, &|m| m.sum_by_name("array_map_created_count").map(|v| v.as_usize()));
    if array_maps > 0 {
        labels.push("array-map".into());
    }
    let per = match outcome {
        ExecOutcome::Harness(e) => return CaseResult::violation(format!("output not readable: {e}")).labels(labels),
        ExecOutcome::Timeout => return CaseResult::inconclusive(format!("timeout {tag}")).labels(labels),
        ExecOutcome::Err(e) => {
            if is_resources_exhausted(&e) && case.mem.is_some() {
                return CaseResult::inconclusive(format!("ResourcesExhausted {:?}", case.op)).labels(labels);
            }
            if is_unsupported(&e) {
                return CaseResult::discard(format!("{tag}: exec: {}", short(&e))).labels(labels).label(format!("rejected {tag}"));
            }
            return CaseResult::violation(format!("{tag}: execution failed on valid input: {e}")).labels(labels);
        }
        ExecOutcome::Rows(per) => per,
    };
    let refr = reference(case, &pred);
    let width = out_width(case);
    let expected: Vec<Row> = match &case.projection {
        Some(p) if matches!(case.op, Op::HashCollect | Op::HashPart | Op::NestedLoop | Op::SortMerge) => {
            let idx = projection_indices(p, width);
            refr.rows.iter().map(|r| idx.iter().map(|i| r[*i].clone()).collect()).collect()
        }
        _ => refr.rows.clone(),
    };
    let actual: Vec<Row> = per.iter().flatten().cloned().collect();
    let nontrivial = !case.left.rows.is_empty() && !case.right.rows.is_empty() && refr.matching_pairs > 0 && (refr.unmatched > 0 || has_null_key);
    if let (Some(f), true) = (case.fetch, matches!(case.op, Op::HashCollect | Op::HashPart)) {
        let f = f as usize;
        let (_missing, extra) = multiset_diff(&expected, &actual);
        if !extra.is_empty() {
            return CaseResult::violation(format!("{tag} fetch={f}: rows not in the join result: {}", fmt_rows(&extra, 6))).labels(labels);
        }
        // `fetch` limits every output partition of the join separately
        let join_parts = plan.output_partitioning().partition_count();
        if per.len() == join_parts {
            if let Some((p, rows)) = per.iter().enumerate().find(|(_, r)| r.len() > f) {
                return CaseResult::violation(format!("{tag} fetch={f}: output partition {p} produced {} rows", rows.len())).labels(labels);
            }
        } else if actual.len() > f * join_parts {
            return CaseResult::violation(format!("{tag} fetch={f}: {join_parts} partitions produced {} rows", actual.len())).labels(labels);
        }
        if actual.len() < f.min(expected.len()) {
            return CaseResult::violation(format!("{tag} fetch={f}: only {} rows of {} expected", actual.len(), expected.len())).labels(labels);
        }
        return CaseResult::pass().nontrivial(nontrivial).labels(labels);
    }
    let (missing, extra) = multiset_diff(&expected, &actual);
    if !missing.is_empty() || !extra.is_empty() {
        return CaseResult::violation(format!(
            "{tag} nulleq={} filter={:?}: expected {} rows, got {}; missing: {} unexpected: {}",
            case.null_eq_null,
            pred.filter,
            expected.len(),
            actual.len(),
            fmt_rows(&missing, 6),
            fmt_rows(&extra, 6)
        ))
        .labels(labels);
    }
    CaseResult::pass().nontrivial(nontrivial).labels(labels)
}
