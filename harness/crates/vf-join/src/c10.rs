//! C10 — repartitioning delivers every row exactly once to the right partition.
//!
//! `RepartitionExec` is constructed directly over a scripted multi-partition source (module
//! `source`: batch cuts incl. empty batches, `Pending` jitter) and its outputs are consumed by the
//! harness: on a current-thread runtime in a *generated order* (one `next()` at a time on the
//! chosen output, so the task interleaving is a function of the case), or on a 2/4-worker runtime
//! with one draining task per output. Some outputs are dropped early (after k batches, k ≥ 0).
//!
//! Domain: 1–5 inputs × 0–12 rows (quick) with 1–3 key columns (Int32/Int64/Utf8/LargeUtf8/
//! Utf8View/Boolean; NULLs, duplicates, extremes) + unique `id`; schemes Hash (first 1–3 key
//! columns, 1–8 outputs), Range (`RangePartitioning::try_new`, 1–2 key columns, every asc/desc ×
//! nulls first/last combination, 0–6 split points incl. NULL components, canonicalised to strictly
//! increasing), RoundRobinBatch (1–8); `with_preserve_order()` over inputs sorted (and declared
//! sorted) by the harness; `batch_size` ∈ {1,2,3,8192}; memory pool limit (Greedy / FairSpill, 0 B –
//! 100 kB, with a private spill directory) forcing the spill path; `max_spill_file_size_bytes` ∈
//! {default, 1, 400} forcing spill-file rotation.
//!
//! Oracle (all on row ids, so duplicates and losses are exact):
//!  1. no row id is delivered twice (within or across outputs) and delivered rows carry the input
//!     row's values; every *fully read* output delivers exactly the rows routed to it; a dropped
//!     output delivers a subset of them;
//!  2. routing — Hash: output = `create_hashes(keys, REPARTITION_RANDOM_STATE) % n` (the engine's
//!     own hash function is trusted here, C12 covers it; the modulo is recomputed with `%`), and
//!     independently equal keys are co-located; Range: output = number of split points ≤ key under
//!     the harness comparator (asc/desc, NULL placement, lexicographic), and `RangeExpr::evaluate`
//!     agrees row by row; RoundRobinBatch: all rows of an input batch reach the same output and
//!     consecutive non-empty batches of one input go to cyclically consecutive outputs (start offset
//!     free) — which implies per-input counts per output differing by ≤ 1;
//!  3. `preserve_order`: every output (also a partially read one) is sorted by the declared ordering.
//!
//! Outcomes: `ResourcesExhausted` under a memory limit = inconclusive; a `next()` that does not
//! return within 6 s / a run over 30 s = inconclusive; any other error = violation.
//! Non-trivial: ≥ 2 inputs, ≥ 2 outputs, ≥ 2 outputs received rows. Spill cases are labelled from
//! `SpillMetrics` (`spilled`).
//!
//! Deviations from DESIGN.md: crate `vf-join`; hash modulo is checked against plain `%` of the
//! engine's hash rather than re-implementing the hash; round-robin is checked as cyclic order
//! (stronger than the ≤ 1 balance, start offset left free because it is an implementation detail).
//!
//! Genuine defect found (reproduced on the unchanged tree; /verif/known_findings.json,
//! regressions/C10/c10/mpsc-spill-deadlock.json, repair fixes/C10-spill-pool-single-open-file.diff):
//! `repartition:mpsc-spill-deadlock:multi-thread` — not order preserving, ≥ 2 inputs, multi-thread
//! runtime, batches spilling: concurrent producers open several files in the shared spill pool, the
//! FIFO reader blocks on an exhausted-but-unfinished front file while unread batches sit in later
//! files, and the producers that could feed/finish that file are blocked on the channel gate because
//! the consumer (ReadingSpilled) no longer drains the channel → every task parked (gdb: all workers
//! in park), output never completes. With the repair (all producers append to the single open file)
//! `c10 quick` passes seeds 0-1 with the exclusion switched off and the stored case passes. The shape
//! (threads > 0 ∧ memory limit ∧ ≥ 2 inputs ∧ ¬preserve_order) is excluded from generation via
//! `known_signature`; when the stored case is replayed its stall is reported as a violation (hang) so
//! that the run prints KNOWN-FINDING — for every other shape a stall stays inconclusive.
//!
//! Sensitivity probes (tools/mkpatch + tools/mutrun; one mutated build, one mutation per scheme,
//! checked separately with `VF_C10_SCHEME=<scheme> VF_CASES=<share of the quick budget> vf-join c10
//! quick`; all exits 1):
//!  * R1 repartition/mod.rs `range_partition_id` — keys equal to a split point go to the lower
//!    partition: DETECTED after 2 cases ("RangeExpr::evaluate gives partition 0 … rule gives 1").
//!  * R4 `StrengthReducedU64::partition_indices` (power-of-two counts) uses `(hash >> 1) & mask`:
//!    DETECTED after 13 cases ("delivered to output 0, routing function demands 1").
//!  * R6 round-robin partitioner advances by 2: DETECTED after 7 cases ("not cyclic").
//!  * R2 `OutputChannel::finalize` drops single-row residual batches of the shared coalescer
//!    (DESIGN probe "lose the batch held in the shared coalescer"), full unfiltered `c10 quick`:
//!    DETECTED after 4 cases ("row 0 (NULL,0) never reached fully read output 0").
//!
//! `VF_C10_SCHEME` / `VF_CASES` / `VF_JOIN_SAVE_TIMEOUTS` / `VF_JOIN_SLOW` are probe / triage aids
//! only (default off; the evidence run never sets them).
use crate::data::*;
use crate::source::*;
use arrow::array::{Array, ArrayRef, RecordBatch};
use arrow::compute::SortOptions;
use datafusion_common::hash_utils::create_hashes;
use datafusion_common::{ScalarValue, SplitPoint};
use datafusion_execution::config::SessionConfig;
use datafusion_physical_expr::expressions::Column;
use datafusion_physical_expr::{LexOrdering, Partitioning, PhysicalExpr, PhysicalSortExpr, RangePartitioning};
use datafusion_physical_plan::repartition::{REPARTITION_RANDOM_STATE, RangeExpr, RepartitionExec};
use datafusion_physical_plan::{ExecutionPlan, ExecutionPlanProperties};
use futures::StreamExt;
use proptest::prelude::*;
use serde::{Deserialize, Serialize};
use std::collections::{BTreeMap, HashMap};
use std::sync::Arc;
use std::time::Duration;
use vf_kit::engine::*;

pub struct C10;

/// a single `next()` on an output that takes longer than this is reported as a stall
const POLL_TIMEOUT_S: u64 = 6;

#[derive(Clone, Debug, Serialize, Deserialize)]
pub struct InputSpec {
    /// key values per row
    pub rows: Vec<Vec<Val>>,
    pub cuts: Vec<u16>,
    pub pend: Vec<u8>,
}

#[derive(Clone, Debug, Serialize, Deserialize)]
pub enum Scheme {
    /// hash of the first `ncols` key columns into `n` outputs
    Hash { ncols: u8, n: u8 },
    /// range over the first `opts.len()` key columns
    Range { opts: Vec<(bool, bool)>, splits: Vec<Vec<Val>> },
    RoundRobin { n: u8 },
}

#[derive(Clone, Debug, Serialize, Deserialize)]
pub struct Case {
    pub key_types: Vec<Ty>,
    pub inputs: Vec<InputSpec>,
    pub scheme: Scheme,
    pub preserve_order: bool,
    /// ordering of the inputs (used when preserve_order): (descending, nulls_first) per key column
    pub order: Vec<(bool, bool)>,
    pub batch_size: u16,
    pub mem: Option<(u32, PoolKind)>,
    pub max_spill_file: Option<u32>,
    /// (output choice, drop after k batches)
    pub drops: Vec<(u16, u8)>,
    /// consumption order on the current-thread runtime
    pub schedule: Vec<u16>,
    /// 0 = current thread + schedule; else worker threads, one draining task per output
    pub threads: u8,
}

// ------------------------------------------------------------------------------------------------
// generators

fn val_of(ty: Ty) -> BoxedStrategy<Val> {
    match ty {
        Ty::I32 => prop_oneof![
            2 => Just(Val::Null),
            10 => (-2i64..6).prop_map(Val::I),
            1 => prop::sample::select(vec![i32::MIN as i64, i32::MAX as i64, 100, -100]).prop_map(Val::I),
        ]
        .boxed(),
        Ty::I64 => prop_oneof![
            2 => Just(Val::Null),
            10 => (-2i64..6).prop_map(Val::I),
            1 => prop::sample::select(vec![i64::MIN, i64::MAX, 1 << 40, -(1 << 40)]).prop_map(Val::I),
        ]
        .boxed(),
        Ty::Bool => prop_oneof![1 => Just(Val::Null), 4 => any::<bool>().prop_map(Val::B)].boxed(),
        _ => prop_oneof![
            2 => Just(Val::Null),
            10 => prop::sample::select(vec!["", "a", "b", "ab", "ba", "B", "é", "zz", "a long string beyond twelve bytes"]).prop_map(|s| Val::S(s.to_string())),
        ]
        .boxed(),
    }
}

fn row_of(types: &[Ty]) -> BoxedStrategy<Vec<Val>> {
    let mut s: BoxedStrategy<Vec<Val>> = Just(vec![]).boxed();
    for t in types {
        let t = *t;
        s = (s, val_of(t))
            .prop_map(|(mut v, x)| {
                v.push(x);
                v
            })
            .boxed();
    }
    s
}

fn case_strategy(tier: Tier) -> BoxedStrategy<Case> {
    let max_rows = tier.pick(12usize, 60usize);
    let hash_ty = prop::sample::select(vec![Ty::I32, Ty::I64, Ty::Utf8, Ty::LargeUtf8, Ty::Utf8View, Ty::Bool]);
    let range_ty = prop::sample::select(vec![Ty::I32, Ty::I64, Ty::Utf8, Ty::I32, Ty::Utf8View]);
    // 0 hash, 1 range, 2 round robin. Probe aid (default off): VF_C10_SCHEME=hash|range|rr restricts
    // generation to one scheme so that several single-scheme mutations can share one mutated build.
    let kinds = match std::env::var("VF_C10_SCHEME").ok().as_deref() {
        Some("hash") => vec![0u8],
        Some("range") => vec![1u8],
        Some("rr") => vec![2u8],
        _ => vec![0u8, 0, 1, 1, 2],
    };
    (prop::sample::select(kinds), prop::collection::vec(hash_ty, 1..=3), prop::collection::vec(range_ty, 1..=2))
        .prop_flat_map(move |(kind, hash_types, range_types)| {
            let types = if kind == 1 { range_types } else { hash_types };
            let nk = types.len();
            let t2 = types.clone();
            let scheme: BoxedStrategy<Scheme> = match kind {
                0 => ((1u8..=nk as u8), (1u8..=8)).prop_map(|(ncols, n)| Scheme::Hash { ncols, n }).boxed(),
                1 => (1usize..=nk)
                    .prop_flat_map(move |w| {
                        let tt: Vec<Ty> = t2[..w].to_vec();
                        (prop::collection::vec((any::<bool>(), any::<bool>()), w), prop::collection::vec(row_of(&tt), 0..=6)).prop_map(|(opts, splits)| Scheme::Range { opts, splits })
                    })
                    .boxed(),
                _ => (1u8..=8).prop_map(|n| Scheme::RoundRobin { n }).boxed(),
            };
            let input = (prop::collection::vec(row_of(&types), 0..=max_rows), prop::collection::vec(any::<u16>(), 0..5), prop::collection::vec(0u8..3, 0..3)).prop_map(|(rows, cuts, pend)| InputSpec { rows, cuts, pend });
            let mem = prop_oneof![
                tier.pick(4, 3) => Just(None),
                tier.pick(1, 2) => (prop::sample::select(vec![0u32, 1, 300, 2000, 100000]), prop::sample::select(vec![PoolKind::Greedy, PoolKind::Fair])).prop_map(Some),
            ];
            (
                (Just(types), prop::collection::vec(input, 1..=5), scheme, prop::bool::weighted(0.3), prop::collection::vec((any::<bool>(), any::<bool>()), 3)),
                (
                    prop::sample::select(vec![1u16, 2, 3, 8192, 8192]),
                    mem,
                    prop::option::weighted(0.3, prop::sample::select(vec![1u32, 400])),
                    prop_oneof![3 => Just(vec![]), 2 => prop::collection::vec((any::<u16>(), 0u8..4), 1..4)],
                    prop::collection::vec(any::<u16>(), 0..24),
                    prop::sample::select(vec![0u8, 0, 0, 0, 2, 2, 4]),
                ),
            )
                .prop_map(|((key_types, inputs, scheme, preserve_order, order), (batch_size, mem, max_spill_file, drops, schedule, threads))| Case {
                    key_types,
                    inputs,
                    scheme,
                    preserve_order,
                    order,
                    batch_size,
                    mem,
                    max_spill_file,
                    drops,
                    schedule,
                    threads,
                })
        })
        .boxed()
}

// ------------------------------------------------------------------------------------------------

fn scalar_of(ty: Ty, v: &Val) -> Result<ScalarValue, String> {
    Ok(match (ty, v) {
        (Ty::I32, Val::Null) => ScalarValue::Int32(None),
        (Ty::I32, Val::I(i)) => ScalarValue::Int32(Some(i32::try_from(*i).map_err(|_| "i32 range".to_string())?)),
        (Ty::I64, Val::Null) => ScalarValue::Int64(None),
        (Ty::I64, Val::I(i)) => ScalarValue::Int64(Some(*i)),
        (Ty::Bool, Val::Null) => ScalarValue::Boolean(None),
        (Ty::Bool, Val::B(b)) => ScalarValue::Boolean(Some(*b)),
        (Ty::Utf8, Val::Null) => ScalarValue::Utf8(None),
        (Ty::Utf8, Val::S(s)) => ScalarValue::Utf8(Some(s.clone())),
        (Ty::LargeUtf8, Val::Null) => ScalarValue::LargeUtf8(None),
        (Ty::LargeUtf8, Val::S(s)) => ScalarValue::LargeUtf8(Some(s.clone())),
        (Ty::Utf8View, Val::Null) => ScalarValue::Utf8View(None),
        (Ty::Utf8View, Val::S(s)) => ScalarValue::Utf8View(Some(s.clone())),
        (t, v) => return Err(format!("value {v} does not fit {t:?}")),
    })
}

struct RowMeta {
    input: usize,
    /// sequence number among the non-empty batches of its input
    batch: usize,
    /// sequence number among all batches of its input (empty ones included)
    batch_all: usize,
    row: Row,
    /// output demanded by the routing function (Hash / Range); None for round robin
    expect: Option<usize>,
}

struct OutRead {
    batches: Vec<RecordBatch>,
    finished: bool,
}

enum Fail {
    Df(datafusion_common::DataFusionError),
    Timeout(String),
    Harness(String),
}

async fn drive_scheduled(mut streams: Vec<Option<datafusion_execution::SendableRecordBatchStream>>, schedule: &[u16], drop_after: &[Option<usize>]) -> Result<Vec<OutRead>, Fail> {
    let n = streams.len();
    let mut reads: Vec<OutRead> = (0..n).map(|_| OutRead { batches: vec![], finished: false }).collect();
    let mut active: Vec<usize> = vec![];
    for o in 0..n {
        if drop_after[o] == Some(0) {
            streams[o] = None;
        } else {
            active.push(o);
        }
    }
    let mut step = 0usize;
    while !active.is_empty() {
        let pick = if step < schedule.len() { pick_index(schedule[step], active.len()) } else { (step - schedule.len()) % active.len() };
        step += 1;
        let o = active[pick];
        let Some(s) = streams[o].as_mut() else {
            active.remove(pick);
            continue;
        };
        match tokio::time::timeout(Duration::from_secs(POLL_TIMEOUT_S), s.next()).await {
            Err(_) => return Err(Fail::Timeout(format!("output {o} did not answer within {POLL_TIMEOUT_S} s"))),
            Ok(None) => {
                reads[o].finished = true;
                streams[o] = None;
                active.remove(pick);
            }
            Ok(Some(Err(e))) => return Err(Fail::Df(e)),
            Ok(Some(Ok(b))) => {
                reads[o].batches.push(b);
                if let Some(k) = drop_after[o] {
                    if reads[o].batches.len() >= k {
                        streams[o] = None;
                        active.remove(pick);
                    }
                }
            }
        }
    }
    Ok(reads)
}

async fn drive_tasks(streams: Vec<Option<datafusion_execution::SendableRecordBatchStream>>, drop_after: &[Option<usize>]) -> Result<Vec<OutRead>, Fail> {
    let mut handles = vec![];
    for (o, s) in streams.into_iter().enumerate() {
        let k = drop_after[o];
        handles.push(tokio::spawn(async move {
            let mut read = OutRead { batches: vec![], finished: false };
            let Some(mut s) = s else { return Ok(read) };
            if k == Some(0) {
                return Ok(read);
            }
            loop {
                match tokio::time::timeout(Duration::from_secs(POLL_TIMEOUT_S), s.next()).await {
                    Err(_) => return Err(Fail::Timeout(format!("output {o} did not answer within {POLL_TIMEOUT_S} s"))),
                    Ok(None) => {
                        read.finished = true;
                        return Ok(read);
                    }
                    Ok(Some(Err(e))) => return Err(Fail::Df(e)),
                    Ok(Some(Ok(b))) => {
                        read.batches.push(b);
                        if let Some(k) = k {
                            if read.batches.len() >= k {
                                return Ok(read);
                            }
                        }
                    }
                }
            }
        }));
    }
    let mut out = vec![];
    for h in handles {
        match h.await {
            Ok(Ok(r)) => out.push(r),
            Ok(Err(f)) => return Err(f),
            Err(e) => {
                if e.is_panic() {
                    std::panic::resume_unwind(e.into_panic());
                }
                return Err(Fail::Harness(format!("join error: {e}")));
            }
        }
    }
    Ok(out)
}

impl Property for C10 {
    type Case = Case;
    fn id(&self) -> &'static str {
        "C10"
    }
    fn sub(&self) -> &'static str {
        "c10"
    }
    fn strategy(&self, tier: Tier) -> BoxedStrategy<Case> {
        case_strategy(tier)
    }
    fn budget(&self, tier: Tier) -> Budget {
        let cases = std::env::var("VF_CASES").ok().and_then(|v| v.parse().ok()).unwrap_or(tier.pick(1_500, 120_000));
        Budget::new(cases, tier.pick(8, 16)).min_nontrivial(tier.pick(250, 20_000)).case_timeout(90)
    }
    fn rule(&self) -> String {
        "1-5 scripted input partitions (0-12 rows quick / 0-60 thorough, NULL/duplicate keys, cuts, jitter) x Hash/Range/RoundRobin x 1-8 outputs x preserve_order x batch size x memory limit (spill) x early drops x generated consumption order or multi-thread; \
         non-trivial = >=2 inputs, >=2 outputs, >=2 outputs received rows; distinct by case JSON"
            .into()
    }
    fn assumptions(&self) -> Vec<String> {
        vec![
            "the row hash function itself (create_hashes with REPARTITION_RANDOM_STATE) is trusted; only hash -> partition index and placement are checked".into(),
            "round robin means cyclic order of an input's non-empty batches over the outputs (start offset unspecified)".into(),
            "inputs of preserve_order runs are sorted by the harness with the engine's ordering convention".into(),
        ]
    }
    fn run(&self, case: &Case) -> CaseResult {
        let t0 = std::time::Instant::now();
        let r = run_case(case);
        if std::env::var_os("VF_JOIN_SLOW").is_some() && t0.elapsed().as_millis() > 500 {
            eprintln!("SLOW {} ms: {:?} scheme={:?} threads={} mem={:?} preserve={} inputs={} drops={:?}", t0.elapsed().as_millis(), r.outcome, case.scheme, case.threads, case.mem, case.preserve_order, case.inputs.len(), case.drops);
        }
        r
    }
    fn known_signature(&self, case: &Case) -> Option<String> {
        known_shape(case)
    }
}

/// Shape of the recorded (open) finding "spill deadlock of the shared multi-producer spill pool":
/// needs >= 2 producers (inputs) running truly concurrently (multi-thread runtime), the shared
/// (non-preserve-order) spill pool and a memory limit that makes batches spill.
fn known_shape(case: &Case) -> Option<String> {
    if case.threads > 0 && case.mem.is_some() && case.inputs.len() >= 2 && !case.preserve_order {
        return Some("repartition:mpsc-spill-deadlock:multi-thread".into());
    }
    None
}

/// Debug aid: with VF_JOIN_SAVE_TIMEOUTS set, cases that hit the per-poll timeout are written to
/// /verif/replays/c10-timeout-*.json so that a hang can be replayed and triaged.
fn save_timeout(case: &Case) {
    if std::env::var_os("VF_JOIN_SAVE_TIMEOUTS").is_none() {
        return;
    }
    if let Ok(text) = serde_json::to_string_pretty(case) {
        let dir = verif_root().join("replays");
        let _ = std::fs::create_dir_all(&dir);
        let _ = std::fs::write(dir.join(format!("c10-timeout-{:016x}.json", fnv1a(text.as_bytes()))), text);
    }
}

fn canonical_splits(splits: &[Vec<Val>], opts: &[(bool, bool)]) -> Vec<Vec<Val>> {
    let mut s: Vec<Vec<Val>> = splits.iter().filter(|r| r.len() == opts.len()).cloned().collect();
    s.sort_by(|a, b| cmp_keys(a, b, opts));
    s.dedup_by(|a, b| cmp_keys(a, b, opts) == std::cmp::Ordering::Equal);
    s
}

pub fn run_case(case: &Case) -> CaseResult {
    let nk = case.key_types.len();
    if nk == 0 || case.inputs.is_empty() || case.order.len() < nk {
        return CaseResult::discard("outside domain: empty schema / inputs");
    }
    if case.inputs.iter().any(|i| i.rows.iter().any(|r| r.len() != nk)) {
        return CaseResult::discard("outside domain: row width");
    }
    let mut cols: Vec<ColDef> = case.key_types.iter().enumerate().map(|(i, t)| ColDef::new(&format!("k{i}"), *t, true)).collect();
    cols.push(ColDef::new("id", Ty::I64, false));
    let schema = schema_of(&cols);
    let key_expr = |i: usize| -> Arc<dyn PhysicalExpr> { Arc::new(Column::new(&cols[i].name, i)) };
    let order_by: Vec<(bool, bool)> = case.order[..nk].to_vec();

    // ---- inputs
    let mut meta: Vec<RowMeta> = vec![];
    let mut scripts = vec![];
    let mut input_batches: Vec<Vec<RecordBatch>> = vec![];
    for (i, inp) in case.inputs.iter().enumerate() {
        let mut keys: Vec<Vec<Val>> = inp.rows.clone();
        if case.preserve_order {
            keys.sort_by(|a, b| cmp_keys(a, b, &order_by));
        }
        let mut batches = vec![];
        let mut seq = 0usize;
        for (seq_all, (a, b)) in cut_ranges(keys.len(), &inp.cuts).into_iter().enumerate() {
            let mut rows: Vec<Row> = vec![];
            for k in &keys[a..b] {
                let mut r = k.clone();
                r.push(Val::I(meta.len() as i64));
                meta.push(RowMeta { input: i, batch: seq, batch_all: seq_all, row: r.clone(), expect: None });
                rows.push(r);
            }
            if b > a {
                seq += 1;
            }
            let refs: Vec<&Row> = rows.iter().collect();
            match to_batch(&schema, &cols, &refs) {
                Ok(rb) => batches.push(rb),
                Err(e) => return CaseResult::discard(format!("outside domain: {e}")),
            }
        }
        input_batches.push(batches.clone());
        scripts.push(script(batches, &inp.pend));
    }
    let ordering = if case.preserve_order {
        LexOrdering::new((0..nk).map(|i| PhysicalSortExpr::new(key_expr(i), SortOptions::new(order_by[i].0, order_by[i].1))).collect::<Vec<_>>())
    } else {
        None
    };
    let source: Arc<dyn ExecutionPlan> = Arc::new(ScriptedExec::new(schema.clone(), scripts, ordering));

    // ---- partitioning + routing oracle
    let mut labels: Vec<String> = vec![];
    let (partitioning, n_out) = match &case.scheme {
        Scheme::Hash { ncols, n } => {
            let w = (*ncols as usize).clamp(1, nk);
            let n = (*n).max(1) as usize;
            labels.push("scheme=hash".into());
            labels.push(format!("hash keys={w}"));
            // expected output per row from the engine's hash + plain modulo
            for (i, batches) in input_batches.iter().enumerate() {
                for b in batches {
                    if b.num_rows() == 0 {
                        continue;
                    }
                    let arrays: Vec<ArrayRef> = (0..w).map(|c| b.column(c).clone()).collect();
                    let mut buf = vec![0u64; b.num_rows()];
                    if let Err(e) = create_hashes(&arrays, REPARTITION_RANDOM_STATE.random_state(), &mut buf) {
                        return CaseResult::violation(format!("create_hashes failed on input {i}: {e}"));
                    }
                    let ids = match batch_rows(b) {
                        Ok(r) => r,
                        Err(e) => return CaseResult::discard(format!("harness: {e}")),
                    };
                    for (r, h) in ids.iter().zip(buf.iter()) {
                        if let Some(Val::I(id)) = r.last() {
                            meta[*id as usize].expect = Some((*h % n as u64) as usize);
                        }
                    }
                }
            }
            (Partitioning::Hash((0..w).map(key_expr).collect(), n), n)
        }
        Scheme::Range { opts, splits } => {
            let w = opts.len().clamp(1, nk);
            let opts: Vec<(bool, bool)> = opts[..w.min(opts.len())].to_vec();
            if opts.len() != w {
                return CaseResult::discard("outside domain: range options");
            }
            let splits = canonical_splits(splits, &opts);
            labels.push("scheme=range".into());
            labels.push(format!("range keys={w} splits={}", splits.len()));
            if splits.iter().any(|s| s.iter().any(|v| v.is_null())) {
                labels.push("range null-split".into());
            }
            let Some(lex) = LexOrdering::new((0..w).map(|i| PhysicalSortExpr::new(key_expr(i), SortOptions::new(opts[i].0, opts[i].1))).collect::<Vec<_>>()) else {
                return CaseResult::discard("outside domain: empty range ordering");
            };
            let mut points = vec![];
            for s in &splits {
                let mut vals = vec![];
                for (i, v) in s.iter().enumerate() {
                    match scalar_of(case.key_types[i], v) {
                        Ok(sv) => vals.push(sv),
                        Err(e) => return CaseResult::discard(format!("outside domain: split point {e}")),
                    }
                }
                points.push(SplitPoint::new(vals));
            }
            let rp = match RangePartitioning::try_new(lex, points) {
                Ok(rp) => rp,
                Err(e) => return CaseResult::violation(format!("RangePartitioning::try_new rejected strictly increasing split points {splits:?} under {opts:?}: {e}")),
            };
            for m in meta.iter_mut() {
                let key = &m.row[..w];
                m.expect = Some(splits.iter().filter(|s| cmp_keys(s, key, &opts) != std::cmp::Ordering::Greater).count());
            }
            // RangeExpr must agree with the split-point rule row by row
            let rexpr = match RangeExpr::try_new((0..w).map(key_expr).collect(), &rp) {
                Ok(e) => e,
                Err(e) => return CaseResult::violation(format!("RangeExpr::try_new failed: {e}")),
            };
            for batches in &input_batches {
                for b in batches {
                    if b.num_rows() == 0 {
                        continue;
                    }
                    let got = match rexpr.evaluate(b).and_then(|v| v.into_array(b.num_rows())) {
                        Ok(a) => a,
                        Err(e) => return CaseResult::violation(format!("RangeExpr::evaluate failed: {e}")),
                    };
                    let Some(got) = got.as_any().downcast_ref::<arrow::array::UInt64Array>() else {
                        return CaseResult::violation("RangeExpr::evaluate did not return UInt64");
                    };
                    let rows = match batch_rows(b) {
                        Ok(r) => r,
                        Err(e) => return CaseResult::discard(format!("harness: {e}")),
                    };
                    for (j, r) in rows.iter().enumerate() {
                        if let Some(Val::I(id)) = r.last() {
                            let want = meta[*id as usize].expect.unwrap_or(usize::MAX);
                            if got.is_null(j) || got.value(j) as usize != want {
                                return CaseResult::violation(format!(
                                    "RangeExpr::evaluate gives partition {} for key {} but the split-point rule gives {want} (splits {splits:?}, options {opts:?})",
                                    got.value(j),
                                    fmt_rows(&[r[..w].to_vec()], 1)
                                ));
                            }
                        }
                    }
                }
            }
            let n = rp.partition_count();
            (Partitioning::Range(rp), n)
        }
        Scheme::RoundRobin { n } => {
            labels.push("scheme=roundrobin".into());
            let n = (*n).max(1) as usize;
            (Partitioning::RoundRobinBatch(n), n)
        }
    };
    labels.push(format!("outputs={n_out}"));
    labels.push(format!("inputs={}", case.inputs.len()));
    labels.push(format!("batch_size={}", case.batch_size));

    let exec = match RepartitionExec::try_new(source, partitioning) {
        Ok(e) => e,
        Err(e) => return CaseResult::discard(format!("try_new: {e}")),
    };
    let exec = if case.preserve_order { exec.with_preserve_order() } else { exec };
    let preserving = exec.preserve_order();
    if preserving {
        labels.push("preserve_order".into());
    }
    let plan: Arc<dyn ExecutionPlan> = Arc::new(exec);
    if plan.output_partitioning().partition_count() != n_out {
        return CaseResult::violation(format!("declared partition count {} != {n_out}", plan.output_partitioning().partition_count()));
    }

    let mut config = SessionConfig::new().with_batch_size((case.batch_size as usize).max(1));
    if let Some(m) = case.max_spill_file {
        config = config.set_usize("datafusion.execution.max_spill_file_size_bytes", (m as usize).max(1));
        labels.push("small-spill-files".into());
    }
    let env = match make_env(config, case.mem.map(|(n, k)| (n as usize, k))) {
        Ok(e) => e,
        Err(e) => return CaseResult::inconclusive(format!("harness env: {e}")),
    };
    if case.mem.is_some() {
        labels.push("mem-limit".into());
    }

    let mut drop_after: Vec<Option<usize>> = vec![None; n_out];
    for (o, k) in &case.drops {
        drop_after[pick_index(*o, n_out)] = Some(*k as usize);
    }
    if drop_after.iter().any(|d| d.is_some()) {
        labels.push("early-drop".into());
    }
    labels.push(if case.threads == 0 { "rt=current+schedule".to_string() } else { format!("rt=multi{}", case.threads) });

    let rt = if case.threads == 0 {
        tokio::runtime::Builder::new_current_thread().enable_time().build()
    } else {
        tokio::runtime::Builder::new_multi_thread().worker_threads(case.threads.clamp(1, 8) as usize).enable_time().build()
    };
    let rt = match rt {
        Ok(rt) => rt,
        Err(e) => return CaseResult::inconclusive(format!("tokio runtime: {e}")),
    };
    let ctx = env.ctx.clone();
    let plan2 = plan.clone();
    let threads = case.threads;
    let schedule = case.schedule.clone();
    let drop2 = drop_after.clone();
    let fut = async move {
        let mut streams = vec![];
        for p in 0..n_out {
            streams.push(Some(plan2.execute(p, ctx.clone()).map_err(Fail::Df)?));
        }
        if threads == 0 { drive_scheduled(streams, &schedule, &drop2).await } else { drive_tasks(streams, &drop2).await }
    };
    let res = rt.block_on(async { tokio::time::timeout(Duration::from_secs(30), fut).await });
    rt.shutdown_background();
    let spilled = spill_count(&plan);
    if spilled > 0 {
        labels.push("spilled".into());
        if preserving {
            labels.push("spilled+preserve_order".into());
        }
    }
    let reads = match res {
        Err(_) => return CaseResult::inconclusive("timeout: run exceeded 30 s").labels(labels),
        Ok(Err(Fail::Timeout(m))) => {
            save_timeout(case);
            if known_shape(case).is_some() && spilled > 0 {
                // only reachable when replaying the stored case of the known finding (the shape is
                // excluded from generation): a stall of 10 s on a few dozen rows with every runtime
                // worker parked is the recorded deadlock
                return CaseResult::violation(format!("hang: {m} (spilled batches: {spilled})")).labels(labels);
            }
            return CaseResult::inconclusive(format!("timeout: {m}")).labels(labels);
        }
        Ok(Err(Fail::Harness(m))) => return CaseResult::inconclusive(format!("harness: {m}")).labels(labels),
        Ok(Err(Fail::Df(e))) => {
            if case.mem.is_some() && is_resources_exhausted(&e) {
                return CaseResult::inconclusive(if preserving { "ResourcesExhausted (preserve_order)" } else { "ResourcesExhausted" }).labels(labels);
            }
            return CaseResult::violation(format!("repartition failed on valid input: {e}")).labels(labels);
        }
        Ok(Ok(r)) => r,
    };

    // ---- checks
    let mut seen: HashMap<i64, usize> = HashMap::new(); // id -> output
    let mut per_out_ids: Vec<Vec<i64>> = vec![vec![]; n_out];
    for (o, rd) in reads.iter().enumerate() {
        let mut prev: Option<Row> = None;
        for b in &rd.batches {
            if b.schema().fields().len() != cols.len() {
                return CaseResult::violation(format!("output {o}: batch with {} columns", b.num_columns())).labels(labels);
            }
            let rows = match batch_rows(b) {
                Ok(r) => r,
                Err(e) => return CaseResult::violation(format!("output {o}: unreadable batch: {e}")).labels(labels),
            };
            for r in rows {
                let Some(Val::I(id)) = r.last().cloned() else {
                    return CaseResult::violation(format!("output {o}: row without id: {}", fmt_rows(&[r], 1))).labels(labels);
                };
                let Some(m) = meta.get(id as usize) else {
                    return CaseResult::violation(format!("output {o}: unknown row id {id}")).labels(labels);
                };
                if m.row != r {
                    return CaseResult::violation(format!("output {o}: row {id} changed: sent {} received {}", fmt_rows(&[m.row.clone()], 1), fmt_rows(&[r], 1))).labels(labels);
                }
                if let Some(prev_o) = seen.insert(id, o) {
                    return CaseResult::violation(format!("row {id} {} delivered twice (outputs {prev_o} and {o})", fmt_rows(&[m.row.clone()], 1))).labels(labels);
                }
                if let Some(want) = m.expect {
                    if want != o {
                        return CaseResult::violation(format!("row {} delivered to output {o}, routing function demands {want} ({:?})", fmt_rows(&[m.row.clone()], 1), case.scheme)).labels(labels);
                    }
                }
                if preserving {
                    if let Some(p) = &prev {
                        if cmp_keys(&p[..nk], &r[..nk], &order_by) == std::cmp::Ordering::Greater {
                            return CaseResult::violation(format!("output {o} not sorted under {order_by:?}: {} before {}", fmt_rows(&[p.clone()], 1), fmt_rows(&[r.clone()], 1))).labels(labels);
                        }
                    }
                    prev = Some(r.clone());
                }
                per_out_ids[o].push(id);
            }
        }
    }
    // equal hash keys co-located (independent of the hash value)
    if let Scheme::Hash { ncols, .. } = &case.scheme {
        let w = (*ncols as usize).clamp(1, nk);
        let mut place: BTreeMap<Vec<Val>, usize> = BTreeMap::new();
        for (id, o) in &seen {
            let k = meta[*id as usize].row[..w].to_vec();
            if let Some(prev) = place.insert(k.clone(), *o) {
                if prev != *o {
                    return CaseResult::violation(format!("equal hash keys {} delivered to outputs {prev} and {o}", fmt_rows(&[k], 1))).labels(labels);
                }
            }
        }
    }
    // completeness of fully read outputs
    match &case.scheme {
        Scheme::RoundRobin { .. } => {
            // batch -> output, cyclic per input
            let mut batch_out: BTreeMap<(usize, usize), usize> = BTreeMap::new();
            for (id, o) in &seen {
                let m = &meta[*id as usize];
                if let Some(prev) = batch_out.insert((m.input, m.batch), *o) {
                    if prev != *o {
                        return CaseResult::violation(format!("round robin: batch {} of input {} split over outputs {prev} and {o}", m.batch, m.input)).labels(labels);
                    }
                }
            }
            for i in 0..case.inputs.len() {
                let nb = meta.iter().filter(|m| m.input == i).map(|m| m.batch + 1).max().unwrap_or(0);
                // position of the j-th non-empty batch in the cycle: the engine skips empty batches
                // before routing; a cycle that also counts them would be round robin just as well,
                // so either numbering is accepted (whichever is consistent for this input)
                let pos_all: Vec<usize> = (0..nb).map(|j| meta.iter().find(|m| m.input == i && m.batch == j).map(|m| m.batch_all).unwrap_or(j)).collect();
                let pos_nonempty: Vec<usize> = (0..nb).collect();
                let mut chosen: Option<(usize, &Vec<usize>)> = None;
                let mut first_err = None;
                for pos in [&pos_nonempty, &pos_all] {
                    let mut start: Option<usize> = None;
                    let mut ok = true;
                    for j in 0..nb {
                        if let Some(o) = batch_out.get(&(i, j)) {
                            let s = (*o + n_out - (pos[j] % n_out)) % n_out;
                            match start {
                                None => start = Some(s),
                                Some(s0) if s0 != s => {
                                    ok = false;
                                    if first_err.is_none() {
                                        first_err = Some(format!("round robin: input {i} batch {j} went to output {o}, not cyclic with the earlier batches (start {s0}, {n_out} outputs)"));
                                    }
                                    break;
                                }
                                _ => {}
                            }
                        }
                    }
                    if ok {
                        chosen = start.map(|s| (s, pos));
                        first_err = None;
                        break;
                    }
                }
                if let Some(e) = first_err {
                    return CaseResult::violation(e).labels(labels);
                }
                if let Some((s, pos)) = chosen {
                    for j in 0..nb {
                        let o = (s + pos[j]) % n_out;
                        if reads[o].finished {
                            let want: Vec<i64> = meta.iter().enumerate().filter(|(_, m)| m.input == i && m.batch == j).map(|(id, _)| id as i64).collect();
                            if let Some(id) = want.iter().find(|id| seen.get(id) != Some(&o)) {
                                return CaseResult::violation(format!("round robin: row {id} (input {i}, batch {j}) never reached fully read output {o}")).labels(labels);
                            }
                        }
                    }
                }
            }
            if reads.iter().all(|r| r.finished) && seen.len() != meta.len() {
                let lost: Vec<usize> = (0..meta.len()).filter(|id| !seen.contains_key(&(*id as i64))).take(5).collect();
                return CaseResult::violation(format!("{} of {} rows lost although every output was read to the end (first ids {lost:?})", meta.len() - seen.len(), meta.len())).labels(labels);
            }
        }
        _ => {
            for (id, m) in meta.iter().enumerate() {
                if let Some(o) = m.expect {
                    if o >= n_out {
                        return CaseResult::violation(format!("routing oracle demands output {o} of {n_out}")).labels(labels);
                    }
                    if reads[o].finished && !seen.contains_key(&(id as i64)) {
                        return CaseResult::violation(format!("row {id} {} never reached fully read output {o}", fmt_rows(&[m.row.clone()], 1))).labels(labels);
                    }
                }
            }
        }
    }
    let nonempty = per_out_ids.iter().filter(|v| !v.is_empty()).count();
    let nt = case.inputs.len() >= 2 && n_out >= 2 && nonempty >= 2;
    if reads.iter().all(|r| r.finished) {
        labels.push("all-read".into());
    }
    CaseResult::pass().nontrivial(nt).labels(labels)
}
