//! Scripted source `ExecutionPlan` (batches + `Pending` jitter per partition, optional declared
//! ordering), task-context construction and guarded execution helpers shared by C05 and C10.
use arrow::array::RecordBatch;
use arrow::datatypes::SchemaRef;
use datafusion_common::tree_node::TreeNodeRecursion;
use datafusion_common::{DataFusionError, Result};
use datafusion_execution::config::SessionConfig;
use datafusion_execution::disk_manager::{DiskManagerBuilder, DiskManagerMode};
use datafusion_execution::memory_pool::{FairSpillPool, GreedyMemoryPool, MemoryPool};
use datafusion_execution::runtime_env::RuntimeEnvBuilder;
use datafusion_execution::{RecordBatchStream, SendableRecordBatchStream, TaskContext};
use datafusion_physical_expr::{EquivalenceProperties, LexOrdering, Partitioning, PhysicalExpr};
use datafusion_physical_plan::execution_plan::{Boundedness, EmissionType};
use datafusion_physical_plan::{ChildrenPropertiesMode, DisplayAs, DisplayFormatType, ExecutionPlan, PlanProperties, ReplaceChildrenOptions};
use futures::Stream;
use std::collections::VecDeque;
use std::pin::Pin;
use std::sync::Arc;
use std::sync::atomic::{AtomicUsize, Ordering as AtomicOrdering};
use std::task::{Context, Poll};

#[derive(Clone, Debug)]
pub enum Step {
    Batch(RecordBatch),
    /// return `Poll::Pending` (after waking the task) this many times
    Pending(u8),
}

/// A leaf plan whose partitions replay a script.
#[derive(Debug)]
pub struct ScriptedExec {
    schema: SchemaRef,
    parts: Vec<Vec<Step>>,
    cache: Arc<PlanProperties>,
    /// number of `execute` calls per partition (a source may be executed more than once, e.g. by
    /// the nested-loop join's spill fallback)
    pub executed: Vec<AtomicUsize>,
}

impl ScriptedExec {
    pub fn new(schema: SchemaRef, parts: Vec<Vec<Step>>, ordering: Option<LexOrdering>) -> Self {
        let eq = match ordering {
            Some(o) => EquivalenceProperties::new_with_orderings(schema.clone(), [o]),
            None => EquivalenceProperties::new(schema.clone()),
        };
        let cache = PlanProperties::new(eq, Partitioning::UnknownPartitioning(parts.len()), EmissionType::Incremental, Boundedness::Bounded);
        let executed = (0..parts.len()).map(|_| AtomicUsize::new(0)).collect();
        ScriptedExec { schema, parts, cache: Arc::new(cache), executed }
    }
}

impl DisplayAs for ScriptedExec {
    fn fmt_as(&self, _t: DisplayFormatType, f: &mut std::fmt::Formatter) -> std::fmt::Result {
        write!(f, "ScriptedExec: partitions={}", self.parts.len())
    }
}

impl ExecutionPlan for ScriptedExec {
    fn name(&self) -> &'static str {
        "ScriptedExec"
    }
    fn properties(&self) -> &Arc<PlanProperties> {
        &self.cache
    }
    fn children(&self) -> Vec<&Arc<dyn ExecutionPlan>> {
        vec![]
    }
    fn replace_children(self: Arc<Self>, _children: Vec<Arc<dyn ExecutionPlan>>, _o: ReplaceChildrenOptions) -> Result<Arc<dyn ExecutionPlan>> {
        Ok(self)
    }
    fn apply_expressions(&self, _f: &mut dyn FnMut(&Arc<dyn PhysicalExpr>) -> Result<TreeNodeRecursion>) -> Result<TreeNodeRecursion> {
        Ok(TreeNodeRecursion::Continue)
    }
    fn with_new_children(self: Arc<Self>, children: Vec<Arc<dyn ExecutionPlan>>) -> Result<Arc<dyn ExecutionPlan>> {
        self.replace_children(children, ReplaceChildrenOptions::new(ChildrenPropertiesMode::Recompute))
    }
    fn execute(&self, partition: usize, _context: Arc<TaskContext>) -> Result<SendableRecordBatchStream> {
        let Some(steps) = self.parts.get(partition) else {
            return Err(DataFusionError::Internal(format!("ScriptedExec has no partition {partition}")));
        };
        self.executed[partition].fetch_add(1, AtomicOrdering::Relaxed);
        Ok(Box::pin(ScriptedStream { schema: self.schema.clone(), steps: steps.iter().cloned().collect() }))
    }
}

struct ScriptedStream {
    schema: SchemaRef,
    steps: VecDeque<Step>,
}

impl Stream for ScriptedStream {
    type Item = Result<RecordBatch>;
    fn poll_next(mut self: Pin<&mut Self>, cx: &mut Context<'_>) -> Poll<Option<Self::Item>> {
        loop {
            match self.steps.front_mut() {
                None => return Poll::Ready(None),
                Some(Step::Pending(n)) => {
                    if *n == 0 {
                        self.steps.pop_front();
                        continue;
                    }
                    *n -= 1;
                    cx.waker().wake_by_ref();
                    return Poll::Pending;
                }
                Some(Step::Batch(_)) => {
                    if let Some(Step::Batch(b)) = self.steps.pop_front() {
                        return Poll::Ready(Some(Ok(b)));
                    }
                }
            }
        }
    }
}

impl RecordBatchStream for ScriptedStream {
    fn schema(&self) -> SchemaRef {
        self.schema.clone()
    }
}

/// Interleave jitter with batches: `pend[i % len]` Pending polls before batch i and before EOF.
pub fn script(batches: Vec<RecordBatch>, pend: &[u8]) -> Vec<Step> {
    let mut out = Vec::with_capacity(batches.len() * 2 + 1);
    let n = batches.len();
    for (i, b) in batches.into_iter().enumerate() {
        if !pend.is_empty() {
            let p = pend[i % pend.len()];
            if p > 0 {
                out.push(Step::Pending(p));
            }
        }
        out.push(Step::Batch(b));
    }
    if !pend.is_empty() {
        let p = pend[n % pend.len()];
        if p > 0 {
            out.push(Step::Pending(p));
        }
    }
    out
}

/// Execution environment of one case. Holds the spill directory alive.
pub struct Env {
    pub ctx: Arc<TaskContext>,
    pub pool: Arc<dyn MemoryPool>,
    _dir: Option<tempfile::TempDir>,
}

#[derive(Clone, Copy, Debug, PartialEq, Eq, serde::Serialize, serde::Deserialize)]
pub enum PoolKind {
    Greedy,
    Fair,
}

/// `mem_limit = None` → unbounded pool, OS temp files not needed. With a limit a private spill
/// directory is created (spilling enabled, as in a default session).
pub fn make_env(config: SessionConfig, mem_limit: Option<(usize, PoolKind)>) -> std::result::Result<Env, String> {
    let mut b = RuntimeEnvBuilder::new();
    let mut dir = None;
    let pool: Arc<dyn MemoryPool> = match mem_limit {
        None => Arc::new(datafusion_execution::memory_pool::UnboundedMemoryPool::default()),
        Some((n, PoolKind::Greedy)) => Arc::new(GreedyMemoryPool::new(n)),
        Some((n, PoolKind::Fair)) => Arc::new(FairSpillPool::new(n)),
    };
    b = b.with_memory_pool(pool.clone());
    if mem_limit.is_some() {
        let d = tempfile::tempdir().map_err(|e| format!("tempdir: {e}"))?;
        b = b.with_disk_manager_builder(DiskManagerBuilder::default().with_mode(DiskManagerMode::Directories(vec![d.path().to_path_buf()])));
        dir = Some(d);
    }
    let rt = b.build_arc().map_err(|e| format!("runtime env: {e}"))?;
    let ctx = Arc::new(TaskContext::default().with_session_config(config).with_runtime(rt));
    Ok(Env { ctx, pool, _dir: dir })
}

pub fn is_resources_exhausted(e: &DataFusionError) -> bool {
    if matches!(e.find_root(), DataFusionError::ResourcesExhausted(_)) {
        return true;
    }
    let s = e.to_string();
    s.contains("Resources exhausted") || s.contains("ResourcesExhausted")
}

pub fn is_unsupported(e: &DataFusionError) -> bool {
    matches!(e.find_root(), DataFusionError::NotImplemented(_) | DataFusionError::Plan(_))
}

/// Sum of a metric over the whole plan tree.
pub fn sum_metric(plan: &Arc<dyn ExecutionPlan>, f: &dyn Fn(&datafusion_physical_plan::metrics::MetricsSet) -> Option<usize>) -> usize {
    let mut total = plan.metrics().and_then(|m| f(&m)).unwrap_or(0);
    for c in plan.children() {
        total += sum_metric(c, f);
    }
    total
}

pub fn spill_count(plan: &Arc<dyn ExecutionPlan>) -> usize {
    sum_metric(plan, &|m| m.spill_count())
}
