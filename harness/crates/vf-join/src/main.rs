mod c05;
mod c10;
mod data;
mod source;

fn main() {
    vf_kit::dispatch! {
        "c05" => c05::C05,
        "c10" => c10::C10,
    }
}
