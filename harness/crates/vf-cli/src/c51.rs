//! C51 — the command-line client splits scripts and formats results faithfully.
//!
//! Two kinds of cases share one sub-command (weights 10 : 1, as in DESIGN.md "### C51"):
//!
//! **Split.** A script is *constructed* from 1–6 statements. Each statement is a list of tokens: bare
//! words / keywords, numbers, punctuation (never `;`, `'`, `"`, `-`, `/`, `\`, `$`, backtick), `'…'`
//! string literals whose content may contain `;`, `"`, `'` (rendered doubled), newlines, unicode, and
//! `"…"` quoted identifiers whose content may contain `;`, `'`, `"` (rendered doubled). Tokens are
//! separated by whitespace gaps (a gap may be empty only next to a punctuation token, so two quoted
//! tokens never touch), statements by `;` with random whitespace padding; statements may be empty
//! (whitespace only) and the final `;` is optional. The splitter (hook H7,
//! `datafusion_cli::helper::verif_split_from_semicolon`, the function `exec_from_repl` and the
//! input validator feed every accepted line to) must return, in order, every non-empty statement
//! trimmed and terminated by `;` — the normalisation its own rustdoc/unit tests show — i.e. it split
//! exactly at the semicolons outside literals and quoted identifiers. The oracle never re-implements
//! the scanner: the expected list is known by construction.
//! Not generated (DESIGN guard): comments, `E'…'`/`$$…$$`/backslash escapes.
//!
//! **Format.** A table of 0–12 rows × 1–4 columns {Int64, UInt64, Float64, Float32, Boolean, Date32,
//! Utf8, LargeUtf8, Utf8View} with NULLs, cut into 1–4 batches (zero-row batches and sliced arrays
//! included) is printed through `PrintFormat::{Csv,Tsv,Json,NdJson}::print_batches` (all four for
//! every case; with/without header; `MaxRows` unlimited or limited — the limit only concerns the
//! table format; either one call with all batches or one call per batch with the header on the first
//! call only, which is what `PrintOptions::print_stream` does). The output is parsed back with an
//! independent parser (`csv` crate reader with the format's delimiter; `serde_json` stream
//! deserialiser) and compared cell by cell: integers/booleans/dates by their canonical text
//! (dates by a harness-side civil-calendar conversion), floats by parsing the cell (`str::parse`,
//! correctly rounded → bit-exact, NaN ≡ NaN) for CSV/TSV; strings verbatim; NULL ↔ empty cell for
//! CSV/TSV (that format's encoding), NULL ↔ absent key or `null` for JSON.
//!
//! Deviations / pinned facts:
//! * TSV: the writer is arrow's CSV writer with a tab delimiter, so cells with tabs/newlines/quotes are
//!   CSV-quoted; a `csv` reader with delimiter `\t` reads them back — nothing had to be excluded for TSV.
//! * JSON floats: `serde_json` (no `float_roundtrip` feature in this workspace) is not a correctly
//!   rounded parser, so JSON floats are compared with relative tolerance 1e-12 (f32: 1e-6) and only
//!   for 1e-290 ≤ |v| ≤ 1e290 or v = 0; non-finite floats are written as `null` by arrow-json (JSON
//!   cannot represent them): accepted as `null`/absent, labelled `json-nonfinite-as-null`.
//! * Results with zero rows print nothing in all four formats (pinned by the CLI's own unit test);
//!   the check only requires that parsing yields zero rows.
//! * U+FEFF is not generated (the `csv` reader strips a leading BOM — a property of the harness's
//!   parser, not of the CLI). Column names are distinct and non-empty (JSON objects need distinct keys).
//! * "thorough also pipes scripts into the datafusion-cli binary" is NOT done: the prebuilt binary
//!   comes from the unchanged tree and would not follow edits of /repo; only in-process APIs are used.
//!
//! Sensitivity probes (patches made with mkpatch, run as `mutrun <patch> -- ./check C51 quick`; all four
//! were reported as VIOLATION, exit 1, within the quick budget; the unchanged tree passes seeds 0..4):
//! 1. helper.rs `if c == '\'' && !in_double_quote {` → `if c == '\'' {` (a `'` inside a quoted identifier
//!    toggles the literal state): VIOLATION (split case, shrunk to two statements around `"'"`).
//! 2. helper.rs `if c == ';' && !in_single_quote && !in_double_quote {` → `if c == ';' && !in_single_quote {`
//!    (splits inside quoted identifiers): VIOLATION (split case).
//! 3. print_format.rs `.filter(|b| b.num_rows() > 0)` → `.filter(|b| b.num_rows() > 1)` (one-row batches are
//!    dropped from the output): VIOLATION after 35 evaluations (format case, row count).
//! 4. print_format.rs `print_batches_with_sep`: writer built inside the batch loop, i.e. the CSV/TSV header is
//!    emitted once per batch (DESIGN probe): VIOLATION (format case, extra record).
//! Not usable as a probe: "JSON writer dropping a NULL-only column" (DESIGN) — arrow-json omits NULL keys by
//! default, so an absent key already means NULL and the unchanged tree behaves like the probe.
use arrow::array::{
    ArrayRef, BooleanArray, Date32Array, Float32Array, Float64Array, Int64Array, LargeStringArray, RecordBatch, StringArray, StringViewArray,
    UInt64Array,
};
use arrow::datatypes::{DataType, Field, Schema, SchemaRef};
use datafusion::common::config::FormatOptions;
use datafusion_cli::helper::verif_split_from_semicolon;
use datafusion_cli::print_format::PrintFormat;
use datafusion_cli::print_options::MaxRows;
use proptest::prelude::*;
use serde::{Deserialize, Serialize};
use std::sync::Arc;
use vf_kit::engine::*;

pub struct C51;

// ---------------------------------------------------------------------------------------------
// case types

#[derive(Clone, Debug, Serialize, Deserialize)]
pub enum Case {
    Split(SplitCase),
    Format(FormatCase),
}

#[derive(Clone, Debug, Serialize, Deserialize)]
pub enum Tok {
    /// bare word / keyword / number (no quotes, no semicolon, no whitespace)
    Word(String),
    /// punctuation (may touch its neighbours)
    Punct(String),
    /// content of a `'…'` literal (unescaped)
    Str(String),
    /// content of a `"…"` quoted identifier (unescaped)
    Ident(String),
}

#[derive(Clone, Debug, Serialize, Deserialize)]
pub struct Stmt {
    pub toks: Vec<Tok>,
    /// whitespace between consecutive tokens (missing entries = one blank)
    pub gaps: Vec<String>,
    /// whitespace before / after the statement text
    pub pad_before: String,
    pub pad_after: String,
}

#[derive(Clone, Debug, Serialize, Deserialize)]
pub struct SplitCase {
    pub stmts: Vec<Stmt>,
    pub trailing_semicolon: bool,
}

#[derive(Clone, Debug, Serialize, Deserialize)]
pub enum ColData {
    Int64(Vec<Option<i64>>),
    UInt64(Vec<Option<u64>>),
    /// f64 bit patterns
    Float64(Vec<Option<u64>>),
    /// f32 bit patterns
    Float32(Vec<Option<u32>>),
    Bool(Vec<Option<bool>>),
    /// days since 1970-01-01, within 0001-01-01 ..= 9999-12-31
    Date32(Vec<Option<i32>>),
    Utf8(Vec<Option<String>>),
    LargeUtf8(Vec<Option<String>>),
    Utf8View(Vec<Option<String>>),
}

#[derive(Clone, Debug, Serialize, Deserialize)]
pub struct Col {
    pub name: String,
    pub data: ColData,
}

#[derive(Clone, Debug, Serialize, Deserialize)]
pub struct FormatCase {
    pub nrows: usize,
    pub cols: Vec<Col>,
    /// cut points (mapped monotonically onto 0..=nrows) splitting the rows into batches
    pub cuts: Vec<u16>,
    pub with_header: bool,
    /// None = unlimited
    pub maxrows: Option<usize>,
    /// one print_batches call per batch (header on the first call only) instead of one call for all
    pub per_batch: bool,
}

// ---------------------------------------------------------------------------------------------
// generators

fn is_plain_ws(s: &str) -> bool {
    s.chars().all(|c| matches!(c, ' ' | '\t' | '\n' | '\r'))
}

fn ws(allow_empty: bool) -> BoxedStrategy<String> {
    let v = if allow_empty { vec!["", " ", " ", "  ", "\n", "\t", " \n ", "\r\n", "\n\n"] } else { vec![" ", " ", "  ", "\n", "\t", " \n ", "\r\n", "\n\n"] };
    prop::sample::select(v).prop_map(|s| s.to_string()).boxed()
}

fn word() -> BoxedStrategy<String> {
    let kw = prop::sample::select(vec![
        "select", "SELECT", "from", "where", "insert", "into", "values", "create", "table", "as", "and", "or", "null", "NULL", "t", "x", "col_1", "E", "N", "X", "1", "42", "3.14",
        "1e10", "é", "日本", "true", "count", "set",
    ])
    .prop_map(|s| s.to_string());
    let ident = "[A-Za-z_][A-Za-z0-9_]{0,5}".prop_map(|s| s);
    let num = "[0-9]{1,4}(\\.[0-9]{1,3})?".prop_map(|s| s);
    prop_oneof![3 => kw, 1 => ident, 1 => num].boxed()
}

fn punct() -> BoxedStrategy<String> {
    prop::sample::select(vec!["(", ")", ",", "*", "=", "+", ".", "<", ">", "<>", "%", "||", ":", "[", "]", "?", "@"]).prop_map(|s| s.to_string()).boxed()
}

/// content of a quoted token; `own` is the token's own quote character, `other` the other kind
fn quoted_content(own: &'static str, other: &'static str) -> BoxedStrategy<String> {
    let piece = prop_oneof![
        6 => Just(";".to_string()),
        3 => Just(own.to_string()),
        3 => Just(other.to_string()),
        2 => Just(" ".to_string()),
        1 => Just("\n".to_string()),
        1 => Just("\t".to_string()),
        1 => Just("; ".to_string()),
        1 => Just(";;".to_string()),
        1 => Just("-".to_string()),
        1 => Just(",".to_string()),
        1 => Just("(".to_string()),
        4 => "[a-z]{1,3}".prop_map(|s| s),
        1 => "[0-9]{1,2}".prop_map(|s| s),
        2 => prop::sample::select(vec!["é", "ß", "日", "本", "😀", "\u{301}", "\u{a0}", "\u{2003}", "select", "''", "\"\""]).prop_map(|s| s.to_string()),
    ];
    prop::collection::vec(piece, 0..6).prop_map(|v| v.concat()).boxed()
}

fn tok() -> BoxedStrategy<Tok> {
    prop_oneof![
        4 => word().prop_map(Tok::Word),
        2 => punct().prop_map(Tok::Punct),
        4 => quoted_content("'", "\"").prop_map(Tok::Str),
        3 => quoted_content("\"", "'").prop_map(Tok::Ident),
    ]
    .boxed()
}

fn stmt(max_toks: usize) -> BoxedStrategy<Stmt> {
    (prop::collection::vec(tok(), 0..=max_toks), prop::collection::vec(ws(true), max_toks), ws(true), ws(true))
        .prop_map(|(toks, gaps, pad_before, pad_after)| Stmt { toks, gaps, pad_before, pad_after })
        .boxed()
}

fn split_case(tier: Tier) -> BoxedStrategy<Case> {
    let max_stmts = tier.pick(6, 12);
    let max_toks = tier.pick(6, 10);
    (prop::collection::vec(stmt(max_toks), 1..=max_stmts), any::<bool>()).prop_map(|(stmts, trailing_semicolon)| Case::Split(SplitCase { stmts, trailing_semicolon })).boxed()
}

fn cell_string() -> BoxedStrategy<String> {
    let piece = prop_oneof![
        3 => Just(",".to_string()),
        3 => Just("\t".to_string()),
        3 => Just("\"".to_string()),
        2 => Just("'".to_string()),
        3 => Just("\n".to_string()),
        1 => Just("\r".to_string()),
        1 => Just("\r\n".to_string()),
        2 => Just(" ".to_string()),
        1 => Just("\\".to_string()),
        1 => Just("|".to_string()),
        1 => Just(";".to_string()),
        1 => Just("#".to_string()),
        1 => Just("{".to_string()),
        1 => Just("\u{0}".to_string()),
        1 => Just("\u{1b}".to_string()),
        1 => Just("\u{2028}".to_string()),
        1 => Just("\u{7f}".to_string()),
        5 => "[a-zA-Z0-9]{1,4}".prop_map(|s| s),
        3 => prop::sample::select(vec!["é", "ß", "日本", "😀", "\u{301}", "\u{a0}", "NULL", "null", "true", "1", "-0", "\"\"", "\\n", "\\\"", "\u{10ffff}"]).prop_map(|s| s.to_string()),
    ];
    let built = prop::collection::vec(piece, 0..6).prop_map(|v| v.concat());
    let arbitrary = any::<String>().prop_map(|s| s.chars().filter(|c| *c != '\u{feff}').take(8).collect::<String>());
    prop_oneof![6 => built, 1 => arbitrary, 1 => Just(String::new())].boxed()
}

fn opt<T: std::fmt::Debug + Clone + 'static>(s: BoxedStrategy<T>, n: usize) -> BoxedStrategy<Vec<Option<T>>> {
    // columns are either null-free, mixed or (rarely) all NULL
    prop_oneof![
        2 => prop::collection::vec(s.clone().prop_map(Some), n),
        5 => prop::collection::vec(prop::option::weighted(0.7, s), n),
        1 => Just(vec![None; n]),
    ]
    .boxed()
}

fn f64_bits() -> BoxedStrategy<u64> {
    let special = prop::sample::select(vec![
        0.0f64,
        -0.0,
        1.0,
        -1.0,
        0.1,
        0.5,
        1e15,
        1e16,
        1e21,
        1e-7,
        123456789.125,
        f64::MAX,
        f64::MIN,
        f64::MIN_POSITIVE,
        5e-324,
        f64::EPSILON,
        f64::NAN,
        f64::INFINITY,
        f64::NEG_INFINITY,
        9007199254740993.0,
        1.7976931348623157e308,
    ])
    .prop_map(|f| f.to_bits());
    let decimal = (-9_999_999i64..=9_999_999, 0u32..6).prop_map(|(m, k)| ((m as f64) / 10f64.powi(k as i32)).to_bits());
    let anybits = any::<u64>();
    prop_oneof![2 => special, 4 => decimal, 3 => anybits].boxed()
}

fn f32_bits() -> BoxedStrategy<u32> {
    let special = prop::sample::select(vec![0.0f32, -0.0, 1.0, 0.1, 16777217.0, f32::MAX, f32::MIN_POSITIVE, 1e-45, f32::NAN, f32::INFINITY, f32::NEG_INFINITY, 3.4028235e38])
        .prop_map(|f| f.to_bits());
    let decimal = (-99_999i32..=99_999, 0u32..4).prop_map(|(m, k)| ((m as f32) / 10f32.powi(k as i32)).to_bits());
    prop_oneof![2 => special, 4 => decimal, 3 => any::<u32>()].boxed()
}

const DATE_MIN: i32 = -719_162; // 0001-01-01
const DATE_MAX: i32 = 2_932_896; // 9999-12-31

fn col_data(n: usize) -> BoxedStrategy<ColData> {
    let i64s = prop_oneof![3 => -1000i64..1000, 1 => any::<i64>(), 1 => prop::sample::select(vec![i64::MIN, i64::MAX, 0, -1])].boxed();
    let u64s = prop_oneof![3 => 0u64..1000, 1 => any::<u64>(), 1 => prop::sample::select(vec![u64::MAX, 0, i64::MAX as u64 + 1])].boxed();
    let dates = prop_oneof![3 => 0i32..30000, 2 => DATE_MIN..=DATE_MAX, 1 => prop::sample::select(vec![DATE_MIN, DATE_MAX, 0, -1, 11016, 19782])].boxed();
    prop_oneof![
        2 => opt(i64s, n).prop_map(ColData::Int64),
        1 => opt(u64s, n).prop_map(ColData::UInt64),
        2 => opt(f64_bits(), n).prop_map(ColData::Float64),
        1 => opt(f32_bits(), n).prop_map(ColData::Float32),
        1 => opt(any::<bool>().boxed(), n).prop_map(ColData::Bool),
        1 => opt(dates, n).prop_map(ColData::Date32),
        5 => opt(cell_string(), n).prop_map(ColData::Utf8),
        1 => opt(cell_string(), n).prop_map(ColData::LargeUtf8),
        1 => opt(cell_string(), n).prop_map(ColData::Utf8View),
    ]
    .boxed()
}

fn col_name() -> BoxedStrategy<String> {
    let awkward = prop::sample::select(vec![
        "a", "b", "c", "id", "Name", "b c", "x,y", "q\"uote", "tab\there", "日本", "new\nline", "NULL", "a'b", "sum(x)", "t.col", "{k}", "\\", "#h", " lead", "trail ", "é",
    ])
    .prop_map(|s| s.to_string());
    let simple = "[a-z][a-z0-9_]{0,4}".prop_map(|s| s);
    prop_oneof![2 => awkward, 1 => simple].boxed()
}

fn format_case(tier: Tier) -> BoxedStrategy<Case> {
    let max_rows = tier.pick(12usize, 40);
    (0..=max_rows, 1usize..=4)
        .prop_flat_map(|(nrows, ncols)| {
            (
                Just(nrows),
                prop::collection::vec((col_name(), col_data(nrows)), ncols),
                prop::collection::vec(any::<u16>(), 0..4),
                any::<bool>(),
                prop_oneof![3 => Just(None), 1 => (0usize..6).prop_map(Some)],
                prop::bool::weighted(0.3),
            )
        })
        .prop_map(|(nrows, cols, cuts, with_header, maxrows, per_batch)| {
            // distinct column names by construction: a repeated name gets a positional suffix
            let mut names: Vec<String> = vec![];
            let cols = cols
                .into_iter()
                .enumerate()
                .map(|(i, (n, data))| {
                    let mut name = n;
                    while names.contains(&name) {
                        name = format!("{name}_{i}");
                    }
                    names.push(name.clone());
                    Col { name, data }
                })
                .collect();
            Case::Format(FormatCase { nrows, cols, cuts, with_header, maxrows, per_batch })
        })
        .boxed()
}

// ---------------------------------------------------------------------------------------------
// split: rendering and check

fn render_tok(t: &Tok) -> String {
    match t {
        Tok::Word(w) | Tok::Punct(w) => w.clone(),
        Tok::Str(c) => format!("'{}'", c.replace('\'', "''")),
        Tok::Ident(c) => format!("\"{}\"", c.replace('"', "\"\"")),
    }
}

fn render_stmt(s: &Stmt) -> String {
    let mut out = String::new();
    for (i, t) in s.toks.iter().enumerate() {
        if i > 0 {
            let gap = s.gaps.get(i - 1).map(|g| g.as_str()).unwrap_or(" ");
            let touching_ok = matches!(t, Tok::Punct(_)) || matches!(s.toks[i - 1], Tok::Punct(_));
            if gap.is_empty() && !touching_ok {
                out.push(' ');
            } else {
                out.push_str(gap);
            }
        }
        out.push_str(&render_tok(t));
    }
    out
}

fn split_domain_ok(c: &SplitCase) -> Result<(), String> {
    for s in &c.stmts {
        if !is_plain_ws(&s.pad_before) || !is_plain_ws(&s.pad_after) || s.gaps.iter().any(|g| !is_plain_ws(g)) {
            return Err("padding must be whitespace".into());
        }
        for t in &s.toks {
            match t {
                Tok::Word(w) | Tok::Punct(w) => {
                    if w.is_empty() || w.chars().any(|ch| ch.is_whitespace() || matches!(ch, ';' | '\'' | '"' | '-' | '/' | '\\' | '$' | '`')) {
                        return Err("bare token with a reserved character".into());
                    }
                }
                Tok::Str(c) | Tok::Ident(c) => {
                    if c.contains('\\') {
                        return Err("backslash inside a quoted token (dialect-specific escape)".into());
                    }
                }
            }
        }
    }
    Ok(())
}

fn run_split(c: &SplitCase) -> CaseResult {
    if let Err(why) = split_domain_ok(c) {
        return CaseResult::discard(format!("outside domain: {why}"));
    }
    let mut script = String::new();
    let mut expected: Vec<String> = vec![];
    for (i, s) in c.stmts.iter().enumerate() {
        if i > 0 {
            script.push(';');
        }
        let body = render_stmt(s);
        script.push_str(&s.pad_before);
        script.push_str(&body);
        script.push_str(&s.pad_after);
        if !s.toks.is_empty() {
            expected.push(format!("{body};"));
        }
    }
    if c.trailing_semicolon {
        script.push(';');
    }
    let got = verif_split_from_semicolon(&script);
    if got != expected {
        return CaseResult::violation(format!("script {script:?}\n  split into {got:?}\n  expected   {expected:?}"));
    }
    let quoted = |f: &dyn Fn(&Tok) -> bool| c.stmts.iter().flat_map(|s| s.toks.iter()).any(f);
    let semi_in_str = quoted(&|t| matches!(t, Tok::Str(x) if x.contains(';')));
    let semi_in_ident = quoted(&|t| matches!(t, Tok::Ident(x) if x.contains(';')));
    let dq_in_str = quoted(&|t| matches!(t, Tok::Str(x) if x.contains('"')));
    let sq_in_ident = quoted(&|t| matches!(t, Tok::Ident(x) if x.contains('\'')));
    let doubled = quoted(&|t| matches!(t, Tok::Str(x) if x.contains('\'')) || matches!(t, Tok::Ident(x) if x.contains('"')));
    let newline_in_quoted = quoted(&|t| matches!(t, Tok::Str(x) | Tok::Ident(x) if x.contains('\n')));
    let empties = c.stmts.iter().filter(|s| s.toks.is_empty()).count();
    let mut r = CaseResult::pass()
        .nontrivial(expected.len() >= 2 && (semi_in_str || semi_in_ident))
        .label("kind=split")
        .label(format!("split:stmts={}", expected.len().min(6)));
    for (flag, l) in [
        (semi_in_str, "split:semicolon-in-literal"),
        (semi_in_ident, "split:semicolon-in-quoted-ident"),
        (semi_in_str && semi_in_ident, "split:semicolon-in-both"),
        (dq_in_str, "split:dquote-in-literal"),
        (sq_in_ident, "split:squote-in-quoted-ident"),
        (doubled, "split:doubled-quote"),
        (newline_in_quoted, "split:newline-in-quoted"),
        (empties > 0, "split:empty-statements"),
        (c.trailing_semicolon, "split:trailing-semicolon"),
        (!script.is_ascii(), "split:non-ascii"),
    ] {
        if flag {
            r = r.label(l);
        }
    }
    r
}

// ---------------------------------------------------------------------------------------------
// format: building batches, expected cells, parsing back

/// proleptic Gregorian date of a day number (days since 1970-01-01), independent of chrono
fn civil(days: i32) -> String {
    let z = days as i64 + 719_468;
    let era = z.div_euclid(146_097);
    let doe = z.rem_euclid(146_097);
    let yoe = (doe - doe / 1460 + doe / 36_524 - doe / 146_096) / 365;
    let y = yoe + era * 400;
    let doy = doe - (365 * yoe + yoe / 4 - yoe / 100);
    let mp = (5 * doy + 2) / 153;
    let d = doy - (153 * mp + 2) / 5 + 1;
    let m = if mp < 10 { mp + 3 } else { mp - 9 };
    let y = if m <= 2 { y + 1 } else { y };
    format!("{y:04}-{m:02}-{d:02}")
}

/// logical value of one cell, as the harness knows it
#[derive(Clone, Debug, PartialEq)]
enum Cell {
    Null,
    Int(i64),
    UInt(u64),
    F64(f64),
    F32(f32),
    Bool(bool),
    Date(i32),
    Text(String),
}

impl ColData {
    fn len(&self) -> usize {
        match self {
            ColData::Int64(v) => v.len(),
            ColData::UInt64(v) => v.len(),
            ColData::Float64(v) => v.len(),
            ColData::Float32(v) => v.len(),
            ColData::Bool(v) => v.len(),
            ColData::Date32(v) => v.len(),
            ColData::Utf8(v) | ColData::LargeUtf8(v) | ColData::Utf8View(v) => v.len(),
        }
    }
    fn cell(&self, i: usize) -> Cell {
        match self {
            ColData::Int64(v) => v[i].map(Cell::Int).unwrap_or(Cell::Null),
            ColData::UInt64(v) => v[i].map(Cell::UInt).unwrap_or(Cell::Null),
            ColData::Float64(v) => v[i].map(|b| Cell::F64(f64::from_bits(b))).unwrap_or(Cell::Null),
            ColData::Float32(v) => v[i].map(|b| Cell::F32(f32::from_bits(b))).unwrap_or(Cell::Null),
            ColData::Bool(v) => v[i].map(Cell::Bool).unwrap_or(Cell::Null),
            ColData::Date32(v) => v[i].map(Cell::Date).unwrap_or(Cell::Null),
            ColData::Utf8(v) | ColData::LargeUtf8(v) | ColData::Utf8View(v) => v[i].clone().map(Cell::Text).unwrap_or(Cell::Null),
        }
    }
    fn data_type(&self) -> DataType {
        match self {
            ColData::Int64(_) => DataType::Int64,
            ColData::UInt64(_) => DataType::UInt64,
            ColData::Float64(_) => DataType::Float64,
            ColData::Float32(_) => DataType::Float32,
            ColData::Bool(_) => DataType::Boolean,
            ColData::Date32(_) => DataType::Date32,
            ColData::Utf8(_) => DataType::Utf8,
            ColData::LargeUtf8(_) => DataType::LargeUtf8,
            ColData::Utf8View(_) => DataType::Utf8View,
        }
    }
    fn array(&self) -> ArrayRef {
        match self {
            ColData::Int64(v) => Arc::new(Int64Array::from(v.clone())),
            ColData::UInt64(v) => Arc::new(UInt64Array::from(v.clone())),
            ColData::Float64(v) => Arc::new(Float64Array::from(v.iter().map(|o| o.map(f64::from_bits)).collect::<Vec<_>>())),
            ColData::Float32(v) => Arc::new(Float32Array::from(v.iter().map(|o| o.map(f32::from_bits)).collect::<Vec<_>>())),
            ColData::Bool(v) => Arc::new(BooleanArray::from(v.clone())),
            ColData::Date32(v) => Arc::new(Date32Array::from(v.clone())),
            ColData::Utf8(v) => Arc::new(StringArray::from(v.iter().map(|o| o.as_deref()).collect::<Vec<_>>())),
            ColData::LargeUtf8(v) => Arc::new(LargeStringArray::from(v.iter().map(|o| o.as_deref()).collect::<Vec<_>>())),
            ColData::Utf8View(v) => Arc::new(StringViewArray::from(v.iter().map(|o| o.as_deref()).collect::<Vec<_>>())),
        }
    }
}

fn format_domain_ok(c: &FormatCase) -> Result<(), String> {
    if c.cols.is_empty() {
        return Err("no columns".into());
    }
    for (i, col) in c.cols.iter().enumerate() {
        if col.data.len() != c.nrows {
            return Err("column length differs from nrows".into());
        }
        if col.name.is_empty() || c.cols[..i].iter().any(|o| o.name == col.name) {
            return Err("column names must be distinct and non-empty".into());
        }
        if col.name.contains('\u{feff}') {
            return Err("U+FEFF not generated".into());
        }
        match &col.data {
            ColData::Date32(v) => {
                if v.iter().flatten().any(|d| *d < DATE_MIN || *d > DATE_MAX) {
                    return Err("date outside years 1..=9999".into());
                }
            }
            ColData::Utf8(v) | ColData::LargeUtf8(v) | ColData::Utf8View(v) => {
                if v.iter().flatten().any(|s| s.contains('\u{feff}')) {
                    return Err("U+FEFF not generated".into());
                }
            }
            _ => {}
        }
    }
    Ok(())
}

fn batches_of(c: &FormatCase) -> (SchemaRef, Vec<RecordBatch>) {
    let schema: SchemaRef = Arc::new(Schema::new(c.cols.iter().map(|col| Field::new(col.name.as_str(), col.data.data_type(), true)).collect::<Vec<_>>()));
    let whole = RecordBatch::try_new(schema.clone(), c.cols.iter().map(|col| col.data.array()).collect()).expect("harness builds a valid batch");
    let mut points: Vec<usize> = c.cuts.iter().map(|x| ((*x as usize) * (c.nrows + 1)) >> 16).collect();
    points.sort_unstable();
    let mut batches = vec![];
    let mut start = 0usize;
    for p in points.into_iter().chain(std::iter::once(c.nrows)) {
        batches.push(whole.slice(start, p - start));
        start = p;
    }
    (schema, batches)
}

#[derive(Clone, Copy, Debug, PartialEq)]
enum Fmt {
    Csv,
    Tsv,
    Json,
    NdJson,
}

impl Fmt {
    fn print_format(self) -> PrintFormat {
        match self {
            Fmt::Csv => PrintFormat::Csv,
            Fmt::Tsv => PrintFormat::Tsv,
            Fmt::Json => PrintFormat::Json,
            Fmt::NdJson => PrintFormat::NdJson,
        }
    }
}

fn print(c: &FormatCase, fmt: Fmt, schema: &SchemaRef, batches: &[RecordBatch]) -> Result<(String, bool), String> {
    let maxrows = match c.maxrows {
        None => MaxRows::Unlimited,
        Some(n) => MaxRows::Limited(n),
    };
    let options = FormatOptions::default();
    let mut out: Vec<u8> = vec![];
    let pf = fmt.print_format();
    let mut header_expected = c.with_header;
    if c.per_batch {
        // what PrintOptions::print_stream does: one call per batch, header requested on the first call only.
        // A zero-row first batch prints nothing (header included), so the header is then not expected at all.
        for (i, b) in batches.iter().enumerate() {
            let h = c.with_header && i == 0;
            if i == 0 && b.num_rows() == 0 {
                header_expected = false;
            }
            pf.print_batches(&mut out, schema.clone(), std::slice::from_ref(b), maxrows, h, &options).map_err(|e| format!("print_batches failed: {e}"))?;
        }
    } else {
        pf.print_batches(&mut out, schema.clone(), batches, maxrows, c.with_header, &options).map_err(|e| format!("print_batches failed: {e}"))?;
    }
    let text = String::from_utf8(out).map_err(|e| format!("output is not UTF-8: {e}"))?;
    Ok((text, header_expected))
}

fn rel_close(a: f64, b: f64, tol: f64) -> bool {
    a == b || (a - b).abs() <= tol * a.abs().max(b.abs())
}

fn check_text_cell(expect: &Cell, got: &str) -> Result<(), String> {
    let bad = |want: String| Err(format!("expected {want:?}, output cell is {got:?}"));
    match expect {
        Cell::Null => {
            if got.is_empty() {
                Ok(())
            } else {
                bad("<empty cell for NULL>".into())
            }
        }
        Cell::Int(v) => {
            if got == v.to_string() {
                Ok(())
            } else {
                bad(v.to_string())
            }
        }
        Cell::UInt(v) => {
            if got == v.to_string() {
                Ok(())
            } else {
                bad(v.to_string())
            }
        }
        Cell::Bool(v) => {
            if got == v.to_string() {
                Ok(())
            } else {
                bad(v.to_string())
            }
        }
        Cell::Date(d) => {
            if got == civil(*d) {
                Ok(())
            } else {
                bad(civil(*d))
            }
        }
        Cell::Text(s) => {
            if got == s {
                Ok(())
            } else {
                bad(s.clone())
            }
        }
        Cell::F64(v) => match got.parse::<f64>() {
            Ok(p) if (p.is_nan() && v.is_nan()) || p.to_bits() == v.to_bits() => Ok(()),
            _ => bad(format!("{v:?}")),
        },
        Cell::F32(v) => match got.parse::<f32>() {
            Ok(p) if (p.is_nan() && v.is_nan()) || p.to_bits() == v.to_bits() => Ok(()),
            _ => bad(format!("{v:?}")),
        },
    }
}

fn check_delimited(c: &FormatCase, text: &str, delimiter: u8, header_expected: bool) -> Result<(), String> {
    let mut rdr = csv::ReaderBuilder::new().delimiter(delimiter).has_headers(false).flexible(true).from_reader(text.as_bytes());
    let mut records: Vec<csv::StringRecord> = vec![];
    for r in rdr.records() {
        records.push(r.map_err(|e| format!("output does not parse as delimited text: {e}"))?);
    }
    if c.nrows == 0 {
        // nothing is printed for an empty result; a lone header would be fine as well
        let data = if !records.is_empty() && c.with_header { &records[1..] } else { &records[..] };
        if !data.is_empty() {
            return Err(format!("empty result printed {} data record(s)", data.len()));
        }
        return Ok(());
    }
    let mut it = records.iter();
    if header_expected {
        let Some(h) = it.next() else { return Err("header requested but the output is empty".into()) };
        let names: Vec<&str> = h.iter().collect();
        let want: Vec<&str> = c.cols.iter().map(|col| col.name.as_str()).collect();
        if names != want {
            return Err(format!("header record {names:?}, column names {want:?}"));
        }
    }
    let rows: Vec<&csv::StringRecord> = it.collect();
    if rows.len() != c.nrows {
        return Err(format!("{} data records in the output, result has {} rows", rows.len(), c.nrows));
    }
    for (ri, rec) in rows.iter().enumerate() {
        if rec.len() != c.cols.len() {
            return Err(format!("row {ri}: {} fields, result has {} columns ({rec:?})", rec.len(), c.cols.len()));
        }
        for (ci, col) in c.cols.iter().enumerate() {
            check_text_cell(&col.data.cell(ri), &rec[ci]).map_err(|e| format!("row {ri}, column {:?}: {e}", col.name))?;
        }
    }
    Ok(())
}

fn check_json_cell(expect: &Cell, got: Option<&serde_json::Value>, notes: &mut Vec<&'static str>) -> Result<(), String> {
    use serde_json::Value as J;
    let got = match got {
        None | Some(J::Null) => None,
        Some(v) => Some(v),
    };
    let bad = |want: String| Err(format!("expected {want}, JSON value is {got:?}"));
    match (expect, got) {
        (Cell::Null, None) => Ok(()),
        (Cell::Null, Some(_)) => bad("null / absent key".into()),
        (Cell::F64(v), None) if !v.is_finite() => {
            notes.push("json-nonfinite-as-null");
            Ok(())
        }
        (Cell::F32(v), None) if !v.is_finite() => {
            notes.push("json-nonfinite-as-null");
            Ok(())
        }
        (e, None) => bad(format!("{e:?}")),
        (Cell::Int(v), Some(j)) => {
            if j.as_i64() == Some(*v) && j.is_i64() || (j.is_u64() && *v >= 0 && j.as_u64() == Some(*v as u64)) {
                Ok(())
            } else {
                bad(v.to_string())
            }
        }
        (Cell::UInt(v), Some(j)) => {
            if j.as_u64() == Some(*v) {
                Ok(())
            } else {
                bad(v.to_string())
            }
        }
        (Cell::Bool(v), Some(j)) => {
            if j.as_bool() == Some(*v) {
                Ok(())
            } else {
                bad(v.to_string())
            }
        }
        (Cell::Date(d), Some(j)) => {
            if j.as_str() == Some(civil(*d).as_str()) {
                Ok(())
            } else {
                bad(civil(*d))
            }
        }
        (Cell::Text(s), Some(j)) => {
            if j.as_str() == Some(s.as_str()) {
                Ok(())
            } else {
                bad(format!("{s:?}"))
            }
        }
        (Cell::F64(v), Some(j)) => {
            if !v.is_finite() {
                return bad("null for a non-finite float".into());
            }
            let Some(p) = j.as_f64().filter(|_| j.is_number()) else { return bad(format!("{v:?}")) };
            let a = v.abs();
            if *v == 0.0 {
                if p == 0.0 { Ok(()) } else { bad("0".into()) }
            } else if !(1e-290..=1e290).contains(&a) {
                notes.push("json-float-extreme-unchecked");
                Ok(())
            } else if rel_close(*v, p, 1e-12) {
                Ok(())
            } else {
                bad(format!("{v:?}"))
            }
        }
        (Cell::F32(v), Some(j)) => {
            if !v.is_finite() {
                return bad("null for a non-finite float".into());
            }
            let Some(p) = j.as_f64().filter(|_| j.is_number()) else { return bad(format!("{v:?}")) };
            let a = v.abs();
            if *v == 0.0 {
                if p == 0.0 { Ok(()) } else { bad("0".into()) }
            } else if !(1e-30..=1e30).contains(&a) {
                notes.push("json-float-extreme-unchecked");
                Ok(())
            } else if rel_close(*v as f64, p, 1e-6) {
                Ok(())
            } else {
                bad(format!("{v:?}"))
            }
        }
    }
}

fn check_json(c: &FormatCase, text: &str, fmt: Fmt, notes: &mut Vec<&'static str>) -> Result<(), String> {
    use serde_json::Value as J;
    let mut docs: Vec<J> = vec![];
    for d in serde_json::Deserializer::from_str(text).into_iter::<J>() {
        docs.push(d.map_err(|e| format!("output does not parse as JSON: {e}"))?);
    }
    let mut rows: Vec<serde_json::Map<String, J>> = vec![];
    for d in docs {
        match (fmt, d) {
            (Fmt::Json, J::Array(a)) => {
                for r in a {
                    match r {
                        J::Object(o) => rows.push(o),
                        other => return Err(format!("array element is not an object: {other}")),
                    }
                }
            }
            (Fmt::NdJson, J::Object(o)) => rows.push(o),
            (_, other) => return Err(format!("unexpected top-level JSON value for {fmt:?}: {other}")),
        }
    }
    if fmt == Fmt::NdJson && c.nrows > 0 {
        // newline-delimited: one object per line
        let lines = text.lines().filter(|l| !l.trim().is_empty()).count();
        if lines != c.nrows {
            return Err(format!("NDJSON output has {lines} non-empty lines for {} rows", c.nrows));
        }
    }
    if rows.len() != c.nrows {
        return Err(format!("{} JSON objects in the output, result has {} rows", rows.len(), c.nrows));
    }
    for (ri, obj) in rows.iter().enumerate() {
        for k in obj.keys() {
            if !c.cols.iter().any(|col| &col.name == k) {
                return Err(format!("row {ri}: key {k:?} is not a column name"));
            }
        }
        for col in &c.cols {
            check_json_cell(&col.data.cell(ri), obj.get(&col.name), notes).map_err(|e| format!("row {ri}, column {:?}: {e}", col.name))?;
        }
    }
    Ok(())
}

fn needs_quoting(s: &str) -> bool {
    s.contains(',') || s.contains('\t') || s.contains('"') || s.contains('\n') || s.contains('\r')
}

fn run_format(c: &FormatCase) -> CaseResult {
    if let Err(why) = format_domain_ok(c) {
        return CaseResult::discard(format!("outside domain: {why}"));
    }
    let (schema, batches) = batches_of(c);
    let mut notes: Vec<&'static str> = vec![];
    for fmt in [Fmt::Csv, Fmt::Tsv, Fmt::Json, Fmt::NdJson] {
        let (text, header_expected) = match print(c, fmt, &schema, &batches) {
            Ok(t) => t,
            Err(e) => return CaseResult::violation(format!("{fmt:?}: {e}")),
        };
        let res = match fmt {
            Fmt::Csv => check_delimited(c, &text, b',', header_expected),
            Fmt::Tsv => check_delimited(c, &text, b'\t', header_expected),
            Fmt::Json | Fmt::NdJson => check_json(c, &text, fmt, &mut notes),
        };
        if let Err(e) = res {
            return CaseResult::violation(format!("{fmt:?} (header={}, per_batch={}, batches={:?}): {e}\n  output: {:?}", c.with_header, c.per_batch, batches.iter().map(|b| b.num_rows()).collect::<Vec<_>>(), truncate(&text, 1500)));
        }
    }
    let strings: Vec<&String> = c
        .cols
        .iter()
        .flat_map(|col| match &col.data {
            ColData::Utf8(v) | ColData::LargeUtf8(v) | ColData::Utf8View(v) => v.iter().flatten().collect::<Vec<_>>(),
            _ => vec![],
        })
        .collect();
    let quoting = strings.iter().any(|s| needs_quoting(s));
    let has_null = (0..c.nrows).any(|r| c.cols.iter().any(|col| col.data.cell(r) == Cell::Null));
    let null_only_col = c.nrows > 0 && c.cols.iter().any(|col| (0..c.nrows).all(|r| col.data.cell(r) == Cell::Null));
    let nonempty_batches = batches.iter().filter(|b| b.num_rows() > 0).count();
    let mut r = CaseResult::pass().nontrivial(c.nrows > 0 && quoting).label("kind=format").label(format!("format:cols={}", c.cols.len()));
    r = r.label(match c.nrows {
        0 => "format:rows=0",
        1 => "format:rows=1",
        _ => "format:rows>1",
    });
    for (flag, l) in [
        (quoting, "format:cell-needs-quoting"),
        (strings.iter().any(|s| s.contains('\n') || s.contains('\r')), "format:newline-in-cell"),
        (strings.iter().any(|s| s.contains('\t')), "format:tab-in-cell"),
        (strings.iter().any(|s| s.contains('"')), "format:dquote-in-cell"),
        (strings.iter().any(|s| s.is_empty()), "format:empty-string"),
        (strings.iter().any(|s| !s.is_ascii()), "format:non-ascii"),
        (strings.iter().any(|s| s.chars().any(|ch| (ch as u32) < 0x20 && !matches!(ch, '\n' | '\r' | '\t'))), "format:control-char"),
        (has_null, "format:has-null"),
        (null_only_col, "format:null-only-column"),
        (nonempty_batches > 1, "format:multi-batch"),
        (batches.iter().any(|b| b.num_rows() == 0) && c.nrows > 0, "format:zero-row-batch-among-others"),
        (c.with_header, "format:header"),
        (c.per_batch, "format:per-batch-calls"),
        (c.maxrows.is_some(), "format:maxrows-limited"),
        (c.cols.iter().any(|col| needs_quoting(&col.name)), "format:column-name-needs-quoting"),
    ] {
        if flag {
            r = r.label(l);
        }
    }
    for col in &c.cols {
        r = r.label(format!("format:type={}", col.data.data_type()));
    }
    notes.sort_unstable();
    notes.dedup();
    for n in notes {
        r = r.label(format!("format:{n}"));
    }
    r
}

// ---------------------------------------------------------------------------------------------

impl Property for C51 {
    type Case = Case;
    fn id(&self) -> &'static str {
        "C51"
    }
    fn sub(&self) -> &'static str {
        "c51"
    }
    fn strategy(&self, tier: Tier) -> BoxedStrategy<Case> {
        prop_oneof![10 => split_case(tier), 1 => format_case(tier)].boxed()
    }
    fn budget(&self, tier: Tier) -> Budget {
        Budget::new(tier.pick(220_000, 11_000_000), tier.pick(8, 16)).min_nontrivial(tier.pick(20_000, 1_000_000))
    }
    fn rule(&self) -> String {
        "10:1 mix of split cases (script constructed from statements of words/punctuation/'…' literals/\"…\" quoted identifiers, joined by ';' with whitespace padding and empty statements; \
         expected statement list known by construction) and format cases (0-12 rows x 1-4 typed columns with NULLs, cut into batches, printed as CSV/TSV/JSON/NDJSON and parsed back with the csv crate / serde_json); \
         non-trivial split = at least two non-empty statements and a ';' inside a literal or quoted identifier; non-trivial format = at least one row and a string cell that needs quoting; distinct by case JSON"
            .into()
    }
    fn assumptions(&self) -> Vec<String> {
        vec![
            "the splitter's output normalisation (each non-empty statement trimmed and terminated by ';') is the documented contract of split_from_semicolon (its unit tests)".into(),
            "comments and dialect-specific escapes (E'..', $$..$$, backslashes) are outside the property and are not generated".into(),
            "the csv crate reader (RFC 4180 quoting, configured delimiter) and serde_json are the independent parsers; NULL and the empty string are indistinguishable in CSV/TSV by that format's encoding".into(),
            "JSON floats are compared with relative tolerance 1e-12 (serde_json is not a correctly rounded parser); non-finite floats are null in JSON".into(),
            "the datafusion-cli binary is not driven (the prebuilt binary would not follow /repo edits); only the in-process splitter and PrintFormat::print_batches are exercised".into(),
        ]
    }
    fn run(&self, case: &Case) -> CaseResult {
        match case {
            Case::Split(c) => run_split(c),
            Case::Format(c) => run_format(c),
        }
    }
}
