mod c51;

fn main() {
    vf_kit::dispatch! {
        "c51" => c51::C51,
    }
}
