//! C01 — SQL query results agree with reference relational semantics.
//!
//! Domain: `SqlCase` = tables `t0..t2(id BIGINT unique, a BIGINT, b BIGINT, s VARCHAR, f DOUBLE, p BOOLEAN)`
//! (0–12 rows quick, 0–30 thorough, NULL-heavy skewed small domains) + a query from the type-directed
//! grammar of `vf_kit::refsql::gen` (depth 2 quick / 3 thorough): filters, projections with
//! CASE/COALESCE/NULLIF/arithmetic/`||`/LIKE, all join kinds incl. LEFT|RIGHT SEMI|ANTI, GROUP BY (+HAVING,
//! DISTINCT aggregates, FILTER, ROLLUP/CUBE/GROUPING SETS), DISTINCT, ORDER BY/LIMIT/OFFSET, set operations
//! [ALL], EXISTS/IN/NOT IN/scalar/ANY/ALL subqueries (correlated or not), window functions with
//! ROWS/RANGE/GROUPS frames, CTEs incl. recursive ones, generate_series/range/VALUES.
//!
//! Oracle: `refsql::eval` (independent naive evaluator). Relation checked (`refsql::check_result`):
//! multiset equality of rows (floats: equal or relative 1e-9), plus sortedness w.r.t. the top-level ORDER BY,
//! plus the tie-aware top-k predicate when the reference reports that the LIMIT cuts through tied rows.
//! Error relation: a clean rejection by the engine (`Plan`/`SchemaError`/`SQL`/`NotImplemented`) is a discard
//! (histogrammed per message prefix); `Internal` errors and panics are violations; a run-time failure of the
//! engine is allowed only when the reference fails too or the query statically contains an unguarded
//! division; where the reference fails with division by zero on a single-table projection without filter
//! (every evaluation order touches the row) the engine must fail too. Reference overflow / float-domain exits /
//! non-deterministic queries / over-budget cases are discards (counted).
//!
//! Deviations from DESIGN.md: ordered results are checked as multiset + sortedness (exactly what ORDER BY
//! promises) instead of sequence equality; quick depth is 2 (depth 3 in thorough).
//!
//! Known findings (all reproduced with datafusion-cli on the unchanged tree; entries in /verif/known_findings.json,
//! minimal cases under /verif/regressions/C01/c01/; shape-keyed signatures are excluded by construction via
//! `shape_signature`, outcome-keyed ones additionally require the engine to answer with exactly that error):
//!  1 unaliased-select-list-quantified (DESIGN §9.3; repair /verif/fixes/C01-set-comparison-name.diff, verified with
//!    mutrun: the regression case becomes a clean NotImplemented)          2 in-subquery-outside-conjunct (mark join: FALSE for NULL)
//!  3 not-in-subquery-constant-lhs    4 not-in-subquery-correlated      5 intersect-except-all (no bag semantics)
//!  6 in-list-case-element (repair /verif/fixes/C01-in-list-constant-detection.diff)   7 join-mixed-null-equality
//!  8 outer-join-on-literal-eq-column (push_down_filter rewrites an inferred filter to false)
//!  9 outer-join-filter-on-nullable-side-join-key (physical FilterPushdown)   10 filter-below-empty-grouping-set
//! 11 pred-subquery-correlated-global-aggregate (count bug for EXISTS/IN/ANY/ALL)   12 union-constant-columns-order-by
//! 13 window-aggregate-of-literal    14 sum-of-constant-derived-column    15 union-empty-first-branch-names (outcome-keyed)
//! 16 nullability-mismatch:bool-test, :case-then-in-when, :correlated-scalar-subquery and :coalesce (outcome-keyed Internal errors)
//! 17 window-partition-by-not-ordered (outcome-keyed Execution error)   18 nested-offset-without-limit (physical LimitPushdown)
//! 20 filter-above-join-duplicate-column-names (same root cause as 9)   21 in-list-conjunction-folded-to-false (= C04 finding)
//! 19 decorrelate-duplicate-inner-column-names (correlation predicates on equally named inner columns collapse)
//! Not pinned as findings: decorrelation rules failing with `Schema error: No field named …` on unsupported
//! correlated shapes are treated as the engine's (poorly worded) rejection → discards labelled `decorrelation-failed`.
//!
//! Sensitivity probes (mutrun, patches under /verif/fixes/probes/): see PROBES at the end of this header.
//! PROBES:
//!  A C01-probe-limit-forgets-offset.diff (limit_pushdown pushes `fetch` without adding `skip`): DETECTED by `check C01 quick`
//!    after 130 evaluations (`… ORDER BY k3, k4 LIMIT 1 OFFSET 1` returned 0 rows instead of 1)
//!  B C01-probe-pushdown-below-left-join.diff (push_down_filter treats the right side of LEFT JOIN as preserved): DETECTED by
//!    `check C01 quick` (`… LEFT JOIN t0 r1 ON … WHERE r1.s = r1.s` returned the NULL-extended rows: 3 rows instead of 1)
use proptest::prelude::*;
use vf_df::{ErrClass, Outcome as DfOutcome, Variant, repro_script, run_sql};
use vf_kit::engine::*;
use vf_kit::refsql::{self, Expr, GenConfig, JoinKind, Query, RefError, RefErrorClass, SetExpr, SetOp, SqlCase, TableRef};

pub struct C01;

thread_local! {
    /// result of the last engine run on this thread, keyed by a hash of (tables, sql): `known_signature`
    /// (outcome-keyed signatures) and `run` see the same case back to back
    static LAST_RUN: std::cell::RefCell<Option<(u64, vf_df::RunOutput)>> = const { std::cell::RefCell::new(None) };
}

pub fn engine_run(case: &SqlCase, sql: &str) -> vf_df::RunOutput {
    let mut key_src = serde_json::to_vec(&case.tables).unwrap_or_default();
    key_src.extend_from_slice(sql.as_bytes());
    let key = fnv1a(&key_src);
    if let Some(hit) = LAST_RUN.with(|c| c.borrow().as_ref().filter(|(k, _)| *k == key).map(|(_, o)| o.clone())) {
        return hit;
    }
    let out = run_sql(&case.tables, sql, &Variant::default(), false);
    LAST_RUN.with(|c| *c.borrow_mut() = Some((key, out.clone())));
    out
}

fn decorrelation_rule_failed(msg: &str) -> bool {
    ["'scalar_subquery_to_join' failed", "'decorrelate_predicate_subquery' failed", "'decorrelate_lateral_join' failed"].iter().any(|r| msg.contains(r)) // any schema error raised by a decorrelation rule ("No field named …", "… would be ambiguous")
}

fn nullability_mismatch(out: &vf_df::RunOutput) -> bool {
    matches!(&out.outcome, DfOutcome::Error(e) if e.class == ErrClass::Internal && e.message.contains("Physical input schema should be the same") && e.message.contains("field nullability"))
}

pub fn has_bool_test(q: &Query) -> bool {
    let mut found = false;
    refsql::visit_exprs(q, &mut |e| {
        if matches!(e, Expr::BoolTest { .. }) {
            found = true
        }
    });
    found
}

/// an IN list with an element containing a CASE (known finding `in-list-case-element`)
#[allow(dead_code)]
pub fn in_list_case_element(q: &Query) -> bool {
    let mut found = false;
    refsql::visit_exprs(q, &mut |e| {
        if let Expr::InList { list, .. } = e {
            for el in list {
                refsql::eval::walk_expr_shallow(el, &mut |x| {
                    if matches!(x, Expr::Case { .. }) {
                        found = true
                    }
                });
            }
        }
    });
    found
}

/// a FROM tree with two or more joins of which one has IS NOT DISTINCT FROM in its ON (known finding `join-mixed-null-equality`)
pub fn join_mixed_null_equality(q: &Query) -> bool {
    fn count(t: &TableRef, joins: &mut usize, indf: &mut bool) {
        if let TableRef::Join { left, right, on, .. } = t {
            *joins += 1;
            if let Some(o) = on {
                refsql::eval::walk_expr_shallow(o, &mut |x| {
                    if matches!(x, Expr::IsDistinctFrom { negated: true, .. }) {
                        *indf = true
                    }
                });
            }
            count(left, joins, indf);
            count(right, joins, indf);
        }
    }
    fn set(e: &SetExpr, found: &mut bool) {
        match e {
            SetExpr::Select(s) => {
                if let Some(t) = &s.from {
                    let (mut j, mut i) = (0, false);
                    count(t, &mut j, &mut i);
                    // a second join, or a WHERE (its equalities become join keys of the same NullsEqual join)
                    if i && (j >= 2 || s.where_.is_some()) {
                        *found = true;
                    }
                }
            }
            SetExpr::SetOp { left, right, .. } => {
                set(left, found);
                set(right, found)
            }
            SetExpr::Query(_) => {}
        }
    }
    let mut found = false;
    refsql::visit_queries(q, &mut |qq| set(&qq.body, &mut found));
    found
}

/// EXISTS / IN / ANY / ALL over a correlated subquery whose select aggregates without GROUP BY
/// (known finding `pred-subquery-correlated-global-aggregate`)
pub fn pred_subquery_correlated_global_agg(q: &Query) -> bool {
    let mut found = false;
    refsql::visit_exprs(q, &mut |e| {
        let sq = match e {
            Expr::Exists { q, .. } | Expr::InSubquery { q, .. } | Expr::Quantified { q, .. } => q,
            _ => return,
        };
        if let SetExpr::Select(s) = &sq.body {
            let global = (matches!(s.group_by, refsql::GroupBy::None) && s.items.iter().any(|i| refsql::eval::contains_agg(&i.expr))) || has_empty_grouping_set(&s.group_by);
            if global && refsql::has_outer_refs(sq) {
                found = true;
            }
        }
    });
    found
}

fn has_empty_grouping_set(g: &refsql::GroupBy) -> bool {
    match g {
        refsql::GroupBy::Rollup(_) | refsql::GroupBy::Cube(_) => true,
        refsql::GroupBy::Sets(sets) => sets.iter().any(|s| s.is_empty()),
        _ => false,
    }
}

/// A filter sits directly above an aggregate with an empty grouping set: HAVING over ROLLUP / CUBE / GROUPING
/// SETS(.., ()), or an outer WHERE over a derived table that is a global / grouping-set aggregate
/// (known finding `filter-below-empty-grouping-set`).
pub fn filter_above_empty_grouping_set(q: &Query) -> bool {
    fn agg_with_empty_set(s: &refsql::Select) -> bool {
        has_empty_grouping_set(&s.group_by) || (matches!(s.group_by, refsql::GroupBy::None) && s.items.iter().any(|i| refsql::eval::contains_agg(&i.expr)))
    }
    fn derived_empty_set(t: &TableRef) -> bool {
        match t {
            TableRef::Derived { q, .. } => matches!(&q.body, SetExpr::Select(s) if agg_with_empty_set(s) || s.from.as_ref().map(derived_empty_set).unwrap_or(false)),
            TableRef::Join { left, right, .. } => derived_empty_set(left) || derived_empty_set(right),
            _ => false,
        }
    }
    fn set(e: &SetExpr, found: &mut bool) {
        match e {
            SetExpr::Select(s) => {
                // HAVING over ROLLUP/CUBE/GROUPING SETS(..,()) or over a global aggregate (e.g. `HAVING 0 <> (SELECT count(..) ..)`)
                if s.having.is_some() && agg_with_empty_set(s) {
                    *found = true;
                }
                if s.where_.is_some() && s.from.as_ref().map(derived_empty_set).unwrap_or(false) {
                    *found = true;
                }
                // a JOIN … ON over such a derived table (the ON condition may be / fold to a column-free predicate)
                fn join_on_over(t: &TableRef, found: &mut bool) {
                    if let TableRef::Join { left, right, on, .. } = t {
                        if on.is_some() && (derived_empty_set(left) || derived_empty_set(right)) {
                            *found = true;
                        }
                        join_on_over(left, found);
                        join_on_over(right, found);
                    }
                }
                if let Some(t) = &s.from {
                    join_on_over(t, found);
                }
            }
            SetExpr::SetOp { left, right, .. } => {
                set(left, found);
                set(right, found)
            }
            SetExpr::Query(_) => {}
        }
    }
    let mut found = false;
    refsql::visit_queries(q, &mut |qq| set(&qq.body, &mut found));
    found
}

/// a window call whose first argument is a literal (known finding `window-aggregate-of-literal`)
pub fn window_of_literal(q: &Query) -> bool {
    let mut found = false;
    refsql::visit_exprs(q, &mut |e| {
        if let Expr::Win(w) = e {
            if matches!(w.args.first(), Some(Expr::Lit(_)) | Some(Expr::Null(_))) && !matches!(w.f, refsql::WinFunc::Ntile) {
                found = true
            }
        }
    });
    found
}

/// WHERE over a join with a conjunct that holds a scalar subquery and equally named columns of two relations
/// (known finding `filter-above-join-duplicate-column-names`)
pub fn filter_above_join_duplicate_names(q: &Query) -> bool {
    fn conjuncts<'a>(e: &'a Expr, out: &mut Vec<&'a Expr>) {
        match e {
            Expr::Bin(refsql::BinOp::And, l, r) => {
                conjuncts(l, out);
                conjuncts(r, out)
            }
            Expr::Between { e, lo, hi, negated: false } => {
                // BETWEEN is split into two comparisons sharing `e`
                out.push(e);
                out.push(lo);
                out.push(hi);
                let _ = (lo, hi);
            }
            o => out.push(o),
        }
    }
    fn set(e: &SetExpr, found: &mut bool) {
        match e {
            SetExpr::Select(s) => {
                if let (Some(TableRef::Join { .. }), Some(w)) = (&s.from, &s.where_) {
                    let mut has_scalar = false;
                    let mut cols: Vec<(String, String)> = vec![];
                    refsql::eval::walk_expr_shallow(w, &mut |x| match x {
                        Expr::Scalar(_) => has_scalar = true,
                        Expr::Col { rel: Some(r), name } => cols.push((r.clone(), name.clone())),
                        _ => {}
                    });
                    let mut cs = vec![];
                    conjuncts(w, &mut cs);
                    let dup = cols.iter().enumerate().any(|(i, (r1, n1))| cols.iter().skip(i + 1).any(|(r2, n2)| n1 == n2 && r1 != r2));
                    fn has_outer(t: &TableRef) -> bool {
                        match t {
                            TableRef::Join { kind, left, right, .. } => matches!(kind, JoinKind::Left | JoinKind::Right | JoinKind::Full) || has_outer(left) || has_outer(right),
                            _ => false,
                        }
                    }
                    // the conjunct stays above the join: it holds a scalar subquery, or the join is an outer join
                    if dup && (has_scalar || s.from.as_ref().map(has_outer).unwrap_or(false)) {
                        *found = true;
                    }
                }
            }
            SetExpr::SetOp { left, right, .. } => {
                set(left, found);
                set(right, found)
            }
            SetExpr::Query(_) => {}
        }
    }
    let mut found = false;
    refsql::visit_queries(q, &mut |qq| set(&qq.body, &mut found));
    found
}

/// `x IN (..) AND x IN (..)` (also with OR) on the same x (known finding `in-list-conjunction-folded-to-false`)
pub fn in_list_conjunction(q: &Query) -> bool {
    let mut found = false;
    refsql::visit_exprs(q, &mut |e| {
        if let Expr::Bin(refsql::BinOp::And | refsql::BinOp::Or, _, _) = e {
            // flatten the AND/OR chain and look for two IN lists over the same expression
            let mut lists: Vec<&Expr> = vec![];
            fn flat<'a>(e: &'a Expr, out: &mut Vec<&'a Expr>) {
                match e {
                    Expr::Bin(refsql::BinOp::And | refsql::BinOp::Or, l, r) => {
                        flat(l, out);
                        flat(r, out)
                    }
                    Expr::InList { e, .. } => out.push(e),
                    _ => {}
                }
            }
            flat(e, &mut lists);
            for (i, a) in lists.iter().enumerate() {
                if lists.iter().skip(i + 1).any(|b| a == b) {
                    found = true;
                }
            }
        }
    });
    found
}

pub fn has_coalesce(q: &Query) -> bool {
    let mut found = false;
    refsql::visit_exprs(q, &mut |e| {
        if matches!(e, Expr::Coalesce(_)) {
            found = true
        }
    });
    found
}

pub fn has_quantified(q: &Query) -> bool {
    let mut found = false;
    refsql::visit_exprs(q, &mut |e| {
        if matches!(e, Expr::Quantified { .. }) {
            found = true
        }
    });
    found
}

/// a derived table with OFFSET but no LIMIT directly under an aggregated / DISTINCT select
/// (known finding `nested-offset-only-under-aggregate`)
pub fn nested_offset_only_under_aggregate(q: &Query) -> bool {
    fn off_only(t: &TableRef) -> bool {
        match t {
            TableRef::Derived { q, .. } => q.offset.is_some() && q.limit.is_none(),
            TableRef::Join { left, right, .. } => off_only(left) || off_only(right),
            _ => false,
        }
    }
    fn set(e: &SetExpr, found: &mut bool) {
        match e {
            SetExpr::Select(s) => {
                let agg = s.distinct || !matches!(s.group_by, refsql::GroupBy::None) || s.items.iter().any(|i| refsql::eval::contains_agg(&i.expr));
                if agg && s.from.as_ref().map(off_only).unwrap_or(false) {
                    *found = true;
                }
            }
            SetExpr::SetOp { left, right, .. } => {
                set(left, found);
                set(right, found)
            }
            SetExpr::Query(_) => {}
        }
    }
    let mut found = false;
    refsql::visit_queries(q, &mut |qq| set(&qq.body, &mut found));
    found
}

pub fn has_subquery_predicate(q: &Query) -> bool {
    let mut found = false;
    refsql::visit_exprs(q, &mut |e| {
        if matches!(e, Expr::Exists { .. } | Expr::InSubquery { .. } | Expr::Quantified { .. }) {
            found = true
        }
    });
    found
}

pub fn has_searched_case(q: &Query) -> bool {
    let mut found = false;
    refsql::visit_exprs(q, &mut |e| {
        if matches!(e, Expr::Case { operand: None, .. }) {
            found = true
        }
    });
    found
}

/// A correlated subquery whose correlation predicates (comparisons with an outer column) mention equally named
/// columns of two different inner relations (known finding `decorrelate-duplicate-inner-column-names`).
pub fn decorrelate_duplicate_inner_names(q: &Query) -> bool {
    let mut found = false;
    refsql::visit_exprs(q, &mut |e| {
        let sq = match e {
            Expr::Scalar(sq) => sq,
            Expr::Exists { q, .. } | Expr::InSubquery { q, .. } | Expr::Quantified { q, .. } => q,
            _ => return,
        };
        let defs = refsql::r#gen::defined_aliases(sq);
        // inner columns compared with an outer column
        let mut inner: Vec<(String, String)> = vec![];
        refsql::visit_exprs(sq, &mut |x| {
            if let Expr::Bin(op, l, r) = x {
                if op.is_cmp() {
                    let side = |e: &Expr| -> (Vec<(String, String)>, bool) {
                        let mut ins = vec![];
                        let mut outer = false;
                        refsql::eval::walk_expr_shallow(e, &mut |y| {
                            if let Expr::Col { rel: Some(r), name } = y {
                                if defs.contains(r) {
                                    ins.push((r.clone(), name.clone()))
                                } else {
                                    outer = true
                                }
                            }
                        });
                        (ins, outer)
                    };
                    let (li, lo) = side(l);
                    let (ri, ro) = side(r);
                    if lo {
                        inner.extend(ri);
                    }
                    if ro {
                        inner.extend(li);
                    }
                }
            }
        });
        for (i, (r1, n1)) in inner.iter().enumerate() {
            for (r2, n2) in inner.iter().skip(i + 1) {
                if n1 == n2 && r1 != r2 {
                    found = true;
                }
            }
        }
    });
    found
}

pub fn has_correlated_scalar(q: &Query) -> bool {
    let mut found = false;
    refsql::visit_exprs(q, &mut |e| {
        if let Expr::Scalar(sq) = e {
            if refsql::has_outer_refs(sq) {
                found = true
            }
        }
    });
    found
}

pub fn has_window(q: &Query) -> bool {
    let mut has_win = false;
    refsql::visit_exprs(q, &mut |e| {
        if matches!(e, Expr::Win(_)) {
            has_win = true
        }
    });
    has_win
}

/// LEFT / RIGHT join whose ON has a conjunct `<literal> = <column>` (known finding `outer-join-on-literal-eq-column`)
#[allow(dead_code)]
pub fn outer_join_literal_eq_column(q: &Query) -> bool {
    fn conj(e: &Expr, found: &mut bool) {
        match e {
            Expr::Bin(refsql::BinOp::And, l, r) => {
                conj(l, found);
                conj(r, found)
            }
            Expr::Bin(refsql::BinOp::Eq, l, r) => {
                if matches!(**l, Expr::Lit(_)) && matches!(**r, Expr::Col { .. }) {
                    *found = true
                }
            }
            _ => {}
        }
    }
    fn tref(t: &TableRef, found: &mut bool) {
        if let TableRef::Join { kind, left, right, on } = t {
            if matches!(kind, JoinKind::Left | JoinKind::Right) {
                if let Some(o) = on {
                    conj(o, found)
                }
            }
            tref(left, found);
            tref(right, found);
        }
    }
    fn set(e: &SetExpr, found: &mut bool) {
        match e {
            SetExpr::Select(s) => {
                if let Some(t) = &s.from {
                    tref(t, found)
                }
            }
            SetExpr::SetOp { left, right, .. } => {
                set(left, found);
                set(right, found)
            }
            SetExpr::Query(_) => {}
        }
    }
    let mut found = false;
    refsql::visit_queries(q, &mut |qq| set(&qq.body, &mut found));
    found
}

/// WHERE mentions a column of the null-supplying side of an outer join that also occurs in that join's ON
/// (known finding `outer-join-filter-on-nullable-side-join-key`)
pub fn outer_join_filter_on_nullable_key(q: &Query) -> bool {
    fn aliases(t: &TableRef, out: &mut Vec<String>) {
        match t {
            TableRef::Table { alias, .. } | TableRef::Derived { alias, .. } | TableRef::Series { alias, .. } | TableRef::Values { alias, .. } => out.push(alias.clone()),
            TableRef::Join { left, right, .. } => {
                aliases(left, out);
                aliases(right, out)
            }
        }
    }
    // (alias, column) pairs of null-supplying sides that occur in the ON of their outer join
    fn nullable_keys(t: &TableRef, out: &mut Vec<(String, String)>) {
        if let TableRef::Join { kind, left, right, on } = t {
            let mut sides: Vec<String> = vec![];
            match kind {
                JoinKind::Left => aliases(right, &mut sides),
                JoinKind::Right => aliases(left, &mut sides),
                JoinKind::Full => {
                    aliases(left, &mut sides);
                    aliases(right, &mut sides)
                }
                _ => {}
            }
            if let Some(o) = on {
                refsql::eval::walk_expr_shallow(o, &mut |x| {
                    if let Expr::Col { rel: Some(r), name } = x {
                        if sides.contains(r) {
                            out.push((r.clone(), name.clone()));
                        }
                    }
                });
            }
            nullable_keys(left, out);
            nullable_keys(right, out);
        }
    }
    fn set(e: &SetExpr, found: &mut bool) {
        match e {
            SetExpr::Select(s) => {
                if let (Some(t), Some(w)) = (&s.from, &s.where_) {
                    let mut keys = vec![];
                    nullable_keys(t, &mut keys);
                    if !keys.is_empty() {
                        refsql::eval::walk_expr_shallow(w, &mut |x| {
                            if let Expr::Col { rel: Some(r), name } = x {
                                if keys.iter().any(|(a, c)| a == r && c == name) {
                                    *found = true;
                                }
                            }
                        });
                    }
                }
            }
            SetExpr::SetOp { left, right, .. } => {
                set(left, found);
                set(right, found)
            }
            SetExpr::Query(_) => {}
        }
    }
    let mut found = false;
    refsql::visit_queries(q, &mut |qq| set(&qq.body, &mut found));
    found
}

/// ORDER BY over a set-operation tree containing a UNION in which some branch has a constant select item
/// (known finding `union-constant-columns-order-by`)
pub fn union_constant_order_by(q: &Query) -> bool {
    fn is_const(e: &Expr) -> bool {
        let mut c = true;
        refsql::eval::walk_expr_shallow(e, &mut |x| {
            if matches!(x, Expr::Col { .. } | Expr::Agg(_) | Expr::Win(_) | Expr::Scalar(_) | Expr::Exists { .. } | Expr::InSubquery { .. } | Expr::Quantified { .. } | Expr::Grouping(_)) {
                c = false
            }
        });
        c
    }
    fn scan(e: &SetExpr, has_union: &mut bool, has_const: &mut bool) {
        match e {
            SetExpr::Select(s) => {
                if s.items.iter().any(|i| is_const(&i.expr)) {
                    *has_const = true
                }
            }
            SetExpr::SetOp { op, left, right, .. } => {
                if *op == SetOp::Union {
                    *has_union = true
                }
                scan(left, has_union, has_const);
                scan(right, has_union, has_const);
            }
            SetExpr::Query(q) => scan(&q.body, has_union, has_const),
        }
    }
    let mut found = false;
    refsql::visit_queries(q, &mut |qq| {
        if !qq.order_by.is_empty() {
            let (mut u, mut c) = (false, false);
            scan(&qq.body, &mut u, &mut c);
            if u && c {
                found = true;
            }
        }
    });
    found
}

/// a sum() aggregate in a query that has a derived table with a constant select item
/// (known finding `sum-of-constant-derived-column`)
pub fn sum_of_constant_derived_column(q: &Query) -> bool {
    let mut has_sum = false;
    refsql::visit_exprs(q, &mut |e| {
        if let Expr::Agg(a) = e {
            if a.f == refsql::AggFunc::Sum {
                has_sum = true
            }
        }
    });
    if !has_sum {
        return false;
    }
    fn is_const(e: &Expr) -> bool {
        let mut c = true;
        refsql::eval::walk_expr_shallow(e, &mut |x| {
            if matches!(x, Expr::Col { .. } | Expr::Agg(_) | Expr::Win(_) | Expr::Scalar(_) | Expr::Exists { .. } | Expr::InSubquery { .. } | Expr::Quantified { .. } | Expr::Grouping(_)) {
                c = false
            }
        });
        c
    }
    fn tref(t: &TableRef, found: &mut bool) {
        match t {
            TableRef::Derived { q, .. } => {
                if let SetExpr::Select(s) = &q.body {
                    if s.items.iter().any(|i| is_const(&i.expr)) {
                        *found = true
                    }
                }
            }
            TableRef::Join { left, right, .. } => {
                tref(left, found);
                tref(right, found)
            }
            _ => {}
        }
    }
    fn set(e: &SetExpr, found: &mut bool) {
        match e {
            SetExpr::Select(s) => {
                if let Some(t) = &s.from {
                    tref(t, found)
                }
            }
            SetExpr::SetOp { left, right, .. } => {
                set(left, found);
                set(right, found)
            }
            SetExpr::Query(_) => {}
        }
    }
    let mut found = false;
    refsql::visit_queries(q, &mut |qq| {
        set(&qq.body, &mut found);
        for c in &qq.with {
            if let SetExpr::Select(s) = &c.q.body {
                if s.items.iter().any(|i| is_const(&i.expr)) {
                    found = true
                }
            }
        }
    });
    found
}

/// a nested (non top-level) query with OFFSET but no LIMIT (known finding `nested-offset-without-limit`)
#[allow(dead_code)]
pub fn nested_offset_without_limit(q: &Query) -> bool {
    let mut n = 0;
    let mut found = false;
    refsql::visit_queries(q, &mut |qq| {
        if n > 0 && qq.offset.is_some() && qq.limit.is_none() {
            found = true;
        }
        n += 1;
    });
    found
}

pub fn has_intersect_except_all(q: &Query) -> bool {
    fn set(e: &SetExpr, found: &mut bool) {
        if let SetExpr::SetOp { op, all, left, right } = e {
            if *all && *op != SetOp::Union {
                *found = true;
            }
            set(left, found);
            set(right, found);
        }
    }
    let mut found = false;
    refsql::visit_queries(q, &mut |qq| set(&qq.body, &mut found));
    found
}

pub fn gen_config(tier: Tier) -> GenConfig {
    let mut cfg = GenConfig::standard(3, tier.pick(12, 30), tier.pick(2, 3));
    cfg.tape_len = tier.pick(500, 800);
    cfg
}

/// the top-level select has an unaliased item containing a quantified comparison
#[allow(dead_code)]
pub fn unaliased_quantified(q: &Query) -> bool {
    fn sel_has(e: &SetExpr) -> bool {
        match e {
            SetExpr::Select(s) => s.items.iter().any(|i| {
                i.alias.is_empty() && {
                    let mut found = false;
                    refsql::eval::walk_expr_shallow(&i.expr, &mut |x| {
                        if matches!(x, Expr::Quantified { .. }) {
                            found = true
                        }
                    });
                    found
                }
            }),
            _ => false,
        }
    }
    sel_has(&q.body)
}

/// Some `[NOT] IN (subquery)` sits somewhere else than a top-level conjunct (optionally under one NOT) of a
/// WHERE / HAVING / QUALIFY / JOIN … ON predicate. The engine plans those with a mark join whose mark column is
/// FALSE where SQL says NULL (known finding `in-subquery-outside-conjunct`).
pub fn in_subquery_outside_conjunct(q: &Query) -> bool {
    fn conjunct_ok(e: &Expr, bad: &mut bool) {
        match e {
            Expr::Bin(refsql::BinOp::And, l, r) => {
                conjunct_ok(l, bad);
                conjunct_ok(r, bad);
            }
            Expr::InSubquery { e, .. } => any_in(e, bad),
            Expr::Not(inner) if matches!(**inner, Expr::InSubquery { .. }) => {
                if let Expr::InSubquery { e, .. } = &**inner {
                    any_in(e, bad)
                }
            }
            other => any_in(other, bad),
        }
    }
    fn any_in(e: &Expr, bad: &mut bool) {
        refsql::eval::walk_expr_shallow(e, &mut |x| {
            if matches!(x, Expr::InSubquery { .. }) {
                *bad = true
            }
        });
    }
    fn tref(t: &TableRef, bad: &mut bool) {
        if let TableRef::Join { left, right, on, .. } = t {
            tref(left, bad);
            tref(right, bad);
            if let Some(o) = on {
                conjunct_ok(o, bad)
            }
        }
    }
    fn set(e: &SetExpr, bad: &mut bool) {
        match e {
            SetExpr::Select(s) => {
                for i in &s.items {
                    any_in(&i.expr, bad)
                }
                if let Some(t) = &s.from {
                    tref(t, bad)
                }
                for p in [&s.where_, &s.having, &s.qualify].into_iter().flatten() {
                    conjunct_ok(p, bad)
                }
            }
            SetExpr::SetOp { left, right, .. } => {
                set(left, bad);
                set(right, bad)
            }
            SetExpr::Query(_) => {}
        }
    }
    let mut bad = false;
    refsql::visit_queries(q, &mut |qq| set(&qq.body, &mut bad));
    bad
}

/// A searched CASE has a THEN expression (not a literal) that also occurs inside its WHEN predicate
/// (known finding `case-then-occurs-in-when`: logical and physical nullability analyses disagree → Internal error).
#[allow(dead_code)]
pub fn case_then_in_when(q: &Query) -> bool {
    let mut found = false;
    refsql::visit_exprs(q, &mut |e| {
        if let Expr::Case { operand: None, whens, .. } = e {
            for (w, t) in whens {
                if matches!(t, Expr::Lit(_) | Expr::Null(_)) {
                    continue;
                }
                refsql::eval::walk_expr_shallow(w, &mut |x| {
                    if x == t {
                        found = true
                    }
                });
            }
        }
    });
    found
}

/// visits every negated IN-subquery (`e NOT IN (q)` or `NOT (e IN (q))`) as (e, q)
fn for_each_not_in<'a>(q: &'a Query, f: &mut dyn FnMut(&'a Expr, &'a Query)) {
    refsql::visit_exprs(q, &mut |x| match x {
        Expr::InSubquery { e, q, negated: true } => f(e, q),
        Expr::Not(inner) => {
            if let Expr::InSubquery { e, q, negated: false } = &**inner {
                f(e, q)
            }
        }
        _ => {}
    });
}

/// a negated IN-subquery whose left side mentions no column (known finding `not-in-subquery-constant-lhs`)
pub fn not_in_constant_lhs(q: &Query) -> bool {
    let mut found = false;
    // constant NULL sub-expressions make arithmetic fold to a constant (`id / nullif(0, 0)`)
    fn const_null(e: &Expr) -> bool {
        match e {
            Expr::Null(_) => true,
            Expr::NullIf(a, b) => const_null(a) || matches!((&**a, &**b), (Expr::Lit(x), Expr::Lit(y)) if x == y),
            Expr::Bin(refsql::BinOp::Add | refsql::BinOp::Sub | refsql::BinOp::Mul | refsql::BinOp::Div | refsql::BinOp::Mod | refsql::BinOp::Concat, l, r) => const_null(l) || const_null(r),
            Expr::Neg(x) | Expr::Cast(x, _) => const_null(x),
            _ => false,
        }
    }
    for_each_not_in(q, &mut |e, _| {
        let mut has_col = false;
        refsql::eval::walk_expr_shallow(e, &mut |y| {
            if matches!(y, Expr::Col { .. } | Expr::Scalar(_)) {
                has_col = true
            }
        });
        // coalesce / CASE / nullif over literals are folded away by the simplifier (`coalesce(-0.5, f)` → -0.5)
        let mut foldable = false;
        refsql::eval::walk_expr_shallow(e, &mut |y| {
            if matches!(y, Expr::Coalesce(_) | Expr::Case { .. } | Expr::NullIf(..) | Expr::Null(_)) {
                foldable = true
            }
        });
        if !has_col || const_null(e) || foldable {
            found = true;
        }
    });
    found
}

/// a negated IN-subquery whose subquery is correlated (known finding `not-in-subquery-correlated`)
pub fn not_in_correlated(q: &Query) -> bool {
    let mut found = false;
    for_each_not_in(q, &mut |_, sq| {
        if refsql::has_outer_refs(sq) {
            found = true;
        }
    });
    found
}

/// the query contains a UNION [ALL]
pub fn has_nested_union(q: &Query) -> bool {
    fn set(e: &SetExpr, found: &mut bool) {
        if let SetExpr::SetOp { op, left, right, .. } = e {
            if *op == SetOp::Union {
                *found = true;
            }
            set(left, found);
            set(right, found);
        }
    }
    let mut found = false;
    refsql::visit_queries(q, &mut |qq| set(&qq.body, &mut found));
    found
}

fn is_simple_projection(q: &Query) -> bool {
    if !q.with.is_empty() || q.limit.is_some() || q.offset.is_some() {
        return false;
    }
    match &q.body {
        SetExpr::Select(s) => {
            matches!(s.from, Some(TableRef::Table { .. }))
                && s.where_.is_none()
                && !s.distinct
                && matches!(s.group_by, refsql::GroupBy::None)
                && s.having.is_none()
                && s.qualify.is_none()
                && s.items.iter().all(|i| !refsql::eval::contains_agg(&i.expr))
                && {
                    // no subqueries, no CASE/COALESCE (lazy branches), no AND/OR short-circuit candidates
                    let mut plain = true;
                    for i in &s.items {
                        refsql::eval::walk_expr_shallow(&i.expr, &mut |x| {
                            if matches!(
                                x,
                                Expr::Case { .. } | Expr::Coalesce(_) | Expr::Exists { .. } | Expr::InSubquery { .. } | Expr::Scalar(_) | Expr::Quantified { .. } | Expr::Win(_) | Expr::Bin(refsql::BinOp::And | refsql::BinOp::Or, ..)
                            ) {
                                plain = false
                            }
                        });
                    }
                    plain
                }
        }
        _ => false,
    }
}

/// operators beyond scan + project, and "emptiness is meaningful" constructs
fn shape(q: &Query) -> (bool, bool) {
    let mut relational = false;
    let mut anti = false;
    refsql::visit_queries(q, &mut |qq| {
        if !qq.order_by.is_empty() || qq.limit.is_some() || qq.offset.is_some() || !qq.with.is_empty() {
            relational = true;
        }
        fn set(e: &SetExpr, relational: &mut bool, anti: &mut bool) {
            match e {
                SetExpr::Select(s) => {
                    if s.where_.is_some() || s.distinct || !matches!(s.group_by, refsql::GroupBy::None) || s.having.is_some() || s.qualify.is_some() {
                        *relational = true;
                    }
                    fn tref(t: &TableRef, relational: &mut bool, anti: &mut bool) {
                        match t {
                            TableRef::Join { kind, left, right, .. } => {
                                *relational = true;
                                if matches!(kind, JoinKind::LeftAnti | JoinKind::RightAnti) {
                                    *anti = true;
                                }
                                tref(left, relational, anti);
                                tref(right, relational, anti);
                            }
                            TableRef::Derived { .. } | TableRef::Series { .. } | TableRef::Values { .. } => *relational = true,
                            TableRef::Table { .. } => {}
                        }
                    }
                    if let Some(t) = &s.from {
                        tref(t, relational, anti);
                    }
                }
                SetExpr::SetOp { op, left, right, .. } => {
                    *relational = true;
                    if *op == SetOp::Except {
                        *anti = true;
                    }
                    set(left, relational, anti);
                    set(right, relational, anti);
                }
                SetExpr::Query(_) => *relational = true,
            }
        }
        set(&qq.body, &mut relational, &mut anti);
    });
    refsql::visit_exprs(q, &mut |e| match e {
        Expr::Agg(_) | Expr::Win(_) | Expr::Scalar(_) => relational = true,
        Expr::Exists { negated, .. } | Expr::InSubquery { negated, .. } => {
            relational = true;
            if *negated {
                anti = true
            }
        }
        Expr::Quantified { all, .. } => {
            relational = true;
            if *all {
                anti = true
            }
        }
        _ => {}
    });
    (relational, anti)
}

fn discard_key(class: ErrClass, msg: &str) -> String {
    // histogram key: class + start of the message with identifiers collapsed
    let mut m: String = msg.chars().take(90).collect();
    for pat in ["r", "k", "c"] {
        // collapse generated names r12 / k7 / c0 so that reasons aggregate
        let mut out = String::new();
        let cs: Vec<char> = m.chars().collect();
        let mut i = 0;
        while i < cs.len() {
            let prev_alnum = i > 0 && (cs[i - 1].is_alphanumeric() || cs[i - 1] == '_');
            if !prev_alnum && cs[i].to_string() == pat && i + 1 < cs.len() && cs[i + 1].is_ascii_digit() {
                out.push(cs[i]);
                out.push('#');
                i += 1;
                while i < cs.len() && cs[i].is_ascii_digit() {
                    i += 1;
                }
            } else {
                out.push(cs[i]);
                i += 1;
            }
        }
        m = out;
    }
    format!("{class:?}: {m}")
}

pub fn describe(case: &SqlCase, sql: &str) -> String {
    format!("\n  sql: {sql}\n  repro script:\n{}", repro_script(&case.tables, sql))
}

/// Shape-keyed signatures of the open C01 known findings (excluded by construction; also used by C02 / C03).
pub fn shape_signature(q: &Query) -> Option<String> {
    // `unaliased-select-list-quantified` and `in-list-case-element` are FIXED in /repo (commits 71c325dd, e36bd2dc):
    // no exclusion any more, their cases are plain regressions
    if in_subquery_outside_conjunct(q) {
        return Some("in-subquery-outside-conjunct".into());
    }
    if not_in_constant_lhs(q) {
        return Some("not-in-subquery-constant-lhs".into());
    }
    if not_in_correlated(q) {
        return Some("not-in-subquery-correlated".into());
    }
    if has_intersect_except_all(q) {
        return Some("intersect-except-all".into());
    }
    if join_mixed_null_equality(q) {
        return Some("join-mixed-null-equality".into());
    }
    if union_constant_order_by(q) {
        return Some("union-constant-columns-order-by".into());
    }
    if window_of_literal(q) {
        return Some("window-aggregate-of-literal".into());
    }
    if outer_join_filter_on_nullable_key(q) {
        return Some("outer-join-filter-on-nullable-side-join-key".into());
    }
    // `outer-join-on-literal-eq-column` is FIXED in /repo (commit 903ba92): no exclusion any more
    if filter_above_empty_grouping_set(q) {
        return Some("filter-below-empty-grouping-set".into());
    }
    if pred_subquery_correlated_global_agg(q) {
        return Some("pred-subquery-correlated-global-aggregate".into());
    }
    if nested_offset_only_under_aggregate(q) {
        return Some("nested-offset-only-under-aggregate".into());
    }
    if in_list_conjunction(q) {
        return Some("in-list-conjunction-folded-to-false".into());
    }
    if filter_above_join_duplicate_names(q) {
        return Some("filter-above-join-duplicate-column-names".into());
    }
    if decorrelate_duplicate_inner_names(q) {
        return Some("decorrelate-duplicate-inner-column-names".into());
    }
    // `nested-offset-without-limit` is FIXED in /repo (commit 5f591345): no exclusion any more
    if sum_of_constant_derived_column(q) {
        return Some("sum-of-constant-derived-column".into());
    }
    None
}

impl Property for C01 {
    type Case = SqlCase;
    fn id(&self) -> &'static str {
        "C01"
    }
    fn sub(&self) -> &'static str {
        "c01"
    }
    fn strategy(&self, tier: Tier) -> BoxedStrategy<SqlCase> {
        refsql::case_strategy(&gen_config(tier))
    }
    fn budget(&self, tier: Tier) -> Budget {
        Budget::new(tier.pick(4_000, 300_000), tier.pick(8, 16)).min_nontrivial(tier.pick(800, 50_000)).discard_cap(0.4).case_timeout(tier.pick(120, 300)).shrink(3000, 180)
    }
    fn rule(&self) -> String {
        "tables t0..t2(id,a,b,s,f,p) with NULL-heavy small domains + a query built type-directed from a choice tape (refsql::gen); \
         non-trivial = the query has a relational operator beyond scan+project, every base table is non-empty, both sides produced rows to compare, \
         and (the reference result is non-empty or the query contains an anti/EXCEPT/NOT IN/NOT EXISTS/ALL construct); distinct by case JSON (SQL + table contents)"
            .into()
    }
    fn assumptions(&self) -> Vec<String> {
        vec![
            "the reference evaluator vf_kit::refsql (unit-tested against hand-derived truth tables) defines the expected rows".into(),
            "Arrow→Value conversion of vf-df (all integer widths → Int, all string encodings → Str)".into(),
            "MemTable scans return the registered rows".into(),
            "float results are compared with relative tolerance 1e-9; inputs are dyadic rationals so sums are exact".into(),
        ]
    }
    fn known_signature(&self, case: &SqlCase) -> Option<String> {
        let q = &case.query;
        if let Some(sig) = shape_signature(q) {
            return Some(sig);
        }
        // outcome-keyed signatures: construct present AND the engine answers with exactly that internal error
        let (bt, cw, nu, wi, cs, co) = (has_bool_test(q), has_searched_case(q), has_nested_union(q), has_window(q), has_correlated_scalar(q), has_coalesce(q));
        let sp = has_subquery_predicate(q);
        if bt || cw || nu || wi || cs || co || sp {
            // the engine may panic here (outside the runner's guard): then there is no outcome-keyed signature,
            // `run` will hit the same panic under the guard and report it
            let out = match std::panic::catch_unwind(std::panic::AssertUnwindSafe(|| engine_run(case, &refsql::to_sql(q)))) {
                Ok(o) => o,
                Err(payload) => {
                    let msg = payload.downcast_ref::<String>().cloned().or_else(|| payload.downcast_ref::<&str>().map(|s| s.to_string())).unwrap_or_default();
                    if sp && msg.contains("unexpected join type: RightMark") {
                        return Some("sort-pushdown-rightmark-panic".into());
                    }
                    return None;
                }
            };
            if nullability_mismatch(&out) {
                if bt {
                    return Some("nullability-mismatch:bool-test".into());
                }
                if cw {
                    return Some("nullability-mismatch:case-then-in-when".into());
                }
                if cs {
                    return Some("nullability-mismatch:correlated-scalar-subquery".into());
                }
                if co {
                    return Some("nullability-mismatch:coalesce".into());
                }
            }
            if wi && matches!(&out.outcome, DfOutcome::Error(e) if e.class == ErrClass::Execution && e.message.contains("Expects PARTITION BY expression to be ordered")) {
                return Some("window-partition-by-not-ordered".into());
            }
            if nu && matches!(&out.outcome, DfOutcome::Error(e) if e.class == ErrClass::SchemaError && e.stage == vf_df::Stage::Optimize && e.message.contains("No field named")) {
                return Some("union-empty-first-branch-names".into());
            }
            if nu && matches!(&out.outcome, DfOutcome::Error(e) if e.class == ErrClass::Internal && e.message.contains("Physical input schema should be the same") && e.message.contains("field name at index")) {
                return Some("union-empty-first-branch-names".into());
            }
        }
        None
    }
    fn run(&self, case: &SqlCase) -> CaseResult {
        let sql = refsql::to_sql(&case.query);
        let db = case.db();
        let feats = refsql::features(&case.query);
        let reference = refsql::eval_with(&case.query, &db, &refsql::EvalOptions { fuel: 2_000_000, recursion_cap: 64, max_rows: 40_000 });
        if let Err(e) = &reference {
            if refsql::classify(e) == RefErrorClass::HarnessBug {
                panic!("refsql cannot evaluate a generated query ({e}): {sql}");
            }
        }
        let out = engine_run(case, &sql);
        let (relational, anti) = shape(&case.query);
        let tables_nonempty = case.tables.iter().all(|t| !t.rows.is_empty());
        let may_fail = refsql::may_fail_static(&case.query);
        let base = |r: CaseResult| r.labels(feats.iter().cloned());
        match (&reference, &out.outcome) {
            (_, DfOutcome::Timeout) => base(CaseResult::inconclusive("engine timeout")),
            // a decorrelation rule giving up with a schema error is this engine's way of rejecting an unsupported
            // correlated-subquery shape (no rows are produced): discard, counted under its own reason
            (_, DfOutcome::Error(e)) if e.stage == vf_df::Stage::Optimize && e.class == ErrClass::SchemaError && (decorrelation_rule_failed(&e.message) || (e.message.contains("No field named") && (refsql::is_correlated(&case.query) || has_quantified(&case.query)))) => {
                base(CaseResult::discard("unsupported correlated subquery: a decorrelation rule failed with a schema error")).label("engine-rejected").label("decorrelation-failed")
            }
            (_, DfOutcome::Error(e)) if e.class.is_clean_rejection() && !(e.class == ErrClass::SchemaError && e.stage == vf_df::Stage::Optimize) => {
                if std::env::var_os("C01_DEBUG").is_some() {
                    eprintln!("DISCARD {:?} {:?}: {}\n   sql: {sql}", e.class, e.stage, e.message);
                }
                base(CaseResult::discard(discard_key(e.class, &e.message))).label("engine-rejected")
            }
            (_, DfOutcome::Error(e)) if matches!(e.class, ErrClass::Internal | ErrClass::SchemaError | ErrClass::Other | ErrClass::ArrowOther | ErrClass::External | ErrClass::Io | ErrClass::ResourcesExhausted | ErrClass::Configuration) => {
                // overflow inside the engine where the reference overflowed too is not a finding
                if matches!(&reference, Err(RefError::Overflow)) && e.class == ErrClass::ArrowOther {
                    return base(CaseResult::discard("reference overflow (engine raised an arithmetic error)"));
                }
                base(CaseResult::violation(format!("engine failed with {:?} at {:?}: {}{}", e.class, e.stage, e.message, describe(case, &sql)))).label("engine-internal-error")
            }
            (Err(re), DfOutcome::Error(e)) => match refsql::classify(re) {
                RefErrorClass::EngineMayFail => base(CaseResult::pass().nontrivial(relational && tables_nonempty)).label("both-fail").label(format!("both-fail:{:?}", e.class)),
                _ => base(CaseResult::discard(format!("reference: {re:?} (engine failed too)"))),
            },
            (Ok(_), DfOutcome::Error(e)) => {
                if e.class == ErrClass::DivideByZero && may_fail {
                    base(CaseResult::pass()).label("engine-divzero-allowed")
                } else {
                    base(CaseResult::violation(format!(
                        "engine failed at run time with {:?} ({}) but the reference evaluates the query without error{}",
                        e.class,
                        e.message,
                        describe(case, &sql)
                    )))
                    .label("engine-runtime-error")
                }
            }
            (Err(re), DfOutcome::Rows(rows)) => match refsql::classify(re) {
                RefErrorClass::EngineMayFail => {
                    if *re == RefError::DivZero && is_simple_projection(&case.query) {
                        base(CaseResult::violation(format!(
                            "the reference fails with division by zero on a row every evaluation order touches, the engine returned {} rows{}",
                            rows.len(),
                            describe(case, &sql)
                        )))
                        .label("missed-error")
                    } else {
                        base(CaseResult::discard(format!("reference: {re:?} (engine avoided the evaluation)")))
                    }
                }
                _ => base(CaseResult::discard(format!("reference: {}", match re {
                    RefError::Nondeterministic(_) => "Nondeterministic".to_string(),
                    o => format!("{o:?}"),
                }))),
            },
            (Ok(r), DfOutcome::Rows(rows)) => match refsql::check_result(r, rows) {
                Ok(()) => {
                    let nt = relational && tables_nonempty && (!r.rows.is_empty() || anti);
                    let mut res = base(CaseResult::pass().nontrivial(nt));
                    if r.rows.is_empty() {
                        res = res.label("empty-result");
                    }
                    if r.topk.is_some() {
                        res = res.label("topk-ties");
                    }
                    if may_fail {
                        res = res.label("may-fail");
                    }
                    if r.inexact {
                        res = res.label("float-inexact");
                    }
                    res.label(format!("rows:{}", match r.rows.len() {
                        0 => "0",
                        1 => "1",
                        2..=9 => "2-9",
                        10..=99 => "10-99",
                        _ => "100+",
                    }))
                }
                Err(m) => {
                    if m.float_only && r.inexact {
                        base(CaseResult::inconclusive("float mismatch after inexact float arithmetic"))
                    } else {
                        base(CaseResult::violation(format!("result differs from the reference: {}{}", m.message, describe(case, &sql)))).label("wrong-result")
                    }
                }
            },
        }
    }
}
