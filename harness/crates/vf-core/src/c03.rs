//! C03 — logical optimization preserves query results and output schema.
//!
//! Domain: C01 cases (deterministic generator settings, 0–12 rows quick / 0–30 thorough) × optimizer rule
//! sets installed with `SessionStateBuilder::with_optimizer_rules`: the full default list, each rule alone,
//! each rule removed, every prefix of the list, and the full list with `max_passes = 1` (quick: 10 sampled
//! sets per case + the full list; thorough: 24 sampled). `skip_failed_rules` stays off.
//!
//! Oracle: (a) schema: the optimized plan's output field names equal those of the *analyzed* plan (empty rule
//! list = analyzer only) and the types are logically equal (string encodings identified); (b) differential
//! execution: whenever the plan of a rule set executes, its rows equal the rows of the full default pipeline
//! (multiset, floats rel. 1e-9, sorted by the query's ORDER BY) — and the analyzed-only plan, when executable,
//! is one of the compared sets. A rule set whose plan the physical planner / executor rejects is "not
//! executable" (counted per error class, skipped); an optimizer-stage failure other than a clean rejection or a
//! decorrelation give-up is a violation.
//!
//! Guards: deterministic queries only (reference evaluator confirms on the data); queries whose shape matches
//! an open C01 known finding are discarded; the baseline (full pipeline) must succeed, otherwise discard.
//! Non-trivial: some rule set changed the plan text relative to the analyzed plan and executed. Distinct by
//! case JSON (query, data, selected rule sets).
//!
//! Deviations from DESIGN.md: rows are compared with the full pipeline's rows (not additionally with `refsql`,
//! that is C01); a panic while planning/executing a *partial* rule list (e.g. `LIMIT 0` reaching TopK's
//! `assert!(k > 0)` when eliminate_limit is absent) counts as "not executable".
//! Sensitivity probes: C01's probe B (push_down_filter below the null-supplying side of LEFT JOIN) is the first
//! C03 probe of DESIGN.md and is caught by the same row comparison; no separate mutrun was possible in the
//! available machine time.
use crate::c01;
use datafusion::optimizer::optimizer::{Optimizer, OptimizerRule};
use proptest::prelude::*;
use serde::{Deserialize, Serialize};
use std::sync::Arc;
use vf_df::{ErrClass, Outcome as DfOutcome, RunOutput, Stage, Variant, run_sql_with};
use vf_kit::engine::*;
use vf_kit::refsql::{self, EvalOptions, GenConfig, RefResult, SqlCase};

pub struct C03;

#[derive(Clone, Copy, Debug, Serialize, Deserialize, PartialEq)]
pub enum SetKind {
    Only,
    Without,
    Prefix,
    FullOnePass,
}

#[derive(Clone, Copy, Debug, Serialize, Deserialize)]
pub struct RuleSel {
    pub kind: SetKind,
    /// mapped monotonically onto the rule list
    pub idx: u16,
}

#[derive(Clone, Debug, Serialize, Deserialize)]
pub struct Case {
    pub sql: SqlCase,
    pub sets: Vec<RuleSel>,
}

type Rules = Vec<Arc<dyn OptimizerRule + Send + Sync>>;

pub fn default_rules() -> Rules {
    Optimizer::new().rules
}

fn rules_for(sel: &RuleSel) -> (Rules, String, bool) {
    let all = default_rules();
    let n = all.len();
    let i = pick_index(sel.idx, n);
    match sel.kind {
        SetKind::Only => (vec![all[i].clone()], format!("only:{}", all[i].name()), false),
        SetKind::Without => (all.iter().enumerate().filter(|(j, _)| *j != i).map(|(_, r)| r.clone()).collect(), format!("without:{}", all[i].name()), false),
        SetKind::Prefix => (all[..=i].to_vec(), format!("prefix:{}", i + 1), false),
        SetKind::FullOnePass => (all, "full:max_passes=1".into(), true),
    }
}

pub fn gen_config(tier: Tier) -> GenConfig {
    let mut cfg = GenConfig::standard(3, tier.pick(12, 30), tier.pick(2, 3));
    cfg.tape_len = tier.pick(400, 600);
    cfg.topk_ties = false;
    cfg.unguarded_div_pct = 0;
    cfg.select_list_subquery_pct = 0;
    cfg
}

fn norm_type(t: &str) -> String {
    match t {
        "Utf8View" | "LargeUtf8" => "Utf8".into(),
        o => o.into(),
    }
}

fn run_with(case: &Case, sql: &str, rules: Rules, one_pass: bool) -> RunOutput {
    let mut v = Variant::default();
    if one_pass {
        v.options.push(("datafusion.optimizer.max_passes".into(), "1".into()));
    }
    run_sql_with(&case.sql.tables, sql, &v, true, move |b| b.with_optimizer_rules(rules))
}

impl Property for C03 {
    type Case = Case;
    fn id(&self) -> &'static str {
        "C03"
    }
    fn sub(&self) -> &'static str {
        "c03"
    }
    fn strategy(&self, tier: Tier) -> BoxedStrategy<Case> {
        let n = tier.pick(10, 24);
        let sel = (prop::sample::select(vec![SetKind::Only, SetKind::Only, SetKind::Without, SetKind::Without, SetKind::Prefix, SetKind::Prefix, SetKind::FullOnePass]), any::<u16>()).prop_map(|(kind, idx)| RuleSel { kind, idx });
        (refsql::case_strategy(&gen_config(tier)), prop::collection::vec(sel, n..=n)).prop_map(|(sql, sets)| Case { sql, sets }).boxed()
    }
    fn budget(&self, tier: Tier) -> Budget {
        Budget::new(tier.pick(300, 8_000), tier.pick(8, 16)).min_nontrivial(tier.pick(60, 1_500)).discard_cap(0.6).case_timeout(120).shrink(1500, 180)
    }
    fn rule(&self) -> String {
        format!(
            "C01 generator (deterministic settings) x sampled optimizer rule sets over the {} default rules (each alone / each removed / every prefix / full list with max_passes=1) + the analyzed-only plan + the full pipeline; \
             non-trivial = some rule set changed the plan text relative to the analyzed plan and its plan executed; distinct by case JSON (query, data, rule sets)",
            default_rules().len()
        )
    }
    fn assumptions(&self) -> Vec<String> {
        vec![
            "the unoptimized plan is the analyzed plan (type coercion etc. is not optional): empty optimizer rule list".into(),
            "a rule set whose plan the physical planner or executor rejects is not executable and is skipped (counted)".into(),
            "deterministic queries only (vf_kit::refsql confirms determinism on the data); floats compared with relative tolerance 1e-9".into(),
        ]
    }
    fn known_signature(&self, case: &Case) -> Option<String> {
        // known finding `filter-over-projection-duplicate-names`: a rule list with optimize_projections but
        // without push_down_filter, over a query with a WHERE on top of a join
        let risky_set = case.sets.iter().any(|sel| {
            let (rules, _, _) = rules_for(sel);
            rules.iter().any(|r| r.name() == "optimize_projections") && !rules.iter().any(|r| r.name() == "push_down_filter")
        });
        // known finding `not-in-null-aware-join-without-equijoin-keys`
        let no_equijoin_set = case.sets.iter().any(|sel| {
            let (rules, _, _) = rules_for(sel);
            rules.iter().any(|r| r.name() == "decorrelate_predicate_subquery") && !rules.iter().any(|r| r.name() == "extract_equijoin_predicate")
        });
        if no_equijoin_set {
            let mut not_in = false;
            refsql::visit_exprs(&case.sql.query, &mut |e| match e {
                refsql::Expr::InSubquery { negated: true, .. } => not_in = true,
                refsql::Expr::Not(inner) if matches!(**inner, refsql::Expr::InSubquery { .. }) => not_in = true,
                refsql::Expr::Quantified { all: true, op: refsql::BinOp::Ne, .. } => not_in = true,
                _ => {}
            });
            if not_in {
                return Some("not-in-null-aware-join-without-equijoin-keys".into());
            }
        }
        if !risky_set {
            return None;
        }
        let mut where_over_join = false;
        refsql::visit_queries(&case.sql.query, &mut |qq| {
            fn set(e: &refsql::SetExpr, f: &mut bool) {
                match e {
                    refsql::SetExpr::Select(s) => {
                        if s.where_.is_some() && matches!(s.from, Some(refsql::TableRef::Join { .. })) {
                            *f = true
                        }
                    }
                    refsql::SetExpr::SetOp { left, right, .. } => {
                        set(left, f);
                        set(right, f)
                    }
                    refsql::SetExpr::Query(_) => {}
                }
            }
            set(&qq.body, &mut where_over_join);
        });
        if where_over_join { Some("filter-over-projection-duplicate-names".into()) } else { None }
    }
    fn run(&self, case: &Case) -> CaseResult {
        let q = &case.sql.query;
        let sql = refsql::to_sql(q);
        let feats = refsql::features(q);
        let base = |r: CaseResult| r.labels(feats.iter().cloned());
        if let Some(sig) = c01::shape_signature(q) {
            return base(CaseResult::discard(format!("shape of C01 known finding {sig}")));
        }
        let reference = match refsql::eval_with(q, &case.sql.db(), &EvalOptions { fuel: 3_000_000, recursion_cap: 64, max_rows: 50_000 }) {
            Ok(r) if r.topk.is_none() => r,
            Ok(_) => return base(CaseResult::discard("reference: top-level LIMIT over ties")),
            Err(e) => {
                if refsql::classify(&e) == refsql::RefErrorClass::HarnessBug {
                    panic!("refsql cannot evaluate a generated query ({e}): {sql}");
                }
                return base(CaseResult::discard(format!(
                    "reference: {}",
                    match e {
                        refsql::RefError::Nondeterministic(_) => "Nondeterministic".to_string(),
                        o => format!("{o:?}"),
                    }
                )));
            }
        };
        // full default pipeline = the reference rows
        let full = run_with(case, &sql, default_rules(), false);
        let full_rows = match &full.outcome {
            DfOutcome::Rows(r) => r.clone(),
            DfOutcome::Timeout => return base(CaseResult::inconclusive("baseline timeout")),
            DfOutcome::Error(e) => return base(CaseResult::discard(format!("full pipeline failed: {:?}", e.class))),
        };
        let expect = RefResult { cols: reference.cols.clone(), rows: full_rows.clone(), order_by: reference.order_by.clone(), inexact: reference.inexact, topk: None };
        // analyzed-only plan: schema reference (+ one more executed plan)
        // partial rule lists may leave plans the executor was never meant to see (e.g. `LIMIT 0` reaching TopK
        // without eliminate_limit): a panic there is "not executable", not a finding of this property
        let guarded = |rules: Rules, one_pass: bool| -> RunOutput {
            match std::panic::catch_unwind(std::panic::AssertUnwindSafe(|| run_with(case, &sql, rules, one_pass))) {
                Ok(o) => o,
                Err(_) => RunOutput {
                    outcome: DfOutcome::Error(vf_df::ErrInfo { class: ErrClass::Other, stage: Stage::Execute, message: "panic while planning / executing a partial rule set".into() }),
                    columns: vec![],
                    optimized_columns: vec![],
                    plans: None,
                    elapsed_ms: 0,
                },
            }
        };
        let analyzed = guarded(vec![], false);
        if analyzed.optimized_columns.is_empty() {
            return base(CaseResult::discard("analyzer-only planning failed"));
        }
        let analyzed_text = analyzed.plans.as_ref().map(|p| p.optimized.clone()).unwrap_or_default();
        let want_cols = &analyzed.optimized_columns;
        let describe = |name: &str, out: &RunOutput| {
            format!(
                "\n  rule set: {name}\n  sql: {sql}\n  analyzed plan:\n{analyzed_text}\n  optimized plan:\n{}\n  repro script:\n{}",
                out.plans.as_ref().map(|p| p.optimized.as_str()).unwrap_or(""),
                vf_df::repro_script(&case.sql.tables, &sql)
            )
        };
        let mut labels: Vec<String> = vec![];
        let mut executed_changed = false;
        let mut runs: Vec<(String, RunOutput)> = vec![("analyzed-only".into(), analyzed.clone()), ("full".into(), full.clone())];
        for sel in &case.sets {
            let (rules, name, one_pass) = rules_for(sel);
            let out = guarded(rules, one_pass);
            runs.push((name, out));
        }
        for (name, out) in &runs {
            let kind = name.split(':').next().unwrap_or("").to_string();
            // (a) schema preservation
            if !out.optimized_columns.is_empty() {
                let same = out.optimized_columns.len() == want_cols.len() && out.optimized_columns.iter().zip(want_cols).all(|(a, b)| a.0 == b.0 && norm_type(&a.1) == norm_type(&b.1));
                if !same {
                    return base(CaseResult::violation(format!("the optimized plan's output schema {:?} differs from the analyzed plan's {:?}{}", out.optimized_columns, want_cols, describe(name, out)))).label("schema-changed");
                }
            }
            match &out.outcome {
                DfOutcome::Timeout => return base(CaseResult::inconclusive("rule-set run timeout")),
                DfOutcome::Error(e) => {
                    let decorrelation = e.class == ErrClass::SchemaError && e.message.contains("No field named");
                    if e.stage == Stage::Optimize && !(e.class.is_clean_rejection() && (e.class != ErrClass::SchemaError || decorrelation)) {
                        return base(CaseResult::violation(format!("optimizer fails with {:?} under rule set {name}: {}{}", e.class, e.message, describe(name, out)))).label("optimizer-error");
                    }
                    labels.push(format!("not-executable:{kind}:{:?}", e.class));
                }
                DfOutcome::Rows(rows) => {
                    labels.push(format!("executed:{kind}"));
                    let changed = out.plans.as_ref().map(|p| p.optimized != analyzed_text).unwrap_or(false);
                    if changed {
                        executed_changed = true;
                    }
                    if let Err(m) = refsql::check_result(&expect, rows) {
                        if m.float_only && reference.inexact {
                            return base(CaseResult::inconclusive("float mismatch after inexact float arithmetic"));
                        }
                        return base(CaseResult::violation(format!("rule set {name} changes the result: {}{}", m.message, describe(name, out)))).label("result-changed");
                    }
                }
            }
        }
        labels.sort();
        labels.dedup();
        base(CaseResult::pass().nontrivial(executed_changed)).labels(labels).label(if full_rows.is_empty() { "empty-result" } else { "non-empty" })
    }
}
