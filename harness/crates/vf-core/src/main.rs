//! vf-core: SQL-level differential checks (C01 C02 C03) on top of vf-df and vf_kit::refsql.
mod c01;
mod c02;
mod c03;

fn main() {
    vf_kit::dispatch! {
        "c01" => c01::C01,
        "c02" => c02::C02,
        "c03" => c03::C03,
    }
}
