//! C02 — query results do not depend on execution configuration or parallelism.
//!
//! Domain: C01's generator restricted to deterministic queries (no deliberate top-k over ties, no unguarded
//! division; the reference evaluator must confirm determinism on the generated data: `RefResult::topk` is
//! None and no `Nondeterministic` error) over larger tables (8–40 rows quick, 20–120 thorough) so that batches and
//! partitions are really split, × 4 (quick) / 8 (thorough) sampled `Variant`s: `target_partitions` {1,2,3,7,16},
//! `batch_size` {1,2,3,8,64,8192}, MemTable split into 1–5 partitions with batches of 1/2/3/7 rows, string
//! encoding Utf8 / Utf8View / LargeUtf8, tokio flavour (current-thread, 2 or 8 workers) and a random subset
//! of the semantically neutral execution/optimizer switches (list `OPTION_FLIPS`; names are validated against
//! the engine's `ConfigOptions` once per process, unknown names are dropped and reported in the evidence rule).
//! Plus: the first variant is run twice, and 4 copies of the query run concurrently on one `SessionContext`.
//!
//! Oracle (metamorphic): every variant returns the baseline's rows (baseline = `Variant::default()`: one
//! partition, engine defaults) as a multiset (floats rel. 1e-9) and sorted by the query's ORDER BY.
//! A variant that fails where the baseline succeeds is a violation unless it is a clean `NotImplemented` /
//! plan rejection (counted, that variant skipped). Baseline errors are discards (C01's subject).
//! Queries whose *shape* matches an open C01 known finding (`c01::shape_signature`) are discarded: those
//! defects are plan-shape dependent and would only be re-reported here.
//!
//! Non-trivial: at least one variant's physical plan text differs from the baseline's and the result is
//! non-empty. Deviation from DESIGN.md: no slt corpus pass, no source jitter scripts (MemTable sources only).
//!
//! Known findings (open, /verif/known_findings.json, cases under /verif/regressions/C02/c02/):
//!  * piecewise-merge-join-planner-unreachable — `enable_piecewise_merge_join=true` + a range join predicate with a
//!    column-free operand → panic `entered unreachable code` in physical_planner.rs (`side_of`);
//!  * smj-join-filter-index-out-of-bounds — `prefer_hash_join=false` + equi-join with an extra ON filter whose columns
//!    the select list does not use (projection pushed through SortMergeJoinExec, filter indices not remapped)
//!    → panic in sort_merge_join/filter.rs:163 `index out of bounds`.
//! Both are excluded by construction through `known_signature` (option present ∧ query shape).
//!
//! Sensitivity probes: not run for lack of machine time (each mutrun rebuild took ~30 min under the shared load);
//! the C01 probes A/B (limit pushdown, filter pushdown) exercise the same comparison code. Candidates prepared in
//! DESIGN.md §C02 (RepartitionExec hash seed per input partition; SortPreservingMergeExec final merge with fetch).
use crate::c01;
use proptest::prelude::*;
use serde::{Deserialize, Serialize};
use std::sync::OnceLock;
use vf_df::{ErrClass, Flavor, Outcome as DfOutcome, StrEncoding, Variant, execute_sql, run_in_context, run_sql};
use vf_kit::engine::*;
use vf_kit::refsql::{self, EvalOptions, GenConfig, RefResult, SqlCase};

pub struct C02;

#[derive(Clone, Debug, Serialize, Deserialize)]
pub struct Case {
    pub sql: SqlCase,
    pub variants: Vec<Variant>,
    /// also run 4 copies concurrently on one context (multi-thread runtime)
    pub concurrent: bool,
}

/// (option key, alternative values) — semantically neutral switches only
pub const OPTION_FLIPS: &[(&str, &[&str])] = &[
    ("datafusion.execution.coalesce_batches", &["false"]),
    ("datafusion.optimizer.repartition_joins", &["false"]),
    ("datafusion.optimizer.repartition_aggregations", &["false"]),
    ("datafusion.optimizer.repartition_sorts", &["false"]),
    ("datafusion.optimizer.repartition_windows", &["false"]),
    ("datafusion.optimizer.enable_round_robin_repartition", &["false"]),
    ("datafusion.optimizer.prefer_hash_join", &["false"]),
    ("datafusion.optimizer.enable_piecewise_merge_join", &["true"]),
    ("datafusion.optimizer.hash_join_single_partition_threshold", &["0"]),
    ("datafusion.optimizer.hash_join_single_partition_threshold_rows", &["0"]),
    ("datafusion.execution.perfect_hash_join_small_build_threshold", &["0", "1000000"]),
    ("datafusion.execution.perfect_hash_join_min_key_density", &["0.0", "1.0"]),
    ("datafusion.execution.hash_join_buffering_capacity", &["1", "1048576"]),
    ("datafusion.execution.enforce_batch_size_in_joins", &["true"]),
    ("datafusion.optimizer.enable_dynamic_filter_pushdown", &["false"]),
    ("datafusion.optimizer.enable_join_dynamic_filter_pushdown", &["false"]),
    ("datafusion.optimizer.enable_topk_dynamic_filter_pushdown", &["false"]),
    ("datafusion.optimizer.enable_aggregate_dynamic_filter_pushdown", &["false"]),
    ("datafusion.optimizer.enable_topk_aggregation", &["false"]),
    ("datafusion.optimizer.enable_topk_repartition", &["false"]),
    ("datafusion.optimizer.enable_window_limits", &["false"]),
    ("datafusion.optimizer.enable_window_topn", &["true"]),
    ("datafusion.optimizer.enable_sort_pushdown", &["false"]),
    ("datafusion.optimizer.enable_distinct_aggregation_soft_limit", &["false"]),
    ("datafusion.execution.enable_migration_aggregate", &["false"]),
    ("datafusion.execution.skip_partial_aggregation_probe_rows_threshold", &["1", "2"]),
    ("datafusion.execution.skip_partial_aggregation_probe_ratio_threshold", &["0.0"]),
    ("datafusion.execution.sort_in_place_threshold_bytes", &["0", "1"]),
    ("datafusion.optimizer.prefer_existing_sort", &["true"]),
    ("datafusion.optimizer.prefer_existing_union", &["true"]),
    ("datafusion.optimizer.top_down_join_key_reordering", &["false"]),
    ("datafusion.optimizer.join_reordering", &["false"]),
    ("datafusion.optimizer.subset_repartition_threshold", &["0", "1000"]),
    ("datafusion.optimizer.enable_physical_uncorrelated_scalar_subquery", &["false"]),
    ("datafusion.optimizer.enable_leaf_expression_pushdown", &["false"]),
    ("datafusion.optimizer.enable_unions_to_filter", &["true"]),
    ("datafusion.optimizer.filter_null_join_keys", &["true"]),
    ("datafusion.optimizer.use_statistics_registry", &["true"]),
    ("datafusion.execution.collect_statistics", &["false"]),
];

/// the subset of `OPTION_FLIPS` this engine build accepts (and the rejected names)
pub fn valid_flips() -> &'static (Vec<(&'static str, &'static [&'static str])>, Vec<String>) {
    static V: OnceLock<(Vec<(&'static str, &'static [&'static str])>, Vec<String>)> = OnceLock::new();
    V.get_or_init(|| {
        let mut ok = vec![];
        let mut bad = vec![];
        for (k, alts) in OPTION_FLIPS {
            let mut cfg = datafusion::prelude::SessionConfig::new();
            if alts.iter().all(|a| cfg.options_mut().set(k, a).is_ok()) {
                ok.push((*k, *alts));
            } else {
                bad.push(k.to_string());
            }
        }
        (ok, bad)
    })
}

pub fn variant_strategy() -> BoxedStrategy<Variant> {
    let n_opts = OPTION_FLIPS.len();
    (
        prop::sample::select(vec![1usize, 2, 3, 7, 16]),
        prop::sample::select(vec![None, Some(1usize), Some(2), Some(3), Some(8), Some(64)]),
        1usize..=5,
        prop::sample::select(vec![None, Some(1usize), Some(2), Some(3), Some(7)]),
        prop::sample::select(vec![Flavor::CurrentThread, Flavor::MultiThread(2), Flavor::MultiThread(8)]),
        prop::sample::select(vec![StrEncoding::Utf8, StrEncoding::Utf8, StrEncoding::Utf8View, StrEncoding::LargeUtf8]),
        prop::collection::vec(any::<u8>(), n_opts..=n_opts),
    )
        .prop_map(|(target_partitions, batch_size, mem_partitions, batch_rows, flavor, strings, flips)| {
            let mut options = vec![];
            for ((k, alts), b) in OPTION_FLIPS.iter().zip(flips) {
                // ~14 % of the switches are flipped; a zero byte (shrunk) leaves the default
                if b >= 220 {
                    options.push((k.to_string(), alts[(b as usize - 220) % alts.len()].to_string()));
                }
            }
            Variant { options, target_partitions, batch_size, mem_partitions, batch_rows, strings, flavor, timeout_ms: 30_000 }
        })
        .boxed()
}

pub fn gen_config(tier: Tier) -> GenConfig {
    let mut cfg = GenConfig::standard(3, tier.pick(40, 120), tier.pick(2, 3));
    cfg.min_rows = tier.pick(8, 20);
    cfg.tape_len = tier.pick(400, 700);
    cfg.topk_ties = false;
    cfg.unguarded_div_pct = 0;
    cfg.select_list_subquery_pct = 0;
    cfg
}

fn has_option(case: &Case, key: &str, val: &str) -> bool {
    case.variants.iter().any(|v| v.options.iter().any(|(k, x)| k == key && x == val))
}

/// some join ON (or a WHERE next to a join) carries a range comparison
fn join_with_range_predicate(q: &refsql::Query) -> bool {
    use refsql::{BinOp, Expr, SetExpr, TableRef};
    fn has_range(e: &Expr) -> bool {
        let mut f = false;
        refsql::eval::walk_expr_shallow(e, &mut |x| {
            if matches!(x, Expr::Bin(BinOp::Lt | BinOp::Le | BinOp::Gt | BinOp::Ge, ..) | Expr::Between { .. }) {
                f = true
            }
        });
        f
    }
    fn tref(t: &TableRef, found: &mut bool, joins: &mut usize) {
        if let TableRef::Join { left, right, on, .. } = t {
            *joins += 1;
            if on.as_ref().map(has_range).unwrap_or(false) {
                *found = true;
            }
            tref(left, found, joins);
            tref(right, found, joins);
        }
    }
    fn set(e: &SetExpr, found: &mut bool) {
        match e {
            SetExpr::Select(s) => {
                if let Some(t) = &s.from {
                    let mut joins = 0;
                    tref(t, found, &mut joins);
                    if joins > 0 && s.where_.as_ref().map(has_range).unwrap_or(false) {
                        *found = true;
                    }
                }
            }
            SetExpr::SetOp { left, right, .. } => {
                set(left, found);
                set(right, found)
            }
            SetExpr::Query(_) => {}
        }
    }
    let mut found = false;
    refsql::visit_queries(q, &mut |qq| set(&qq.body, &mut found));
    // decorrelated subqueries become joins too
    refsql::visit_exprs(q, &mut |e| {
        if let Expr::Scalar(sq) | Expr::Exists { q: sq, .. } | Expr::InSubquery { q: sq, .. } | Expr::Quantified { q: sq, .. } = e {
            if refsql::has_outer_refs(sq) {
                if let SetExpr::Select(s) = &sq.body {
                    if s.where_.as_ref().map(has_range).unwrap_or(false) {
                        found = true;
                    }
                }
            }
        }
    });
    found
}

/// a join (any kind) whose ON carries something besides column equalities, or a correlated subquery
/// (decorrelated into a join with filter) — the shapes whose SortMergeJoin gets a join filter
fn outer_join_with_filter(q: &refsql::Query) -> bool {
    use refsql::{BinOp, Expr, SetExpr, TableRef};
    fn pure_equi(e: &Expr) -> bool {
        match e {
            Expr::Bin(BinOp::And, l, r) => pure_equi(l) && pure_equi(r),
            Expr::Bin(BinOp::Eq, l, r) => matches!(**l, Expr::Col { .. }) && matches!(**r, Expr::Col { .. }),
            _ => false,
        }
    }
    fn tref(t: &TableRef, found: &mut bool) {
        if let TableRef::Join { left, right, on, .. } = t {
            if !on.as_ref().map(pure_equi).unwrap_or(true) {
                *found = true;
            }
            tref(left, found);
            tref(right, found);
        }
    }
    fn set(e: &SetExpr, found: &mut bool) {
        match e {
            SetExpr::Select(s) => {
                if let Some(t) = &s.from {
                    tref(t, found)
                }
            }
            SetExpr::SetOp { left, right, .. } => {
                set(left, found);
                set(right, found)
            }
            SetExpr::Query(_) => {}
        }
    }
    let mut found = false;
    refsql::visit_queries(q, &mut |qq| set(&qq.body, &mut found));
    if refsql::is_correlated(q) {
        found = true;
    }
    found
}

fn drop_invalid_options(v: &Variant) -> Variant {
    let valid = &valid_flips().0;
    let mut v = v.clone();
    v.options.retain(|(k, _)| valid.iter().any(|(vk, _)| vk == k));
    v
}

impl Property for C02 {
    type Case = Case;
    fn id(&self) -> &'static str {
        "C02"
    }
    fn sub(&self) -> &'static str {
        "c02"
    }
    fn strategy(&self, tier: Tier) -> BoxedStrategy<Case> {
        let n = tier.pick(4, 8);
        (refsql::case_strategy(&gen_config(tier)), prop::collection::vec(variant_strategy(), n..=n), any::<bool>()).prop_map(|(sql, variants, concurrent)| Case { sql, variants, concurrent }).boxed()
    }
    fn budget(&self, tier: Tier) -> Budget {
        Budget::new(tier.pick(240, 12_000), tier.pick(8, 16)).min_nontrivial(tier.pick(40, 2_000)).discard_cap(0.6).case_timeout(120).shrink(1500, 180)
    }
    fn rule(&self) -> String {
        format!(
            "C01 generator restricted to deterministic queries (confirmed by the reference evaluator on the data) over 8-40 (thorough 20-120) row tables x 4 (8) sampled variants \
             (target_partitions, batch_size, MemTable partition/batch split, string encoding, tokio flavour, random flips of {} neutral switches; rejected option names: {:?}) + run-twice + 4 concurrent copies; \
             non-trivial = some variant's physical plan differs textually from the baseline's and the result is non-empty; distinct by case JSON (query, data, variants)",
            valid_flips().0.len(),
            valid_flips().1
        )
    }
    fn assumptions(&self) -> Vec<String> {
        vec![
            "the baseline (1 partition, default options) is the reference; its correctness is C01's subject".into(),
            "only semantically neutral options are varied (none of enable_ansi_mode, time_zone, sql_parser.*, schema_force_view_types)".into(),
            "queries are deterministic on the generated data according to vf_kit::refsql (no LIMIT over ties, total orders for order-sensitive windows)".into(),
            "floats compared with relative tolerance 1e-9 (dyadic inputs)".into(),
        ]
    }
    fn known_signature(&self, case: &Case) -> Option<String> {
        let q = &case.sql.query;
        if has_option(case, "datafusion.optimizer.enable_piecewise_merge_join", "true") && join_with_range_predicate(q) {
            return Some("piecewise-merge-join-planner-unreachable".into());
        }
        if has_option(case, "datafusion.optimizer.prefer_hash_join", "false") && outer_join_with_filter(q) {
            return Some("smj-join-filter-index-out-of-bounds".into());
        }
        None
    }
    fn run(&self, case: &Case) -> CaseResult {
        let q = &case.sql.query;
        let sql = refsql::to_sql(q);
        let feats = refsql::features(q);
        let base = |r: CaseResult| r.labels(feats.iter().cloned());
        if let Some(sig) = c01::shape_signature(q) {
            return base(CaseResult::discard(format!("shape of C01 known finding {sig}")));
        }
        // determinism on this data
        let reference = match refsql::eval_with(q, &case.sql.db(), &EvalOptions { fuel: 4_000_000, recursion_cap: 64, max_rows: 50_000 }) {
            Ok(r) if r.topk.is_none() => r,
            Ok(_) => return base(CaseResult::discard("reference: top-level LIMIT over ties")),
            Err(e) => {
                if refsql::classify(&e) == refsql::RefErrorClass::HarnessBug {
                    panic!("refsql cannot evaluate a generated query ({e}): {sql}");
                }
                return base(CaseResult::discard(format!(
                    "reference: {}",
                    match e {
                        refsql::RefError::Nondeterministic(_) => "Nondeterministic".to_string(),
                        o => format!("{o:?}"),
                    }
                )));
            }
        };
        let baseline = run_sql(&case.sql.tables, &sql, &Variant::default(), true);
        let base_rows = match &baseline.outcome {
            DfOutcome::Rows(r) => r.clone(),
            DfOutcome::Timeout => return base(CaseResult::inconclusive("baseline timeout")),
            DfOutcome::Error(e) => return base(CaseResult::discard(format!("baseline failed: {:?}", e.class))),
        };
        let expect = RefResult { cols: reference.cols.clone(), rows: base_rows.clone(), order_by: reference.order_by.clone(), inexact: reference.inexact, topk: None };
        let base_plan = baseline.plans.as_ref().map(|p| p.physical.clone()).unwrap_or_default();
        let mut labels: Vec<String> = vec![];
        let mut plan_differs = false;
        let mut compared = 0;
        let describe = |v: &Variant| format!("\n  variant: {}\n  sql: {sql}\n  repro script:\n{}", serde_json::to_string(v).unwrap_or_default(), vf_df::repro_script(&case.sql.tables, &sql));
        for (i, v) in case.variants.iter().enumerate() {
            let v = drop_invalid_options(v);
            let runs = if i == 0 { 2 } else { 1 };
            for run in 0..runs {
                let out = run_sql(&case.sql.tables, &sql, &v, true);
                match &out.outcome {
                    DfOutcome::Timeout => return base(CaseResult::inconclusive("variant timeout")).labels(labels),
                    DfOutcome::Error(e) if e.class.is_clean_rejection() => {
                        labels.push(format!("variant-rejected:{:?}", e.class));
                    }
                    DfOutcome::Error(e) => {
                        return base(CaseResult::violation(format!("variant {i} fails with {:?} at {:?} ({}) while the baseline returns {} rows{}", e.class, e.stage, e.message, base_rows.len(), describe(&v)))).label("variant-error");
                    }
                    DfOutcome::Rows(rows) => {
                        compared += 1;
                        if let Some(p) = &out.plans {
                            if p.physical != base_plan {
                                plan_differs = true;
                            }
                        }
                        if let Err(m) = refsql::check_result(&expect, rows) {
                            if m.float_only && reference.inexact {
                                return base(CaseResult::inconclusive("float mismatch after inexact float arithmetic"));
                            }
                            let what = if run == 1 { "second run of variant" } else { "variant" };
                            return base(CaseResult::violation(format!(
                                "{what} {i} returns different rows than the baseline: {}\n  baseline plan:\n{base_plan}\n  variant plan:\n{}{}",
                                m.message,
                                out.plans.as_ref().map(|p| p.physical.as_str()).unwrap_or(""),
                                describe(&v)
                            )))
                            .label("variant-differs");
                        }
                    }
                }
            }
        }
        if case.concurrent {
            if let Some(v0) = case.variants.first() {
                let mut v = drop_invalid_options(v0);
                if v.flavor == Flavor::CurrentThread {
                    v.flavor = Flavor::MultiThread(4);
                }
                let sql2 = sql.clone();
                let r = run_in_context(&case.sql.tables, &v, |b| b, |ctx| async move {
                    let (a, b, c, d) = futures::join!(execute_sql(&ctx, &sql2, false), execute_sql(&ctx, &sql2, false), execute_sql(&ctx, &sql2, false), execute_sql(&ctx, &sql2, false));
                    vec![a.0, b.0, c.0, d.0]
                });
                match r {
                    Err(e) => return base(CaseResult::inconclusive(format!("concurrent setup failed: {}", e.message))),
                    Ok(None) => return base(CaseResult::inconclusive("concurrent run timeout")),
                    Ok(Some(outs)) => {
                        labels.push("concurrent".into());
                        for (k, o) in outs.iter().enumerate() {
                            match o {
                                DfOutcome::Rows(rows) => {
                                    if let Err(m) = refsql::check_result(&expect, rows) {
                                        if m.float_only && reference.inexact {
                                            return base(CaseResult::inconclusive("float mismatch after inexact float arithmetic"));
                                        }
                                        return base(CaseResult::violation(format!("concurrent copy {k} on a shared SessionContext returns different rows than the baseline: {}{}", m.message, describe(&v)))).label("concurrent-differs");
                                    }
                                }
                                DfOutcome::Error(e) if e.class.is_clean_rejection() => labels.push(format!("variant-rejected:{:?}", e.class)),
                                DfOutcome::Error(e) => {
                                    return base(CaseResult::violation(format!("concurrent copy {k} fails with {:?} ({}) while the baseline succeeds{}", e.class, e.message, describe(&v)))).label("variant-error");
                                }
                                DfOutcome::Timeout => return base(CaseResult::inconclusive("concurrent run timeout")),
                            }
                        }
                    }
                }
            }
        }
        let _ = ErrClass::Plan;
        if compared == 0 {
            return base(CaseResult::discard("every variant was rejected")).labels(labels);
        }
        if plan_differs {
            labels.push("plan-differs".into());
        }
        base(CaseResult::pass().nontrivial(plan_differs && !base_rows.is_empty())).labels(labels).label(if base_rows.is_empty() { "empty-result" } else { "non-empty" })
    }
}
