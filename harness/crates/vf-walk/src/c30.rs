//! C30 — produced batches conform to the declared schema (plan-walker part; the function-level part lives in C32).
//!
//! Domain: the walker's cases (`walk.rs`): refsql queries (joins, aggregates incl. grouping sets, windows, set
//! operations, subqueries, CTEs, LIMIT) and template queries (`tmpl.rs`: casts, math/string/timestamp functions,
//! windows, grouped aggregates, unions, outer joins) over MemTables in three string encodings, 1–8 target
//! partitions, small batch sizes, sampled optimizer switches, declared source orderings.
//!
//! Oracle, for every node of the physical plan (isolated, state-reset re-execution of its subtree) and every
//! batch it emits: column count = number of declared fields; each column's `data_type()` is exactly the declared
//! field type (also the batch's own schema); a field declared non-nullable holds no NULL (`logical_null_count`),
//! recursively for struct children declared non-nullable (rows where the parent is NULL excepted). Top level: the
//! executed root's column types are logically equal (`DFSchema::datatype_is_logically_equal`) to the types of the
//! logical plan's schema — both the analyzed plan (after the analyzer's type coercion) and the optimized plan — and
//! the field names are equal. The schema of the plan as it leaves the SQL planner, *before* the analyzer, is not
//! judged: a UNION of Utf8 and LargeUtf8 inputs is typed Utf8 there and LargeUtf8 after coercion (label
//! `pre-analysis-schema-type-differs`); a plan is only required to be type-correct once analyzed.
//!
//! Non-trivial: the plan has ≥ 3 executed nodes, some batch with ≥ 1 row was checked, and some node declares a
//! non-nullable column or the plan contains a cast/aggregate/window/join (a non-trivially typed expression).
//!
//! Not judged: run-time errors of a node (division by zero, cast overflow: C01/C20) — including arrow's refusal
//! "declared as non-nullable but contains null values" (no batch is emitted then; label `arrow-refused-null-in-non-nullable`)
//! — and planning failures incl. panics of the physical planner (discard).
//!
//! Known finding (open): `placeholder-row-declares-aggregate-schema` (the repair — empty placeholder schema — was committed and
//! REVERTED in /repo: it turned an Internal error of another query into a panic in ProjectionExec::replace_children).
//! Observations outside the statement (cases under observations/, not known findings): a SortMergeJoinExec with a filter
//! FAILS with arrow's "declared as non-nullable but contains null values" when an input column is NOT NULL
//! (CREATE TABLE t0(id BIGINT NOT NULL, a BIGINT) …; prefer_hash_join=false; t0 r0 LEFT JOIN t0 r1 ON r0.id = r1.a AND r0.a <> r1.id).
//!
//! Sensitivity probes (probes.diff, `VFW_MUT=`):
//! * `union-nullable` — UnionExec takes the first input's nullability: CAUGHT at quick tier (131 cases: "UnionExec partition 1
//!   batch 0: field k0 (Utf8View) is declared non-nullable but holds 1 NULL(s)").
//! * `join-nullable` — outer joins no longer force the padded side nullable: NOT caught — arrow's RecordBatch::try_new
//!   refuses the batch, the operator fails instead of emitting it, and run-time errors are not judged. Sources with a
//!   NOT NULL `id` column were added for this; a stricter reading (counting that refusal) was tried and withdrawn.
use datafusion::arrow::array::{Array, ArrayRef, AsArray};
use datafusion::arrow::datatypes::{DataType, Field};
use datafusion::common::DFSchema;
use proptest::prelude::*;
use vf_kit::engine::*;

use crate::walk::{self, Finding, Judged, Program, Purpose, Walk, WalkCase, WalkFail};

pub struct C30;

/// NULLs where the declaration forbids them: returns a description of the first offence
fn null_offence(field: &Field, col: &ArrayRef, parent_valid: Option<&datafusion::arrow::buffer::NullBuffer>) -> Option<String> {
    if !field.is_nullable() {
        let nulls = col.logical_nulls();
        let bad = match (&nulls, parent_valid) {
            (None, _) => 0,
            (Some(n), None) => n.null_count(),
            (Some(n), Some(pv)) => (0..col.len()).filter(|i| n.is_null(*i) && pv.is_valid(*i)).count(),
        };
        if bad > 0 {
            return Some(format!("field {:?} ({}) is declared non-nullable but holds {bad} NULL(s) in a batch of {} rows", field.name(), field.data_type(), col.len()));
        }
    }
    if let DataType::Struct(children) = field.data_type() {
        if let Some(s) = col.as_struct_opt() {
            // validity of this level combined with the parents'
            let own = s.logical_nulls();
            let combined = match (own, parent_valid) {
                (None, None) => None,
                (Some(o), None) => Some(o),
                (None, Some(p)) => Some(p.clone()),
                (Some(o), Some(p)) => Some(datafusion::arrow::buffer::NullBuffer::new(o.inner() & p.inner())),
            };
            for (cf, ca) in children.iter().zip(s.columns()) {
                if let Some(m) = null_offence(cf, ca, combined.as_ref()) {
                    return Some(format!("{} → {m}", field.name()));
                }
            }
        }
    }
    None
}

pub struct Facts {
    pub refused_null_batches: usize,
    pub batches: usize,
    pub rows: usize,
    pub nonnull_fields: usize,
    pub nodes: usize,
}

fn check_node(n: &walk::WalkNode, f: &mut Facts) -> Result<(), String> {
    let parts = match &n.parts {
        Ok(p) => p,
        Err(e) => {
            // arrow refuses to build a batch that holds a NULL in a column its schema declares non-nullable: the operator's
            // run-time error IS the observation of a batch that does not conform to the declared schema
            if e.message.contains("declared as non-nullable but contains null values") {
                // the operator never EMITS that batch (the query fails instead): outside the statement, recorded only
                f.refused_null_batches += 1;
            }
            return Ok(());
        }
    };
    f.nodes += 1;
    let schema = n.plan.schema();
    f.nonnull_fields += schema.fields().iter().filter(|x| !x.is_nullable()).count();
    for (pi, part) in parts.iter().enumerate() {
        for (bi, b) in part.iter().enumerate() {
            f.batches += 1;
            f.rows += b.num_rows();
            let at = || format!("node [{}] {} partition {pi} batch {bi}", n.path, n.display);
            if b.num_columns() != schema.fields().len() {
                return Err(format!("{}: batch has {} columns, the operator declares {}", at(), b.num_columns(), schema.fields().len()));
            }
            for (ci, field) in schema.fields().iter().enumerate() {
                let col = b.column(ci);
                if col.data_type() != field.data_type() {
                    return Err(format!("{}: column {ci} ({:?}) has type {} but the operator declares {}", at(), field.name(), col.data_type(), field.data_type()));
                }
                let bs = b.schema();
                if bs.field(ci).data_type() != field.data_type() {
                    return Err(format!("{}: the batch schema says {} for column {ci} ({:?}), the operator declares {}", at(), bs.field(ci).data_type(), field.name(), field.data_type()));
                }
                if let Some(m) = null_offence(field, col, None) {
                    return Err(format!("{}: {m}", at()));
                }
            }
        }
    }
    Ok(())
}

fn check_top(w: &Walk) -> Result<(), String> {
    // top level: logical vs executed
    if let Some(root) = w.nodes.first() {
        if let (true, Ok(parts)) = (root.path.is_empty(), &root.parts) {
            let pschema = root.plan.schema();
            let mut refs = vec![("optimized logical plan", &w.optimized_schema)];
            if let Some(a) = &w.analyzed_schema {
                refs.push(("analyzed logical plan", a));
            }
            for (which, ls) in refs {
                if ls.fields().len() != pschema.fields().len() {
                    return Err(format!("the {which} has {} output columns, the physical plan {}", ls.fields().len(), pschema.fields().len()));
                }
                for (i, lf) in ls.fields().iter().enumerate() {
                    let pf = pschema.field(i);
                    if lf.name() != pf.name() {
                        return Err(format!("output column {i}: the {which} names it {:?}, the physical plan {:?}", lf.name(), pf.name()));
                    }
                    if !DFSchema::datatype_is_logically_equal(lf.data_type(), pf.data_type()) {
                        return Err(format!("output column {i} ({:?}): the {which} declares {}, the physical plan {}", lf.name(), lf.data_type(), pf.data_type()));
                    }
                    for b in parts.iter().flatten() {
                        if i < b.num_columns() && !DFSchema::datatype_is_logically_equal(lf.data_type(), b.column(i).data_type()) {
                            return Err(format!("output column {i} ({:?}): the {which} declares {}, the executed batches hold {}", lf.name(), lf.data_type(), b.column(i).data_type()));
                        }
                    }
                }
            }
        }
    }
    Ok(())
}

/// all violated claims (at most one per node, plus the top-level comparison)
pub fn check(w: &Walk) -> (Facts, Vec<Finding>) {
    let mut f = Facts { refused_null_batches: 0, batches: 0, rows: 0, nonnull_fields: 0, nodes: 0 };
    let mut findings = vec![];
    for n in &w.nodes {
        if let Err(msg) = check_node(n, &mut f) {
            // known finding: the aggregate-from-statistics rewrite leaves a PlaceholderRowExec declaring the aggregate's schema
            // known finding (open again: its repair was reverted in /repo): the aggregate-from-statistics rewrite leaves a
            // PlaceholderRowExec declaring the aggregate's schema
            let sig = (n.name == "PlaceholderRowExec").then(|| "placeholder-row-declares-aggregate-schema".to_string());
            findings.push(Finding { sig, msg });
        }
    }
    if let Err(msg) = check_top(w) {
        findings.push(Finding { sig: None, msg });
    }
    (f, findings)
}

pub fn typed_ops(w: &Walk) -> bool {
    w.nodes.iter().any(|n| n.name.contains("Aggregate") || n.name.contains("Window") || n.name.contains("Join") || n.display.contains("CAST("))
}

pub fn fail_result(e: WalkFail) -> CaseResult {
    match e {
        WalkFail::Timeout => CaseResult::inconclusive("walk timeout"),
        WalkFail::Setup(m) => panic!("walker setup failed: {m}"),
        WalkFail::Plan(e) => CaseResult::discard(walk::discard_key(&e)).label("engine-rejected-or-failed-planning"),
    }
}

/// a failed walk as a judgement: every planning failure — a panic of the physical planner included (recorded with its
/// own reason; it says nothing about the walker properties) — is a discard
pub fn fail_judged(e: WalkFail, _case: &WalkCase) -> Judged {
    if let WalkFail::Plan(pe) = &e {
        if pe.stage == "physical-planner-panic" {
            return Judged::clean(CaseResult::discard(format!("the physical planner panicked: {}", truncate(&pe.message, 50))).label("planner-panic"));
        }
    }
    Judged::clean(fail_result(e))
}

impl Property for C30 {
    type Case = WalkCase;
    fn id(&self) -> &'static str {
        "C30"
    }
    fn sub(&self) -> &'static str {
        "c30"
    }
    fn strategy(&self, tier: Tier) -> BoxedStrategy<WalkCase> {
        walk::case_strategy(tier, Purpose::Props, 3, 2)
    }
    fn budget(&self, tier: Tier) -> Budget {
        Budget::new(tier.pick(480, 30_000), tier.pick(8, 16)).min_nontrivial(tier.pick(150, 8_000)).case_timeout(90)
    }
    fn rule(&self) -> String {
        "tables t0..t2 + a refsql query or a template query + a sampled variant (partitions, batch sizes, string encoding, optimizer switches) + source order declarations; \
         every node of the physical plan is re-executed in isolation and every batch checked; non-trivial = ≥ 3 executed nodes, ≥ 1 checked row, and a declared non-nullable column \
         or a cast/aggregate/window/join in the plan; distinct by case JSON"
            .into()
    }
    fn assumptions(&self) -> Vec<String> {
        vec![
            "reset_plan_states + collect_partitioned re-execute a subtree faithfully (same operators, same inputs)".into(),
            "arrow's Array::logical_nulls / data_type report the array contents".into(),
        ]
    }
    fn known_signature(&self, case: &WalkCase) -> Option<String> {
        walk::judged_signature("c30", case, || judge(case))
    }
    fn run(&self, case: &WalkCase) -> CaseResult {
        walk::judged_result("c30", case, || judge(case))
    }
}

fn judge(case: &WalkCase) -> Judged {
    let w = match walk::walk(case) {
        Ok(w) => w,
        Err(e) => return fail_judged(e, case),
    };
    let labels = walk::plan_labels(case, &w);
    let (f, mut findings) = check(&w);
    for x in &mut findings {
        x.msg = format!("{}{}\n  plan:\n{}", x.msg, case.describe(), w.plan_text);
    }
    let nt = f.nodes >= 3 && f.rows >= 1 && (f.nonnull_fields > 0 || typed_ops(&w));
    let mut r = CaseResult::pass().nontrivial(nt).labels(labels);
    if f.nonnull_fields > 0 {
        r = r.label("declares-non-nullable");
    }
    if f.refused_null_batches > 0 {
        r = r.label("arrow-refused-null-in-non-nullable");
    }
    if w.nodes.iter().any(|n| n.parts.is_err()) {
        r = r.label("node-runtime-error");
    }
    // the SQL planner's schema before the analyzer's type coercion may differ (UNION of Utf8 / LargeUtf8 …): recorded, not judged
    if let Some(root) = w.nodes.first() {
        let ps = root.plan.schema();
        if w.logical_schema.fields().len() == ps.fields().len() && w.logical_schema.fields().iter().zip(ps.fields().iter()).any(|(l, p)| !DFSchema::datatype_is_logically_equal(l.data_type(), p.data_type())) {
            r = r.label("pre-analysis-schema-type-differs");
        }
    }
    if let Program::Tmpl(t) = &case.program {
        r = r.labels(t.features());
    }
    Judged { findings, result: r }
}
