//! C28 — declared output orderings, equivalences, constants and partitionings hold on the data.
//!
//! Domain: the walker's cases (`walk.rs`): refsql queries and template queries (`tmpl.rs`: projections through
//! monotonic and non-monotonic functions, equality filters, ORDER BY on derived expressions, windows, grouped
//! aggregation on sorted keys, UNION ALL / joins of sorted inputs, nested TopK) over MemTables that are unsorted
//! or DECLARE a sort order the harness verified on the registered Arrow data (1–3 keys, ASC/DESC, NULLS
//! FIRST/LAST, optionally further single-column orderings that happen to hold), under sampled variants
//! (1–8 target partitions, batch sizes, MemTable partition/batch split, string encodings, join-algorithm
//! preference, repartition switches, prefer_existing_sort/union, dynamic filters on/off, sort pushdown).
//!
//! Oracle, per node (isolated state-reset re-execution of its subtree, all partitions run concurrently) and per
//! output partition (batches concatenated in emission order), with the node's own `PlanProperties`:
//! * every `LexOrdering` of `equivalence_properties().oeq_class()` and `output_ordering()`: the sort expressions
//!   are evaluated on the partition's rows and every adjacent row pair must be ≤ under the declared `SortOptions`
//!   (arrow-ord comparators; ±0.0 identified and NaNs identified, so only a real inversion counts);
//! * every equivalence class: all members evaluate to the same value on every row (NULL ≡ NULL, ±0.0 identified);
//! * every constant class: one single value per partition; `Uniform` → the same value in all partitions;
//!   `Uniform(Some(v))` → that value is `v`;
//! * `Partitioning::Hash(exprs, n)`: `n` partitions are produced and no key value (NULL ≡ NULL) occurs in two
//!   partitions; `Range`: every row lies between its partition's split points (lower inclusive, upper exclusive);
//!   the declared partition count equals the number of executed partitions; `UnknownPartitioning` /
//!   `RoundRobinBatch` demand nothing else.
//! An expression that cannot be evaluated on the output (run-time error) or members of differing Arrow types
//! are skipped and labelled, never judged.
//!
//! Non-trivial: some non-leaf node carries a checked claim on a partition with ≥ 2 rows (orderings / equivalences
//! / constants) or a hash partitioning with ≥ 2 non-empty partitions.
//!
//! Deviations from DESIGN.md: Parquet `WITH ORDER` sources are not used here (C24 covers declared file orders);
//! declared orderings come from `MemTable::with_sort_order`.
//!
//! Known findings (open, /verif/known_findings.json; outcome-keyed: a case is excluded only when it fails and every
//! violated claim in it is an instance of an open finding): `running-window-aggregate-ordering-ignores-leading-nulls`
//! (WRONG RESULT), `merge-keeps-orderings-other-than-the-merge-key`, (FIXED in /repo, cases are plain regressions:
//! `outer-join-constant-of-null-padded-side`, `topk-aggregate-keeps-input-ordering`),
//! `sliding-window-count-declared-monotonic` (no repair proposed), `join-suffix-ordering-with-tied-probe-keys` (WRONG RESULT;
//! fix fixes/C28-join-suffix-ordering-with-tied-probe-keys.diff written, applies, NOT verified with mutrun).
//! Panics of operators during a node's execution are carried as node errors (label `node-panic`), not judged.
//!
//! Sensitivity probes (probes.diff, env-gated `VFW_MUT=<name>`, run with tools/mutrun on top of the fix patches):
//! * `repart-order` — RepartitionExec::maintains_input_order always true: CAUGHT at quick tier (95 cases: "RepartitionExec
//!   … declares the ordering [p@2 ASC] but partition 0 has row 2 = (false) followed by row 3 = (Null)").
//! * `hj-order` — HashJoinExec keeps the probe-side order for Left/Full joins: the run fails, but through a planner
//!   `unreachable!()` the mutation triggers, not through a data check — not counted as caught.
//! * `neg-order` — NegativeExpr keeps instead of reversing the sort direction: patch written, NOT RUN (time).
use datafusion::arrow::array::{ArrayRef, RecordBatch};
use datafusion::arrow::compute::SortOptions;
use datafusion::physical_expr::equivalence::AcrossPartitions;
use datafusion::physical_expr::{LexOrdering, Partitioning, PhysicalExpr};
use proptest::prelude::*;
use std::collections::BTreeMap;
use std::sync::Arc;
use vf_kit::engine::*;

use crate::walk::{self, Finding, Judged, Program, Purpose, Walk, WalkCase, WalkNode, concat, fmt_value, lex_violation, row_keys};

pub struct C28;

#[derive(Default)]
pub struct Facts {
    pub labels: Vec<String>,
    pub nontrivial: bool,
    pub claims: usize,
}

impl Facts {
    fn label(&mut self, l: impl Into<String>) {
        let l = l.into();
        if !self.labels.contains(&l) {
            self.labels.push(l);
        }
    }
}

fn eval(e: &Arc<dyn PhysicalExpr>, b: &RecordBatch) -> Result<ArrayRef, String> {
    e.evaluate(b).and_then(|v| v.into_array(b.num_rows())).map_err(|e| e.to_string())
}

fn is_column(e: &Arc<dyn PhysicalExpr>) -> bool {
    e.is::<datafusion::physical_expr::expressions::Column>()
}

fn check_ordering(n: &WalkNode, what: &str, o: &LexOrdering, batches: &[RecordBatch], f: &mut Facts) -> Result<(), String> {
    for (pi, b) in batches.iter().enumerate() {
        if b.num_rows() < 2 {
            continue;
        }
        let mut cols: Vec<(ArrayRef, SortOptions)> = vec![];
        for se in o.iter() {
            match eval(&se.expr, b) {
                Ok(a) => cols.push((a, se.options)),
                Err(_) => {
                    f.label("skip:sort-expr-eval-error");
                    return Ok(());
                }
            }
        }
        match lex_violation(&cols) {
            Err(_) => {
                f.label("skip:sort-expr-not-comparable");
                return Ok(());
            }
            Ok(None) => {}
            Ok(Some(i)) => {
                let show = |r: usize| cols.iter().map(|(a, _)| fmt_value(a, r)).collect::<Vec<_>>().join(", ");
                return Err(format!(
                    "node [{}] {} declares {what} [{o}] but partition {pi} has row {i} = ({}) followed by row {} = ({})",
                    n.path,
                    n.display,
                    show(i),
                    i + 1,
                    show(i + 1)
                ));
            }
        }
        f.claims += 1;
        if !n.plan.children().is_empty() {
            f.nontrivial = true;
        }
    }
    Ok(())
}

pub fn check_node(n: &WalkNode, f: &mut Facts) -> Result<(), String> {
    let Ok(parts) = &n.parts else { return Ok(()) };
    let props = n.plan.properties();
    let schema = n.plan.schema();
    let declared_parts = props.output_partitioning().partition_count();
    if declared_parts != parts.len() {
        return Err(format!("node [{}] {} declares {} output partitions but {} were executed", n.path, n.display, declared_parts, parts.len()));
    }
    let mut batches = vec![];
    for p in parts {
        match concat(&schema, p) {
            Ok(b) => batches.push(b),
            Err(_) => {
                // batches of one partition with differing schemas: C30's business
                f.label("skip:concat-failed");
                return Ok(());
            }
        }
    }
    let eq = props.equivalence_properties();
    let leaf = n.plan.children().is_empty();

    // orderings
    for o in eq.oeq_class().iter() {
        f.label("claim:ordering");
        f.label(format!("ordering@{}", n.name));
        if o.iter().any(|se| !is_column(&se.expr)) {
            f.label("claim:ordering-on-expression");
        }
        // an ordering on an output column of a projection that computes it (monotonic function projections)
        if let Some(pe) = n.plan.downcast_ref::<datafusion::physical_plan::projection::ProjectionExec>() {
            for se in o.iter() {
                if let Some(c) = se.expr.downcast_ref::<datafusion::physical_expr::expressions::Column>() {
                    if let Some(px) = pe.expr().get(c.index()) {
                        if !is_column(&px.expr) {
                            f.label("claim:ordering-through-computed-projection");
                        }
                    }
                }
            }
        }
        if o.len() > 1 {
            f.label("claim:ordering-multi-key");
        }
        check_ordering(n, "the ordering", o, &batches, f)?;
    }
    if eq.oeq_class().len() > 1 {
        f.label("claim:several-orderings");
    }
    if let Some(o) = props.output_ordering() {
        check_ordering(n, "output_ordering()", o, &batches, f)?;
    }

    // equivalence classes and constants
    for class in eq.eq_group().iter() {
        let exprs: Vec<Arc<dyn PhysicalExpr>> = class.iter().cloned().collect();
        if exprs.len() > 1 {
            f.label("claim:eq-class");
            f.label(format!("eq-class@{}", n.name));
            for (pi, b) in batches.iter().enumerate() {
                if b.num_rows() == 0 {
                    continue;
                }
                let mut arrays = vec![];
                for e in &exprs {
                    match eval(e, b) {
                        Ok(a) => arrays.push(a),
                        Err(_) => {
                            f.label("skip:eq-expr-eval-error");
                            arrays.clear();
                            break;
                        }
                    }
                }
                if arrays.is_empty() {
                    continue;
                }
                if arrays.iter().any(|a| a.data_type() != arrays[0].data_type()) {
                    f.label("skip:eq-class-mixed-types");
                    continue;
                }
                let keys: Vec<Vec<Vec<u8>>> = match arrays.iter().map(|a| row_keys(&[a.clone()])).collect() {
                    Ok(k) => k,
                    Err(_) => {
                        f.label("skip:eq-class-not-comparable");
                        continue;
                    }
                };
                for r in 0..b.num_rows() {
                    for m in 1..keys.len() {
                        if keys[m][r] != keys[0][r] {
                            return Err(format!(
                                "node [{}] {} declares the equivalence class [{}] but in partition {pi} row {r} has {} = {} and {} = {}",
                                n.path,
                                n.display,
                                exprs.iter().map(|e| e.to_string()).collect::<Vec<_>>().join(", "),
                                exprs[0],
                                fmt_value(&arrays[0], r),
                                exprs[m],
                                fmt_value(&arrays[m], r)
                            ));
                        }
                    }
                }
                f.claims += 1;
                if !leaf && b.num_rows() >= 2 {
                    f.nontrivial = true;
                }
            }
        }
    }
    for c in eq.constants() {
        f.label("claim:constant");
        f.label(format!("constant@{}", n.name));
        let mut first: Option<(usize, Vec<u8>, String)> = None;
        let uniform = matches!(c.across_partitions, AcrossPartitions::Uniform(_));
        if uniform {
            f.label("claim:constant-uniform");
        }
        for (pi, b) in batches.iter().enumerate() {
            if b.num_rows() == 0 {
                continue;
            }
            let Ok(a) = eval(&c.expr, b) else {
                f.label("skip:const-expr-eval-error");
                break;
            };
            let mut cmp_arrays = vec![a.clone()];
            if let AcrossPartitions::Uniform(Some(v)) = &c.across_partitions {
                f.label("claim:constant-with-value");
                match v.to_array_of_size(1) {
                    Ok(va) if va.data_type() == a.data_type() => cmp_arrays.push(va),
                    _ => f.label("skip:const-value-type-differs"),
                }
            }
            let Ok(keys) = row_keys(&[a.clone()]) else {
                f.label("skip:const-not-comparable");
                break;
            };
            for r in 1..keys.len() {
                if keys[r] != keys[0] {
                    return Err(format!(
                        "node [{}] {} declares {} constant but partition {pi} holds {} (row 0) and {} (row {r})",
                        n.path,
                        n.display,
                        c.expr,
                        fmt_value(&a, 0),
                        fmt_value(&a, r)
                    ));
                }
            }
            if cmp_arrays.len() == 2 {
                if let Ok(vk) = row_keys(&[cmp_arrays[1].clone()]) {
                    if vk[0] != keys[0] {
                        return Err(format!(
                            "node [{}] {} declares {} constant with value {} but partition {pi} holds {}",
                            n.path,
                            n.display,
                            c.expr,
                            fmt_value(&cmp_arrays[1], 0),
                            fmt_value(&a, 0)
                        ));
                    }
                }
            }
            if uniform {
                match &first {
                    None => first = Some((pi, keys[0].clone(), fmt_value(&a, 0))),
                    Some((p0, k0, v0)) => {
                        if *k0 != keys[0] {
                            return Err(format!(
                                "node [{}] {} declares {} constant across partitions but partition {p0} holds {v0} and partition {pi} holds {}",
                                n.path,
                                n.display,
                                c.expr,
                                fmt_value(&a, 0)
                            ));
                        }
                    }
                }
            }
            f.claims += 1;
            if !leaf && b.num_rows() >= 2 {
                f.nontrivial = true;
            }
        }
    }

    // partitioning
    match props.output_partitioning() {
        Partitioning::Hash(exprs, _) if !exprs.is_empty() => {
            f.label("claim:hash-partitioning");
            f.label(format!("hash@{}", n.name));
            let mut home: BTreeMap<Vec<u8>, (usize, String)> = BTreeMap::new();
            let mut nonempty = 0;
            let mut ok = true;
            for (pi, b) in batches.iter().enumerate() {
                if b.num_rows() == 0 {
                    continue;
                }
                nonempty += 1;
                let arrays: Result<Vec<ArrayRef>, String> = exprs.iter().map(|e| eval(e, b)).collect();
                let Ok(arrays) = arrays else {
                    f.label("skip:hash-expr-eval-error");
                    f.label(format!("skip:hash-expr-eval-error@{}", n.name));
                    if std::env::var_os("VFW_DEBUG").is_some() {
                        eprintln!("HASH-EXPR-EVAL-ERROR node [{}] {} partitioning {} schema {:?}: {:?}", n.path, n.display, props.output_partitioning(), n.plan.schema().fields().iter().map(|x| x.name().clone()).collect::<Vec<_>>(), arrays.err());
                    }
                    ok = false;
                    break;
                };
                let Ok(keys) = row_keys(&arrays) else {
                    f.label("skip:hash-key-not-comparable");
                    ok = false;
                    break;
                };
                for (r, k) in keys.into_iter().enumerate() {
                    let show = || arrays.iter().map(|a| fmt_value(a, r)).collect::<Vec<_>>().join(", ");
                    match home.get(&k) {
                        None => {
                            home.insert(k, (pi, show()));
                        }
                        Some((p0, _)) if *p0 == pi => {}
                        Some((p0, v0)) => {
                            return Err(format!(
                                "node [{}] {} declares {} but the key ({v0}) occurs in partition {p0} and in partition {pi} (row {r}: ({}))",
                                n.path,
                                n.display,
                                props.output_partitioning(),
                                show()
                            ));
                        }
                    }
                }
            }
            if ok {
                f.claims += 1;
                if nonempty >= 2 {
                    f.label("hash-partitioning-2+-nonempty");
                    if !leaf {
                        f.nontrivial = true;
                    }
                }
            }
        }
        Partitioning::Range(range) => {
            // never produced by the optimizer at this pin (sources only); checked for completeness
            f.label("claim:range-partitioning");
            let ordering = range.ordering();
            let splits = range.split_points();
            for (pi, b) in batches.iter().enumerate() {
                for r in 0..b.num_rows() {
                    let row = b.slice(r, 1);
                    // lower bound (inclusive): split[pi-1] <= row ; upper bound (exclusive): row < split[pi]
                    for (si, lower) in [(pi.wrapping_sub(1), true), (pi, false)] {
                        let Some(sp) = splits.get(si) else { continue };
                        let mut fwd: Vec<(ArrayRef, SortOptions)> = vec![];
                        for (se, v) in ordering.iter().zip(sp.values()) {
                            let (Ok(a), Ok(va)) = (eval(&se.expr, &row), v.to_array_of_size(1)) else { break };
                            if a.data_type() != va.data_type() {
                                break;
                            }
                            let Ok(sr) = datafusion::arrow::compute::concat(&[va.as_ref(), a.as_ref()]) else { break };
                            fwd.push((sr, se.options));
                        }
                        // fwd = the two-row sequence [split, row]
                        let verdict = if fwd.len() == ordering.len() { lex_violation(&fwd).ok() } else { None };
                        let Some(verdict) = verdict else {
                            f.label("skip:range-not-comparable");
                            continue;
                        };
                        let split_le_row = verdict.is_none();
                        let bad = if lower { !split_le_row } else { split_le_row };
                        if bad {
                            return Err(format!("node [{}] {} declares {} but partition {pi} row {r} violates split point {si} ({})", n.path, n.display, props.output_partitioning(), if lower { "row sorts before the inclusive lower bound" } else { "row does not sort before the exclusive upper bound" }));
                        }
                    }
                }
                f.claims += 1;
            }
        }
        _ => {}
    }
    Ok(())
}

/// the violated ordering named in the message has two or more keys
fn multi_key_ordering(msg: &str) -> bool {
    let after = msg.split_once("declares the ordering [").or_else(|| msg.split_once("declares output_ordering() [")).map(|(_, r)| r);
    after.and_then(|r| r.split_once("] but partition")).map(|(o, _)| o.contains(", ")).unwrap_or(false)
}

fn is_ordering(msg: &str) -> bool {
    msg.contains("declares the ordering") || msg.contains("declares output_ordering()")
}

/// all violated claims (at most one per node), classified against the open known findings
pub fn check(w: &Walk) -> (Facts, Vec<Finding>) {
    let mut f = Facts::default();
    let mut findings = vec![];
    for n in &w.nodes {
        if let Err(msg) = check_node(n, &mut f) {
            // (fixed and no longer recognised: outer-join-constant-of-null-padded-side, topk-aggregate-keeps-input-ordering —
            // their cases are plain regressions now)
            let sig = if msg.contains("declares the equivalence class") && walk::subtree_has(&n.plan, &|p| p.name() == "FilterExec" && walk::one_line_full(p.as_ref()).contains(" / ")) {
                // known finding: below a filter `a / 2 = 0` the class [a, a / 2] is declared although a = 1, a / 2 = 0
                Some("filter-equality-class-joins-expression-and-operand".to_string())
            } else if is_ordering(&msg) && walk::subtree_has(&n.plan, &|p| p.name().contains("WindowAggExec") && { let d = walk::one_line_full(p.as_ref()); d.contains("wdw=[count(") && !d.contains("UNBOUNDED PRECEDING") }) {
                // known finding: a sliding-frame count() is declared set-monotonic (its output "sorted") although rows leave the frame
                Some("sliding-window-count-declared-monotonic".to_string())
            } else if is_ordering(&msg) && msg.contains("Null") && walk::subtree_has(&n.plan, &|p| p.name().contains("WindowAggExec")) {
                // known finding: the ordering declared for a running (ever-expanding frame) window aggregate says NULLS LAST
                // although the aggregate is NULL until the first non-NULL value enters the frame
                Some("running-window-aggregate-ordering-ignores-leading-nulls".to_string())
            } else if is_ordering(&msg) && w.declared.iter().any(|d| d.orderings.len() > 1) && walk::subtree_has(&n.plan, &|p| p.name() == "SortPreservingMergeExec" || walk::one_line_full(p.as_ref()).contains("preserve_order=true")) {
                // known finding: an order-preserving merge keeps every ordering of its input's equivalence class although it
                // only merges by one of them
                Some("merge-keeps-orderings-other-than-the-merge-key".to_string())
            } else if is_ordering(&msg) && multi_key_ordering(&msg) && walk::subtree_has(&n.plan, &|p| {
                let kids = p.children();
                p.name().contains("Join") && kids.len() == 2 && kids.iter().all(|k| !k.properties().equivalence_properties().oeq_class().is_empty())
            }) {
                // known finding: a join declares [probe-side ordering, build-side ordering] although probe rows may tie on their key
                Some("join-suffix-ordering-with-tied-probe-keys".to_string())
            } else {
                None
            };
            findings.push(Finding { sig, msg });
        }
    }
    (f, findings)
}

impl Property for C28 {
    type Case = WalkCase;
    fn id(&self) -> &'static str {
        "C28"
    }
    fn sub(&self) -> &'static str {
        "c28"
    }
    fn strategy(&self, tier: Tier) -> BoxedStrategy<WalkCase> {
        walk::case_strategy(tier, Purpose::Props, 2, 3)
    }
    fn budget(&self, tier: Tier) -> Budget {
        Budget::new(tier.pick(480, 30_000), tier.pick(8, 16)).min_nontrivial(tier.pick(120, 8_000)).case_timeout(90)
    }
    fn rule(&self) -> String {
        "tables t0..t2 (unsorted or physically sorted with a harness-verified declared order) + a refsql query or a template query (monotonic projections, equality filters, windows, \
         sorted unions/joins/aggregates) + a sampled variant; every node of the physical plan is re-executed in isolation and its declared orderings, equivalence classes, constants and \
         partitioning are checked on the rows of each output partition; non-trivial = a non-leaf node has a checked claim on a partition with ≥ 2 rows, or a hash partitioning with ≥ 2 \
         non-empty partitions; distinct by case JSON"
            .into()
    }
    fn assumptions(&self) -> Vec<String> {
        vec![
            "reset_plan_states + collect_partitioned re-execute a subtree faithfully; batches of a partition arrive in the partition's row order".into(),
            "arrow-ord comparators / arrow-row encoding define value order and equality (±0.0 and NaNs identified by the harness first)".into(),
            "PhysicalExpr::evaluate of a declared sort/equivalence expression on the node's own output computes that expression".into(),
        ]
    }
    fn known_signature(&self, case: &WalkCase) -> Option<String> {
        walk::judged_signature("c28", case, || judge(case))
    }
    fn run(&self, case: &WalkCase) -> CaseResult {
        walk::judged_result("c28", case, || judge(case))
    }
}

fn judge(case: &WalkCase) -> Judged {
    let w = match walk::walk(case) {
        Ok(w) => w,
        Err(e) => return crate::c30::fail_judged(e, case),
    };
    let labels = walk::plan_labels(case, &w);
    let (f, mut findings) = check(&w);
    for x in &mut findings {
        x.msg = format!("{}{}\n  plan:\n{}", x.msg, case.describe(), w.plan_text);
    }
    let mut r = CaseResult::pass().nontrivial(f.nontrivial).labels(labels).labels(f.labels);
    if w.nodes.iter().any(|n| n.parts.is_err()) {
        r = r.label("node-runtime-error");
    }
    if let Program::Tmpl(t) = &case.program {
        r = r.labels(t.features());
    }
    Judged { findings, result: r }
}
