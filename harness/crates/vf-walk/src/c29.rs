//! C29 — statistics reported as exact are exact.
//!
//! Domain: the walker's cases (`walk.rs`, dynamic filters off) where every table is backed either by a MemTable
//! (declared or undeclared order, sampled partition/batch split) or by a Parquet listing table: 1–3 files written
//! with the parquet `ArrowWriter` with statistics `None | Chunk | Page` and small row groups, read with
//! `datafusion.execution.collect_statistics` on or off and `use_statistics_registry` on or off; programs are refsql
//! queries (filters, joins, unions, aggregates, windows, LIMIT/OFFSET) and template queries (`tmpl.rs`).
//!
//! Oracle, for every node of the physical plan (isolated state-reset re-execution of its subtree): the statistics
//! of the executed copy from `StatisticsContext::compute` for the whole node (`partition = None`) and for every
//! output partition (`Some(i)`), plus `StatisticsRegistry::default_with_builtin_providers().compute` for the whole
//! node, are compared with the rows the node produced (all partitions resp. partition `i`): every
//! `Precision::Exact` among `num_rows`, per-column `null_count`, `min_value`, `max_value`, `sum_value`,
//! `distinct_count` must equal the value computed from the output — min/max over the non-NULL values in the
//! column's natural order (over rows that are all NULL an exact min/max must be NULL; on an EMPTY output only
//! `num_rows` and `null_count` are judged, as the engine's own consumers test the row count first), sums exactly for integers (i128) and
//! to 1e-9 relative for floats, distinct counts as the number of distinct non-NULL values (a count that also
//! counts NULL as one value is accepted). `total_byte_size` / `byte_size` are not judged. Columns holding NaN
//! are not judged for min/max. A statistics call that fails is labelled, not judged.
//! End to end (aggregate-from-statistics rewrite): for every table `SELECT count(*), count(c), min(c), max(c) …`
//! over all columns and a bare `SELECT count(*)` must equal the values computed from the case's rows.
//!
//! Non-trivial: some non-leaf node reports ≥ 1 exact statistic that was compared, or an end-to-end aggregate was
//! answered without an AggregateExec over a non-empty table.
//!
//! Deviations from DESIGN.md: none of substance (per-partition statistics via `StatisticsContext`; the registry is
//! exercised both through the optimizer switch and directly).
//!
//! Reporting: statistics flow upwards, so only the LOWEST violating nodes of a case are reported (root causes); each is
//! keyed `exact-[partition-|registry-]<statistic>@<Operator>[qualifier]` unless one of the specific signatures applies.
//! Known findings (open; one signature per root cause — the statistics call that exposed it is not part of the key):
//! `cast-keeps-exact-min-max` (WRONG RESULT for max(CAST(x AS VARCHAR)) over Parquet), `join-output-keeps-exact-column-statistics`,
//! `file-scan-partition-statistics-ignore-predicate`, `partitioned-topk-sort-statistics`,
//! `file-scan-partition-statistics-under-work-stealing` (racy: excluded by case SHAPE up front — stealing on, >= 2 target
//! partitions, a Parquet table of >= 2 files; its case lives in regressions/C29/c29-known/), `scan-limit-ignored-in-statistics[parquet]`
//! / `[memory]`, `exact-min_max@UnionExec`, `filter-infeasible-interval-exact-column-statistics`,
//! `limited-aggregate-keeps-exact-column-statistics`, `mark-join-partition-statistics-of-preserved-side`,
//! `exact-registry-num_rows@CoalescePartitionsExec[fetch]`. C29 cases run on a single-threaded runtime (determinism).
//!
//! Logical NULLs: memory tables may render BIGINT columns as `Dictionary(Int32, Int64)` arrays whose dictionary VALUES hold
//! a NULL that keys point at (plus an unused value), and template queries add Null-typed `VALUES (NULL, i)` sources and
//! `NULL` / `CAST(NULL AS t)` columns; every "true value" is computed on logical values (`logical_null_count`, dictionaries
//! hydrated before comparing). Seeded defect /verif/seeded/C29-a (compute_record_batch_statistics sums the PHYSICAL
//! null_count): `tools/mutrun seeded/C29-a/patch.diff -- ./check C29 quick` → VIOLATION ("DataSourceExec … column a null_count
//! is reported as Exact(0) but the output holds 1 NULLs", likewise for the Null-typed VALUES column).
//!
//! Sensitivity probes (probes.diff, `VFW_MUT=`):
//! * `filter-exact` — FilterExec keeps its input's Exact row count: CAUGHT at quick tier (17 cases: "FilterExec: id@0 = a@1 —
//!   num_rows is reported as Exact(1) but 0 rows were produced").
//! * `limit-skip` — GlobalLimitExec statistics ignore OFFSET: first run masked by a residual finding (mark joins, since
//!   recorded); the re-run was cancelled (time) — verdict open.
use datafusion::arrow::array::{Array, ArrayRef, RecordBatch, make_comparator};
use datafusion::arrow::compute::SortOptions;
use datafusion::common::stats::Precision;
use datafusion::common::{ScalarValue, Statistics};
use datafusion::datasource::file_format::parquet::ParquetFormat;
use datafusion::datasource::listing::{ListingOptions, ListingTable, ListingTableConfig, ListingTableUrl};
use datafusion::parquet::arrow::ArrowWriter;
use datafusion::parquet::basic::Compression;
use datafusion::parquet::file::properties::{EnabledStatistics, WriterProperties};
use datafusion::physical_plan::operator_statistics::StatisticsRegistry;
use datafusion::physical_plan::{StatisticsArgs, StatisticsContext};
use datafusion::prelude::SessionContext;
use proptest::prelude::*;
use serde::{Deserialize, Serialize};
use std::collections::BTreeSet;
use std::sync::Arc;
use vf_kit::engine::*;
use vf_kit::refsql::{self, Table, Ty, Value};

use crate::walk::{self, Declared, Finding, Judged, Program, Purpose, SourceDecl, Walk, WalkCase, WalkFail, WalkNode, canon, has_nan, row_keys};

pub struct C29;

#[derive(Clone, Copy, Debug, Serialize, Deserialize)]
pub enum Backing {
    Mem,
    /// `files` 1–3, `stats` 0 None / 1 Chunk / 2 Page, `rg` max row-group rows
    Parquet { files: u8, stats: u8, rg: u8 },
}

#[derive(Clone, Debug, Serialize, Deserialize)]
pub struct Case {
    pub base: WalkCase,
    pub backing: Vec<Backing>,
}

// ---------------------------------------------------------------------------------------------
// comparing scalars

#[derive(Debug, Clone, PartialEq)]
enum Norm {
    Null,
    Int(i128),
    Float(f64),
    Str(String),
    Bool(bool),
    Other(ScalarValue),
}

fn norm(v: &ScalarValue) -> Norm {
    if v.is_null() {
        return Norm::Null;
    }
    match v {
        ScalarValue::Int8(Some(x)) => Norm::Int(*x as i128),
        ScalarValue::Int16(Some(x)) => Norm::Int(*x as i128),
        ScalarValue::Int32(Some(x)) => Norm::Int(*x as i128),
        ScalarValue::Int64(Some(x)) => Norm::Int(*x as i128),
        ScalarValue::UInt8(Some(x)) => Norm::Int(*x as i128),
        ScalarValue::UInt16(Some(x)) => Norm::Int(*x as i128),
        ScalarValue::UInt32(Some(x)) => Norm::Int(*x as i128),
        ScalarValue::UInt64(Some(x)) => Norm::Int(*x as i128),
        ScalarValue::Float16(Some(x)) => Norm::Float(f64::from(*x)),
        ScalarValue::Float32(Some(x)) => Norm::Float(*x as f64),
        ScalarValue::Float64(Some(x)) => Norm::Float(*x),
        ScalarValue::Utf8(Some(s)) | ScalarValue::LargeUtf8(Some(s)) | ScalarValue::Utf8View(Some(s)) => Norm::Str(s.clone()),
        ScalarValue::Boolean(Some(b)) => Norm::Bool(*b),
        ScalarValue::Dictionary(_, inner) => norm(inner),
        o => Norm::Other(o.clone()),
    }
}

/// Some(true/false) when comparable
fn norm_eq(a: &Norm, b: &Norm) -> Option<bool> {
    Some(match (a, b) {
        (Norm::Null, Norm::Null) => true,
        (Norm::Null, _) | (_, Norm::Null) => false,
        (Norm::Int(x), Norm::Int(y)) => x == y,
        (Norm::Float(x), Norm::Float(y)) => x == y || (x.is_nan() && y.is_nan()),
        (Norm::Str(x), Norm::Str(y)) => x == y,
        (Norm::Bool(x), Norm::Bool(y)) => x == y,
        (Norm::Other(x), Norm::Other(y)) => {
            if x.data_type() == y.data_type() {
                x == y
            } else {
                return None;
            }
        }
        _ => return None,
    })
}

fn close(x: f64, y: f64) -> bool {
    x == y || (x - y).abs() <= 1e-9 * x.abs().max(y.abs()).max(1e-300) || (x.is_nan() && y.is_nan())
}

#[derive(Default)]
pub struct Facts {
    pub labels: Vec<String>,
    pub exact_compared: usize,
    pub nonleaf_exact: usize,
}

impl Facts {
    fn label(&mut self, l: impl Into<String>) {
        let l = l.into();
        if !self.labels.contains(&l) {
            self.labels.push(l);
        }
    }
}

/// extreme (min when `want_max` is false) of the non-null values of a column in its natural order
fn extreme(col: &ArrayRef, want_max: bool) -> Result<Option<usize>, String> {
    let c = canon(col);
    let cmp = make_comparator(c.as_ref(), c.as_ref(), SortOptions { descending: false, nulls_first: true }).map_err(|e| e.to_string())?;
    let nulls = c.logical_nulls();
    let mut best: Option<usize> = None;
    for i in 0..c.len() {
        if nulls.as_ref().map(|n| n.is_null(i)).unwrap_or(false) {
            continue;
        }
        best = Some(match best {
            None => i,
            Some(b) => {
                let o = cmp(i, b);
                if (want_max && o == std::cmp::Ordering::Greater) || (!want_max && o == std::cmp::Ordering::Less) { i } else { b }
            }
        });
    }
    Ok(best)
}

fn sum_of(col: &ArrayRef) -> Option<Norm> {
    use datafusion::arrow::array::AsArray;
    use datafusion::arrow::datatypes::*;
    macro_rules! isum {
        ($t:ty) => {{
            let a = col.as_primitive::<$t>();
            let mut s: i128 = 0;
            let mut any = false;
            for v in a.iter().flatten() {
                s += v as i128;
                any = true;
            }
            Some(if any { Norm::Int(s) } else { Norm::Null })
        }};
    }
    macro_rules! fsum {
        ($t:ty) => {{
            let a = col.as_primitive::<$t>();
            let mut s: f64 = 0.0;
            let mut any = false;
            for v in a.iter().flatten() {
                s += v as f64;
                any = true;
            }
            Some(if any { Norm::Float(s) } else { Norm::Null })
        }};
    }
    match col.data_type() {
        DataType::Int8 => isum!(Int8Type),
        DataType::Int16 => isum!(Int16Type),
        DataType::Int32 => isum!(Int32Type),
        DataType::Int64 => isum!(Int64Type),
        DataType::UInt8 => isum!(UInt8Type),
        DataType::UInt16 => isum!(UInt16Type),
        DataType::UInt32 => isum!(UInt32Type),
        DataType::UInt64 => isum!(UInt64Type),
        DataType::Float32 => fsum!(Float32Type),
        DataType::Float64 => fsum!(Float64Type),
        _ => None,
    }
}

/// compare one Statistics object with the rows it describes
fn check_stats(st: &Statistics, rows: &RecordBatch, at: &str, leaf: bool, f: &mut Facts) -> Result<(), String> {
    let mut exact_here = 0;
    if let Precision::Exact(n) = st.num_rows {
        f.label("exact:num_rows");
        if n != rows.num_rows() {
            return Err(format!("{at}: num_rows is reported as Exact({n}) but {} rows were produced", rows.num_rows()));
        }
        exact_here += 1;
    }
    if st.column_statistics.len() != rows.num_columns() {
        f.label("skip:column-statistics-length-differs");
    }
    for (ci, cs) in st.column_statistics.iter().enumerate().take(rows.num_columns()) {
        let col = rows.column(ci);
        let name = rows.schema().field(ci).name().clone();
        if let Precision::Exact(k) = cs.null_count {
            f.label("exact:null_count");
            let actual = col.logical_null_count();
            if k != actual {
                return Err(format!("{at}: column {ci} ({name:?}) null_count is reported as Exact({k}) but the output holds {actual} NULLs in {} rows", rows.num_rows()));
            }
            exact_here += 1;
        }
        if rows.num_rows() == 0 {
            // consumers of min/max/sum/distinct look at num_rows first (an empty relation has no extremes): only the counts are judged
            if cs.min_value.is_exact().unwrap_or(false) || cs.max_value.is_exact().unwrap_or(false) || cs.sum_value.is_exact().unwrap_or(false) || cs.distinct_count.is_exact().unwrap_or(false) {
                f.label("skip:value-statistics-on-empty-output");
            }
            continue;
        }
        for (which, p, want_max) in [("min_value", &cs.min_value, false), ("max_value", &cs.max_value, true)] {
            let Precision::Exact(v) = p else { continue };
            f.label(format!("exact:{which}"));
            if has_nan(col) {
                f.label("skip:minmax-over-nan");
                continue;
            }
            let idx = match extreme(col, want_max) {
                Ok(i) => i,
                Err(_) => {
                    f.label("skip:minmax-not-comparable");
                    continue;
                }
            };
            let actual = match idx {
                None => Norm::Null,
                Some(i) => match ScalarValue::try_from_array(col.as_ref(), i) {
                    Ok(s) => norm(&s),
                    Err(_) => {
                        f.label("skip:minmax-not-comparable");
                        continue;
                    }
                },
            };
            match norm_eq(&norm(v), &actual) {
                None => f.label("skip:minmax-type-differs"),
                Some(true) => exact_here += 1,
                Some(false) => {
                    return Err(format!(
                        "{at}: column {ci} ({name:?}) {which} is reported as Exact({v}) but the {} over the {} produced rows is {actual:?}",
                        if want_max { "maximum" } else { "minimum" },
                        rows.num_rows()
                    ));
                }
            }
        }
        if let Precision::Exact(v) = &cs.sum_value {
            f.label("exact:sum_value");
            match (norm(v), sum_of(col)) {
                (_, None) => f.label("skip:sum-type-unsupported"),
                (Norm::Int(x), Some(Norm::Int(y))) => {
                    if x != y {
                        return Err(format!("{at}: column {ci} ({name:?}) sum_value is reported as Exact({v}) but the produced values sum to {y}"));
                    }
                    exact_here += 1;
                }
                (Norm::Float(x), Some(Norm::Float(y))) => {
                    if !close(x, y) {
                        return Err(format!("{at}: column {ci} ({name:?}) sum_value is reported as Exact({v}) but the produced values sum to {y}"));
                    }
                    exact_here += 1;
                }
                (Norm::Int(x), Some(Norm::Float(y))) | (Norm::Float(y), Some(Norm::Int(x))) => {
                    if !close(x as f64, y) {
                        return Err(format!("{at}: column {ci} ({name:?}) sum_value is reported as Exact({v}) but the produced values sum to {y} / {x}"));
                    }
                    exact_here += 1;
                }
                // no values: NULL or zero are both acceptable readings of an empty sum
                (Norm::Null, Some(Norm::Null)) => exact_here += 1,
                (Norm::Int(0), Some(Norm::Null)) => exact_here += 1,
                (Norm::Float(z), Some(Norm::Null)) if z == 0.0 => exact_here += 1,
                (a, Some(b)) => {
                    return Err(format!("{at}: column {ci} ({name:?}) sum_value is reported as Exact({v}) = {a:?} but the produced values sum to {b:?}"));
                }
            }
        }
        if let Precision::Exact(k) = cs.distinct_count {
            f.label("exact:distinct_count");
            let nulls = col.logical_nulls();
            match row_keys(&[col.clone()]) {
                Err(_) => f.label("skip:distinct-not-comparable"),
                Ok(keys) => {
                    let mut set: BTreeSet<&Vec<u8>> = BTreeSet::new();
                    let mut has_null = false;
                    for (i, key) in keys.iter().enumerate() {
                        if nulls.as_ref().map(|n| n.is_null(i)).unwrap_or(false) {
                            has_null = true;
                        } else {
                            set.insert(key);
                        }
                    }
                    let d = set.len();
                    if !(k == d || (has_null && k == d + 1)) {
                        return Err(format!("{at}: column {ci} ({name:?}) distinct_count is reported as Exact({k}) but the output holds {d} distinct non-NULL values{}", if has_null { " (plus NULL)" } else { "" }));
                    }
                    exact_here += 1;
                }
            }
        }
    }
    f.exact_compared += exact_here;
    if !leaf {
        f.nonleaf_exact += exact_here;
    }
    Ok(())
}

#[derive(Clone, Copy, Debug, PartialEq, Eq)]
pub enum Scope {
    Whole,
    Partition,
    Registry,
}

/// violated statistics of one node: at most one per statistics call kind
pub fn check_node(n: &WalkNode, f: &mut Facts) -> Vec<(Scope, String)> {
    let mut out = vec![];
    let Ok(parts) = &n.parts else { return out };
    let schema = n.plan.schema();
    let leaf = n.plan.children().is_empty();
    let mut per_part = vec![];
    for p in parts {
        match walk::concat(&schema, p) {
            Ok(b) => per_part.push(b),
            Err(_) => {
                f.label("skip:concat-failed");
                return out;
            }
        }
    }
    let all = match datafusion::arrow::compute::concat_batches(&per_part.first().map(|b| b.schema()).unwrap_or_else(|| schema.clone()), &per_part) {
        Ok(b) => b,
        Err(_) => {
            f.label("skip:concat-failed");
            return out;
        }
    };
    let sctx = StatisticsContext::new();
    match sctx.compute(n.plan.as_ref(), &StatisticsArgs::new()) {
        Ok(st) => {
            if let Err(m) = check_stats(&st, &all, &format!("node [{}] {} — statistics of the whole node", n.path, n.display), leaf, f) {
                out.push((Scope::Whole, m));
            }
        }
        Err(_) => f.label(format!("skip:statistics-error@{}", n.name)),
    }
    for (pi, b) in per_part.iter().enumerate() {
        let sctx = StatisticsContext::new();
        match sctx.compute(n.plan.as_ref(), &StatisticsArgs::new().with_partition(Some(pi))) {
            Ok(st) => {
                if let Err(m) = check_stats(&st, b, &format!("node [{}] {} — statistics of partition {pi} of {}", n.path, n.display, per_part.len()), leaf, f) {
                    out.push((Scope::Partition, m));
                    break;
                }
            }
            Err(_) => f.label(format!("skip:partition-statistics-error@{}", n.name)),
        }
    }
    match StatisticsRegistry::default_with_builtin_providers().compute(n.plan.as_ref()) {
        Ok(st) => {
            if let Err(m) = check_stats(st.base(), &all, &format!("node [{}] {} — statistics from the registry's built-in providers", n.path, n.display), leaf, f) {
                out.push((Scope::Registry, m));
            }
        }
        Err(_) => f.label(format!("skip:registry-statistics-error@{}", n.name)),
    }
    out
}

/// classify a violated statistic against the open known findings
fn classify(n: &WalkNode, scope: Scope, msg: &str, stealing: bool) -> Option<String> {
    let column_stat = msg.contains(": column ");
    let is_join = |p: &Arc<dyn datafusion::physical_plan::ExecutionPlan>| p.name().contains("Join");
    let parquet_multi_group = |p: &Arc<dyn datafusion::physical_plan::ExecutionPlan>| {
        let d = walk::one_line_full(p.as_ref());
        p.name() == "DataSourceExec" && d.contains("file_type=parquet") && !d.contains("file_groups={1 group")
    };
    // (fixed in /repo and no longer recognised: file-scan-partition-statistics-ignore-predicate, partitioned-topk-sort-statistics,
    // cast-keeps-exact-min-max — their cases are plain regressions now)
    // the work-stealing signature is keyed on the scan node itself, or an operator that hands the scan's per-partition statistics on unchanged (each node is executed on its own, so
    // the steal may show in the run of such a parent while the scan's own run was clean); joins, aggregates, limits above
    // the scan are NOT filed here
    fn hands_on(p: &Arc<dyn datafusion::physical_plan::ExecutionPlan>, scan: &dyn Fn(&Arc<dyn datafusion::physical_plan::ExecutionPlan>) -> bool) -> bool {
        if scan(p) {
            return true;
        }
        let d = walk::one_line_full(p.as_ref());
        let transparent = (p.name().starts_with("SortExec") && !d.contains("TopK(")) || p.name() == "ProjectionExec" || p.name() == "CoalesceBatchesExec";
        transparent && p.children().len() == 1 && hands_on(p.children()[0], scan)
    }
    if scope == Scope::Partition && stealing && hands_on(&n.plan, &parquet_multi_group) {
        // known finding: per-partition statistics of a file scan stay Exact although sibling partitions share the files
        return Some("file-scan-partition-statistics-under-work-stealing".into());
    }
    let mark_join = is_join(&n.plan) && {
        let d = walk::one_line_full(n.plan.as_ref());
        d.contains("join_type=LeftMark") || d.contains("join_type=RightMark")
    };
    if mark_join && scope == Scope::Partition && column_stat {
        // known finding: a CollectLeft / nested-loop mark join reports the whole preserved side's column statistics for
        // every output partition although one partition only emits the marked rows
        return Some("mark-join-partition-statistics-of-preserved-side".into());
    }
    if column_stat && is_join(&n.plan) && !mark_join {
        // known finding: joins hand their inputs' column statistics on unchanged (Exact included)
        return Some("join-output-keeps-exact-column-statistics".into());
    }
    // every other root cause is keyed by (operator [+ qualifier], statistic): see known_findings.json
    let stat = ["num_rows", "null_count", "min_value", "max_value", "sum_value", "distinct_count"].iter().find(|s| msg.contains(&format!("{s} is reported"))).copied().unwrap_or("statistic");
    let stat = if stat == "min_value" || stat == "max_value" { "min_max" } else { stat };
    let d = walk::one_line_full(n.plan.as_ref());
    let qual = match n.name.as_str() {
        "DataSourceExec" => format!(
            "[{}{}{}]",
            if d.contains("file_type=parquet") { "parquet" } else { "memory" },
            if d.contains("limit=") || d.contains("fetch=") { "+limit" } else { "" },
            if d.contains("CAST(") && stat == "min_max" { "+cast" } else { "" }
        ),
        "ProjectionExec" => (if d.contains("CAST(") && stat == "min_max" { "[cast]" } else { "" }).to_string(),
        x if x.starts_with("SortExec") => (if d.contains("TopK(fetch=") { "[topk]" } else { "" }).to_string(),
        x if x.contains("Join") => (if mark_join { "[mark]" } else { "" }).to_string(),
        "CoalescePartitionsExec" => (if d.contains("fetch=") { "[fetch]" } else { "" }).to_string(),
        "AggregateExec" => {
            (if d.contains("lim=[") { "[lim]" } else if d.contains("(NULL as ") { "[grouping-sets]" } else { "" }).to_string()
        }
        _ => String::new(),
    };
    // one signature per root cause: the statistics call that happened to expose it (whole node / a partition / registry)
    // is not part of the key, except for defects of the registry's own providers
    let scope_s = if scope == Scope::Registry && n.name == "CoalescePartitionsExec" { "registry-" } else { "" };
    let op = if n.name.starts_with("SortExec") { "SortExec" } else { n.name.as_str() };
    if n.name == "DataSourceExec" && qual.contains("+limit") {
        return Some(format!("scan-limit-ignored-in-statistics{}", if qual.contains("parquet") { "[parquet]" } else { "[memory]" }));
    }
    if n.name == "AggregateExec" && qual.contains("lim") && column_stat {
        return Some("limited-aggregate-keeps-exact-column-statistics".into());
    }
    if n.name == "FilterExec" && column_stat {
        return Some("filter-infeasible-interval-exact-column-statistics".into());
    }
    Some(format!("exact-{scope_s}{stat}@{op}{qual}"))
}

// ---------------------------------------------------------------------------------------------
// backing

fn write_parquet(dir: &std::path::Path, t: &Table, strings: vf_df::StrEncoding, files: u8, stats: u8, rg: u8) -> Result<(), String> {
    std::fs::create_dir_all(dir).map_err(|e| e.to_string())?;
    let nfiles = (files.clamp(1, 3) as usize).min(t.rows.len().max(1));
    let per = t.rows.len().div_ceil(nfiles).max(1);
    for (fi, chunk) in t.rows.chunks(per).enumerate() {
        let part = Table { name: t.name.clone(), cols: t.cols.clone(), rows: chunk.to_vec() };
        let (schema, batches) = vf_df::table_to_batches(&part, strings, Some(3))?;
        let props = WriterProperties::builder()
            .set_statistics_enabled(match stats {
                0 => EnabledStatistics::None,
                1 => EnabledStatistics::Chunk,
                _ => EnabledStatistics::Page,
            })
            .set_max_row_group_row_count(Some((rg as usize).max(1)))
            .set_compression(Compression::UNCOMPRESSED)
            .build();
        let file = std::fs::File::create(dir.join(format!("part-{fi}.parquet"))).map_err(|e| e.to_string())?;
        let mut w = ArrowWriter::try_new(file, schema, Some(props)).map_err(|e| e.to_string())?;
        for b in &batches {
            w.write(b).map_err(|e| e.to_string())?;
        }
        w.close().map_err(|e| e.to_string())?;
    }
    Ok(())
}

fn register(ctx: &SessionContext, case: &Case, root: &std::path::Path) -> Result<Vec<Declared>, String> {
    let none = SourceDecl::default();
    let mut out = vec![];
    for (i, t) in case.base.tables.iter().enumerate() {
        let decl = case.base.sources.get(i).unwrap_or(&none);
        match case.backing.get(i).copied().unwrap_or(Backing::Mem) {
            Backing::Parquet { files, stats, rg } if !t.rows.is_empty() => {
                let prepared = walk::prepared_table(t, decl);
                let dir = root.join(&t.name);
                write_parquet(&dir, &prepared, case.base.variant.strings, files, stats, rg)?;
                let state = ctx.state();
                let format = ParquetFormat::new().with_options(state.default_table_options().parquet.clone());
                let lo = ListingOptions::new(Arc::new(format)).with_file_extension(".parquet");
                let url = ListingTableUrl::parse(format!("{}/", dir.display())).map_err(|e| e.to_string())?;
                let schema = vf_df::schema_of(&t.cols, case.base.variant.strings);
                let cfg = ListingTableConfig::new(url).with_listing_options(lo).with_schema(schema);
                let lt = ListingTable::try_new(cfg).map_err(|e| e.to_string())?;
                ctx.register_table(t.name.as_str(), Arc::new(lt)).map_err(|e| e.to_string())?;
                out.push(Declared::default());
            }
            _ => {
                let (mt, d) = walk::mem_table_declared(t, decl, &case.base.variant)?;
                ctx.register_table(t.name.as_str(), Arc::new(mt)).map_err(|e| e.to_string())?;
                out.push(d);
            }
        }
    }
    Ok(out)
}

// ---------------------------------------------------------------------------------------------
// end-to-end aggregates

fn expected_aggs(t: &Table) -> Vec<Value> {
    let mut out = vec![Value::Int(t.rows.len() as i64)];
    for (ci, c) in t.cols.iter().enumerate() {
        if c.ty == Ty::Bool {
            continue;
        }
        let vals: Vec<&Value> = t.rows.iter().map(|r| &r[ci]).filter(|v| !v.is_null()).collect();
        out.push(Value::Int(vals.len() as i64));
        let mn = vals.iter().copied().min_by(|a, b| refsql::order_cmp(a, b, false, false)).cloned().unwrap_or(Value::Null);
        let mx = vals.iter().copied().max_by(|a, b| refsql::order_cmp(a, b, false, false)).cloned().unwrap_or(Value::Null);
        out.push(mn);
        out.push(mx);
    }
    out
}

fn agg_sql(t: &Table) -> String {
    let mut items = vec!["count(*)".to_string()];
    for c in &t.cols {
        if c.ty == Ty::Bool {
            continue;
        }
        items.push(format!("count({0}), min({0}), max({0})", c.name));
    }
    format!("SELECT {} FROM {}", items.join(", "), t.name)
}

pub struct E2e {
    pub rewritten_nonempty: usize,
    pub labels: Vec<String>,
}

async fn end_to_end(ctx: &SessionContext, case: &Case) -> Result<E2e, String> {
    let mut e = E2e { rewritten_nonempty: 0, labels: vec![] };
    for t in &case.base.tables {
        for (sql, want) in [(agg_sql(t), expected_aggs(t)), (format!("SELECT count(*) FROM {}", t.name), vec![Value::Int(t.rows.len() as i64)])] {
            let planned = match walk::plan_sql(ctx, &sql).await {
                Ok(p) => p,
                Err(_) => {
                    e.labels.push("e2e:plan-error".into());
                    continue;
                }
            };
            let text = walk::plan_text(&planned.physical);
            let rewritten = !text.contains("AggregateExec");
            let batches = match datafusion::physical_plan::collect(planned.physical.clone(), ctx.task_ctx()).await {
                Ok(b) => b,
                Err(_) => {
                    e.labels.push("e2e:run-error".into());
                    continue;
                }
            };
            let rows = vf_df::batches_to_rows(&batches);
            let ok = rows.len() == 1 && rows[0].len() == want.len() && rows[0].iter().zip(&want).all(|(g, w)| g == w || (g.is_null() && w.is_null()));
            if !ok {
                return Err(format!("end-to-end aggregate differs from the table contents: {sql}\n  got  {rows:?}\n  want {want:?}\n  plan:\n{text}"));
            }
            if rewritten {
                e.labels.push("e2e:answered-from-statistics".into());
                if !t.rows.is_empty() {
                    e.rewritten_nonempty += 1;
                }
            } else {
                e.labels.push("e2e:aggregated".into());
            }
        }
    }
    e.labels.sort();
    e.labels.dedup();
    Ok(e)
}

pub fn run_case(case: &Case) -> Result<(Walk, Result<E2e, String>), WalkFail> {
    let tmp = tempfile::tempdir().map_err(|e| WalkFail::Setup(e.to_string()))?;
    let sql = case.base.sql();
    let root = tmp.path().to_path_buf();
    let r = walk::in_session(&case.base.variant, |ctx| async move {
        let declared = register(&ctx, case, &root).map_err(WalkFail::Setup)?;
        let e2e = end_to_end(&ctx, case).await;
        let w = walk::walk_sql(&ctx, &sql, declared).await?;
        Ok((w, e2e))
    });
    drop(tmp);
    r
}

fn backing_strategy() -> BoxedStrategy<Backing> {
    prop_oneof![
        2 => Just(Backing::Mem),
        3 => (1u8..=3, 0u8..=2, prop_oneof![1u8..=6, Just(200u8)]).prop_map(|(files, stats, rg)| Backing::Parquet { files, stats, rg }),
    ]
    .boxed()
}

impl Property for C29 {
    type Case = Case;
    fn id(&self) -> &'static str {
        "C29"
    }
    fn sub(&self) -> &'static str {
        "c29"
    }
    fn strategy(&self, tier: Tier) -> BoxedStrategy<Case> {
        // BIGINT columns only: arrow's Dictionary(_, Utf8) -> Utf8View cast turns a key that points at a NULL dictionary value
        // into a non-NULL '' (observed: ProjectionExec CAST(s AS Utf8View) null_count Exact(1), output 0 NULLs) — a defect of
        // the cast kernel, not of the statistics, so VARCHAR dictionaries are left out of the domain
        let dict = prop_oneof![3 => Just(Vec::<u8>::new()), 1 => Just(vec![1u8]), 1 => Just(vec![2u8]), 1 => Just(vec![1u8, 2])];
        (walk::case_strategy(tier, Purpose::Stats, 3, 2), prop::collection::vec(backing_strategy(), 3), prop_oneof![3 => Just(true), 1 => Just(false)], prop_oneof![1 => Just(true), 4 => Just(false)], prop::collection::vec(dict, 3))
            .prop_map(|(mut base, backing, collect, stealing, dict)| {
                // memory tables may render BIGINT / VARCHAR columns as dictionaries whose VALUES hold a NULL (logical NULLs
                // outside the validity buffer): exact null_count / min / max of the source and of everything forwarding them
                for (s, d) in base.sources.iter_mut().zip(dict) {
                    s.dict_cols = d;
                }
                // single-threaded runtime: which partition steals a file / emits a mark join's rows / feeds a shared TopK
                // threshold first must not vary between two evaluations of one case
                base.variant.flavor = vf_df::Flavor::CurrentThread;
                base.variant.options.push(("datafusion.execution.collect_statistics".to_string(), collect.to_string()));
                if !stealing {
                    base.variant.options.push(("datafusion.execution.enable_file_stream_work_stealing".to_string(), "false".to_string()));
                }
                Case { base, backing }
            })
            .boxed()
    }
    fn budget(&self, tier: Tier) -> Budget {
        Budget::new(tier.pick(400, 30_000), tier.pick(8, 16)).min_nontrivial(tier.pick(100, 6_000)).case_timeout(90)
    }
    fn rule(&self) -> String {
        "tables t0..t2, each backed by a MemTable or by 1-3 Parquet files (statistics none/chunk/page, small row groups) behind a listing table, collect_statistics on/off + a refsql or \
         template query + a sampled variant (dynamic filters off); every node of the physical plan is re-executed in isolation and every Exact statistic (whole node, per partition, \
         registry providers) compared with the produced rows; plus count/min/max over every table end to end; non-trivial = a non-leaf node had an Exact statistic compared, or an \
         end-to-end aggregate over a non-empty table was answered from statistics; distinct by case JSON"
            .into()
    }
    fn assumptions(&self) -> Vec<String> {
        vec![
            "reset_plan_states + collect_partitioned re-execute a subtree faithfully; statistics are read from the executed copy".into(),
            "the parquet ArrowWriter stores the generated rows and writes correct file statistics".into(),
            "arrow-ord comparators define the natural order used for min/max; float sums are compared to 1e-9 relative".into(),
        ]
    }
    fn known_signature(&self, case: &Case) -> Option<String> {
        // The work-stealing finding is racy (which partition reads a file differs from run to run, even on a
        // single-threaded runtime: file reads go through blocking threads), so a case that can exhibit it is excluded by
        // SHAPE, up front and deterministically, while the finding is open: stealing on, two or more target partitions and a
        // Parquet table of two or more files.
        let stealing = !case.base.variant.options.iter().any(|(k, v)| k.ends_with("enable_file_stream_work_stealing") && v == "false");
        let multi_file = case.backing.iter().zip(&case.base.tables).any(|(b, t)| matches!(b, Backing::Parquet { files, .. } if *files >= 2) && t.rows.len() >= 2);
        if stealing && multi_file && case.base.variant.target_partitions >= 2 {
            return Some("file-scan-partition-statistics-under-work-stealing".into());
        }
        walk::judged_signature("c29", case, || judge(case))
    }
    fn run(&self, case: &Case) -> CaseResult {
        walk::judged_result("c29", case, || judge(case))
    }
}

fn judge(case: &Case) -> Judged {
    let (w, e2e) = match run_case(case) {
        Ok(x) => x,
        Err(e) => return crate::c30::fail_judged(e, &case.base),
    };
    walk::dump(&w);
    let mut labels = walk::plan_labels(&case.base, &w);
    for b in &case.backing {
        labels.push(match b {
            Backing::Mem => "backing:mem".to_string(),
            Backing::Parquet { stats, .. } => format!("backing:parquet-stats{stats}"),
        });
    }
    let stealing = !case.base.variant.options.iter().any(|(k, v)| k.ends_with("enable_file_stream_work_stealing") && v == "false");
    labels.push(if stealing { "work-stealing:on".to_string() } else { "work-stealing:off".to_string() });
    if case.base.sources.iter().zip(&case.backing).any(|(s, b)| !s.dict_cols.is_empty() && matches!(b, Backing::Mem)) {
        labels.push("source:dictionary-with-null-value".to_string());
    }
    labels.sort();
    labels.dedup();
    let describe = || format!("{}\n  backing: {:?}\n  plan:\n{}", case.base.describe(), case.backing, w.plan_text);
    let mut findings = vec![];
    let mut e2e_labels = vec![];
    let mut rewritten = 0;
    match e2e {
        Ok(e) => {
            e2e_labels = e.labels;
            rewritten = e.rewritten_nonempty;
        }
        Err(m) => findings.push(Finding { sig: None, msg: format!("{m}{}", describe()) }),
    }
    let mut f = Facts::default();
    let per_node: Vec<Vec<(Scope, String)>> = w.nodes.iter().map(|n| check_node(n, &mut f)).collect();
    for (i, n) in w.nodes.iter().enumerate() {
        if per_node[i].is_empty() {
            continue;
        }
        // statistics flow upwards: a violation above a violating descendant is its consequence — only the lowest
        // violating nodes (root causes) are reported
        let prefix = if n.path.is_empty() { String::new() } else { format!("{}.", n.path) };
        let below = w.nodes.iter().enumerate().any(|(k, d)| k != i && !per_node[k].is_empty() && d.path.len() > n.path.len() && d.path.starts_with(&prefix));
        if below {
            f.label("consequence-of-a-violation-below");
            continue;
        }
        // one finding per node: the whole-node call first, then a partition, then the registry
        if let Some((scope, m)) = per_node[i].first() {
            findings.push(Finding { sig: classify(n, *scope, m, stealing), msg: format!("{m}{}", describe()) });
        }
    }
    let nt = f.nonleaf_exact > 0 || rewritten > 0;
    let mut r = CaseResult::pass().nontrivial(nt).labels(labels).labels(f.labels).labels(e2e_labels);
    if f.nonleaf_exact > 0 {
        r = r.label("nonleaf-exact-statistic");
    }
    if let Program::Tmpl(t) = &case.base.program {
        r = r.labels(t.features());
    }
    Judged { findings, result: r }
}
