mod c28;
mod c29;
mod c30;
mod c53;
mod tmpl;
mod walk;

fn main() {
    vf_kit::dispatch! {
        "c28" => c28::C28,
        "c29" => c29::C29,
        "c30" => c30::C30,
        "c53" => c53::C53,
    }
}
