//! C53 — reported row-count metrics equal the rows actually produced.
//!
//! Domain: the walker's cases (`walk.rs`) with dynamic filters off: refsql queries without LIMIT (`cfg.limit =
//! false`, no top-k shape) and template queries without LIMIT / fetch, under sampled variants (1–8 target
//! partitions, batch sizes 1–6 / default, MemTable partition and batch splits, join-algorithm preference,
//! repartition switches incl. order-preserving repartition via declared source orders + `prefer_existing_sort`,
//! sort-preserving merges, coalesce, partial/final aggregation, windows, unions, multi-thread runtimes).
//!
//! Oracle. The physical plan the engine built is instrumented with a transparent harness operator `TapExec`
//! between every operator and its consumer (same `PlanProperties` as its input, order-maintaining, forwards
//! every batch untouched): the tap counts the rows and batches that really cross the edge, how many partition
//! streams were opened, how many were polled to end-of-stream, and errors. The instrumented plan — the WHOLE
//! plan — is run to completion once (`collect`); then for every operator whose output was consumed in full
//! (every opened output stream reached end-of-stream, no error) `metrics().output_rows()` (summed over
//! partitions, as `MetricsSet::output_rows` does) must equal the rows counted by its tap. Operators below an
//! early-terminating consumer (a join that stops reading one side, …) are exempt exactly when their streams were
//! dropped before end-of-stream — decided by observation, not by a static list. Operators inside the recursive
//! term of a `RecursiveQueryExec` are exempt (the engine re-instantiates them per iteration), operators that
//! publish no `output_rows` metric are counted as such.
//! DESIGN.md's original witness — the row total of an isolated re-execution of the node's subtree — is computed
//! too and shown in violation messages, but it only yields labels (`isolated-count-agrees` /
//! `isolated-count-differs@Op`): it is not a sound equality witness, because the partition a round-robin
//! repartition sends a batch to depends on arrival order and partial aggregates emit one row per group per
//! partition, so a re-execution may legitimately produce a different number of intermediate rows.
//!
//! Non-trivial: ≥ 4 operators compared with equality, one of them a RepartitionExec / SortPreservingMergeExec /
//! CoalescePartitionsExec, and the query returned ≥ 1 row.
//!
//! Deviations from DESIGN.md: the decisive witness is the tap in the same run (exact, independent of
//! determinism and of which consumers terminate early); the isolated re-execution is the cross-check.
//! Memory-limited variants: about a third of the cases run on a `RuntimeEnv` with a Greedy / FairSpill pool of 1 B … 64 KiB
//! (disk manager on the OS temp dir, `sort_spill_reservation_bytes = 64`), so RepartitionExec (and, when they fit, sorts)
//! really spill (labels `memory-limited`, `spilled`, `spilled@Op` from the node metrics); plans that end in
//! ResourcesExhausted are discards. `output_rows` is judged against the taps as everywhere; additionally
//! `spill_count > 0 ⇒ spilled_rows > 0`, and a RepartitionExec's `spilled_rows` ≤ the rows that flowed into it. Spill files
//! are not decoded. Seeded defect /verif/seeded/C53-a (rows read back from the spill pool are not counted):
//! `tools/mutrun seeded/C53-a/patch.diff -- ./check C53 quick` → VIOLATION ("RepartitionExec … reports output_rows = 0 but emitted 1 rows").
//! An operator whose tap saw MORE streams opened than the operator has output partitions was executed more than once (the
//! memory-limited NestedLoopJoinExec fallback re-executes its inputs on re-instantiated copies, like a recursive term):
//! the metrics of the planned instance then cover one pass only — exempt, label `re-executed@Op`.
//! Known findings: none open (`piecewise-merge-join-classic-output-rows` is FIXED in /repo; its case is a plain regression). Observation outside the statement
//! (observations/): with enable_piecewise_merge_join the physical planner reaches `unreachable!()` for a join ON comparison
//! one side of which references no column — planner panics are discards here (label `planner-panic`).
//!
//! Sensitivity probes (probes.diff, `VFW_MUT=`):
//! * `repart-double` — the order-preserving RepartitionExec's per-partition streams get BaselineMetrics again (the historic
//!   double count): CAUGHT at quick tier (62 cases: "RepartitionExec … preserve_order=true reports output_rows = 2 but emitted 1").
//! * `observed-skip` — ObservedStream stops calling record_poll: CAUGHT at once ("CoalescePartitionsExec reports output_rows = 0
//!   but emitted 1 rows", "UnionExec reports 0 but emitted 2").
use datafusion::arrow::array::RecordBatch;
use datafusion::arrow::datatypes::SchemaRef;
use datafusion::common::Result as DfResult;
use datafusion::common::tree_node::TreeNodeRecursion;
use datafusion::execution::{RecordBatchStream, SendableRecordBatchStream, TaskContext};
use datafusion::physical_expr::PhysicalExpr;
use datafusion::physical_plan::{ChildrenPropertiesMode, DisplayAs, DisplayFormatType, ExecutionPlan, PlanProperties, ReplaceChildrenOptions, collect};
use futures::Stream;
use proptest::prelude::*;
use std::fmt;
use std::pin::Pin;
use std::sync::Arc;
use std::sync::atomic::{AtomicUsize, Ordering};
use std::task::{Context, Poll};
use vf_kit::engine::*;

use crate::walk::{self, Finding, Judged, Program, Purpose, WalkCase, WalkFail};

pub struct C53;

#[derive(Debug, Default)]
pub struct TapCounters {
    pub rows: AtomicUsize,
    pub batches: AtomicUsize,
    pub opened: AtomicUsize,
    pub finished: AtomicUsize,
    pub errors: AtomicUsize,
}

#[derive(Debug)]
pub struct TapExec {
    input: Arc<dyn ExecutionPlan>,
    counters: Arc<TapCounters>,
    cache: Arc<PlanProperties>,
}

impl TapExec {
    pub fn new(input: Arc<dyn ExecutionPlan>, counters: Arc<TapCounters>) -> Self {
        let cache = Arc::clone(input.properties());
        TapExec { input, counters, cache }
    }
}

impl DisplayAs for TapExec {
    fn fmt_as(&self, _t: DisplayFormatType, f: &mut fmt::Formatter) -> fmt::Result {
        write!(f, "TapExec")
    }
}

impl ExecutionPlan for TapExec {
    fn name(&self) -> &str {
        "TapExec"
    }
    fn properties(&self) -> &Arc<PlanProperties> {
        &self.cache
    }
    fn children(&self) -> Vec<&Arc<dyn ExecutionPlan>> {
        vec![&self.input]
    }
    fn apply_expressions(&self, _f: &mut dyn FnMut(&Arc<dyn PhysicalExpr>) -> DfResult<TreeNodeRecursion>) -> DfResult<TreeNodeRecursion> {
        Ok(TreeNodeRecursion::Continue)
    }
    fn maintains_input_order(&self) -> Vec<bool> {
        vec![true]
    }
    fn benefits_from_input_partitioning(&self) -> Vec<bool> {
        vec![false]
    }
    fn with_new_children(self: Arc<Self>, mut children: Vec<Arc<dyn ExecutionPlan>>) -> DfResult<Arc<dyn ExecutionPlan>> {
        // the counters are shared: a re-instantiated tap (recursive queries) keeps counting into the same cells
        Ok(Arc::new(TapExec::new(children.swap_remove(0), Arc::clone(&self.counters))))
    }
    fn execute(&self, partition: usize, context: Arc<TaskContext>) -> DfResult<SendableRecordBatchStream> {
        let inner = self.input.execute(partition, context)?;
        self.counters.opened.fetch_add(1, Ordering::SeqCst);
        Ok(Box::pin(TapStream { schema: self.input.schema(), inner, counters: Arc::clone(&self.counters), done: false }))
    }
}

struct TapStream {
    schema: SchemaRef,
    inner: SendableRecordBatchStream,
    counters: Arc<TapCounters>,
    done: bool,
}

impl Stream for TapStream {
    type Item = DfResult<RecordBatch>;
    fn poll_next(mut self: Pin<&mut Self>, cx: &mut Context<'_>) -> Poll<Option<Self::Item>> {
        let r = self.inner.as_mut().poll_next(cx);
        match &r {
            Poll::Ready(Some(Ok(b))) => {
                self.counters.rows.fetch_add(b.num_rows(), Ordering::SeqCst);
                self.counters.batches.fetch_add(1, Ordering::SeqCst);
            }
            Poll::Ready(Some(Err(_))) => {
                self.counters.errors.fetch_add(1, Ordering::SeqCst);
            }
            Poll::Ready(None) => {
                if !self.done {
                    self.done = true;
                    self.counters.finished.fetch_add(1, Ordering::SeqCst);
                }
            }
            Poll::Pending => {}
        }
        r
    }
}

impl RecordBatchStream for TapStream {
    fn schema(&self) -> SchemaRef {
        Arc::clone(&self.schema)
    }
}

pub struct Tapped {
    pub path: String,
    pub name: String,
    pub display: String,
    /// the operator instance of the instrumented plan (its metrics are read after the run)
    pub op: Arc<dyn ExecutionPlan>,
    pub counters: Arc<TapCounters>,
    pub under_recursive: bool,
}

/// Instrument a plan: every operator gets a tap on its output. Returns the new root (a tap) and the operators in pre-order.
pub fn insert_taps(root: &Arc<dyn ExecutionPlan>) -> DfResult<(Arc<dyn ExecutionPlan>, Vec<Tapped>)> {
    fn rec(node: &Arc<dyn ExecutionPlan>, path: String, under_rec: bool, out: &mut Vec<Option<Tapped>>) -> DfResult<Arc<dyn ExecutionPlan>> {
        let idx = out.len();
        out.push(None);
        let kids = node.children();
        let below_rec = under_rec || node.name() == "RecursiveQueryExec";
        let mut new_kids = vec![];
        for (i, c) in kids.iter().enumerate() {
            let cp = if path.is_empty() { i.to_string() } else { format!("{path}.{i}") };
            new_kids.push(rec(c, cp, below_rec, out)?);
        }
        let op = if new_kids.is_empty() { Arc::clone(node) } else { Arc::clone(node).replace_children(new_kids, ReplaceChildrenOptions::new(ChildrenPropertiesMode::Recompute))? };
        let counters = Arc::new(TapCounters::default());
        out[idx] = Some(Tapped { path, name: op.name().to_string(), display: walk::one_line(node.as_ref()), op: Arc::clone(&op), counters: Arc::clone(&counters), under_recursive: under_rec });
        Ok(Arc::new(TapExec::new(op, counters)))
    }
    let mut out = vec![];
    let new_root = rec(root, String::new(), false, &mut out)?;
    Ok((new_root, out.into_iter().flatten().collect()))
}

pub struct Observed {
    pub path: String,
    pub name: String,
    pub display: String,
    pub metric_rows: Option<usize>,
    pub tap_rows: usize,
    pub opened: usize,
    pub finished: usize,
    pub errors: usize,
    pub under_recursive: bool,
    /// rows of the isolated re-execution of the un-instrumented node (None = not run / failed)
    pub isolated_rows: Option<usize>,
    pub spill_count: usize,
    pub spilled_rows: usize,
    /// rows that flowed into the operator: the tap counts of its children
    pub input_rows: usize,
    /// declared number of output partitions
    pub partitions: usize,
}

pub struct Run {
    pub plan_text: String,
    pub result_rows: usize,
    pub ops: Vec<Observed>,
    pub error: Option<walk::EngineErr>,
}

pub fn run_case(case: &WalkCase) -> Result<Run, WalkFail> {
    let sql = case.sql();
    walk::in_session_limited(&case.variant, case.mem_limit, |ctx| async move {
        walk::register_declared(&ctx, case).map_err(WalkFail::Setup)?;
        let planned = walk::plan_sql(&ctx, &sql).await.map_err(WalkFail::Plan)?;
        let plan_text = walk::plan_text(&planned.physical);
        let (tapped_root, taps) = insert_taps(&planned.physical).map_err(|e| WalkFail::Plan(walk::engine_err(&e, "instrument")))?;
        // a query that fails — or panics — at run time did not "run to completion": discarded, not judged
        let (result_rows, error) = match futures::FutureExt::catch_unwind(std::panic::AssertUnwindSafe(collect(tapped_root, ctx.task_ctx()))).await {
            Ok(Ok(b)) => (b.iter().map(|x| x.num_rows()).sum(), None),
            Ok(Err(e)) => (0, Some(walk::engine_err(&e, "execute"))),
            Err(payload) => (0, Some(walk::EngineErr { class: vf_df::ErrClass::Internal, stage: "execute-panic", message: walk::panic_text(&payload) })),
        };
        let mut ops: Vec<Observed> = taps
            .iter()
            .map(|t| {
                let ms = t.op.metrics();
                Observed {
                    path: t.path.clone(),
                    name: t.name.clone(),
                    display: t.display.clone(),
                    metric_rows: ms.as_ref().and_then(|m| m.output_rows()),
                    tap_rows: t.counters.rows.load(Ordering::SeqCst),
                    opened: t.counters.opened.load(Ordering::SeqCst),
                    finished: t.counters.finished.load(Ordering::SeqCst),
                    errors: t.counters.errors.load(Ordering::SeqCst),
                    under_recursive: t.under_recursive,
                    isolated_rows: None,
                    partitions: t.op.properties().output_partitioning().partition_count(),
                    spill_count: ms.as_ref().and_then(|m| m.spill_count()).unwrap_or(0),
                    spilled_rows: ms.as_ref().and_then(|m| m.spilled_rows()).unwrap_or(0),
                    input_rows: {
                        // direct children: paths one segment longer with this path as prefix
                        let prefix = if t.path.is_empty() { String::new() } else { format!("{}.", t.path) };
                        taps.iter().filter(|c| c.path.len() > t.path.len() && c.path.starts_with(&prefix) && !c.path[prefix.len()..].contains('.')).map(|c| c.counters.rows.load(Ordering::SeqCst)).sum()
                    },
                }
            })
            .collect();
        drop(taps);
        if error.is_none() {
            // second witness: isolated re-execution of the original (un-instrumented) nodes
            let (nodes, _) = walk::walk_plan(&ctx, &planned.physical).await;
            for n in &nodes {
                if let Some(o) = ops.iter_mut().find(|o| o.path == n.path) {
                    if n.parts.is_ok() {
                        o.isolated_rows = Some(n.rows());
                    }
                }
            }
        }
        Ok(Run { plan_text, result_rows, ops, error })
    })
}

impl Property for C53 {
    type Case = WalkCase;
    fn id(&self) -> &'static str {
        "C53"
    }
    fn sub(&self) -> &'static str {
        "c53"
    }
    fn strategy(&self, tier: Tier) -> BoxedStrategy<WalkCase> {
        // about a third of the cases run under a tiny memory limit (1 B … 64 KiB, greedy or fair pool) so that
        // RepartitionExec / SortExec / aggregates really spill; plans that then end in ResourcesExhausted are discards
        let limit = prop_oneof![
            6 => Just(None),
            3 => (prop::sample::select(vec![1u64, 256, 1024, 2048, 4096, 8192, 16384, 65536]), any::<bool>()).prop_map(Some),
        ];
        (walk::case_strategy(tier, Purpose::Metrics, 3, 2), limit)
            .prop_map(|(mut c, l)| {
                c.mem_limit = l;
                if l.is_some() {
                    // let sorts spill instead of failing on their (10 MiB by default) merge reservation
                    c.variant.options.push(("datafusion.execution.sort_spill_reservation_bytes".to_string(), "64".to_string()));
                }
                c
            })
            .boxed()
    }
    fn budget(&self, tier: Tier) -> Budget {
        Budget::new(tier.pick(480, 30_000), tier.pick(8, 16)).min_nontrivial(tier.pick(100, 6_000)).case_timeout(90)
    }
    fn rule(&self) -> String {
        "tables t0..t2 + a LIMIT-free refsql or template query + a sampled variant with dynamic filters off; the physical plan is instrumented with counting taps on every edge and run to \
         completion once; every operator whose output streams all reached end-of-stream must report output_rows = rows seen by its tap; non-trivial = ≥ 4 operators compared, among them a \
         RepartitionExec / SortPreservingMergeExec / CoalescePartitionsExec, and a non-empty result; distinct by case JSON"
            .into()
    }
    fn assumptions(&self) -> Vec<String> {
        vec![
            "the harness TapExec is transparent: it forwards batches untouched and reports its input's PlanProperties, so the instrumented plan computes what the engine's plan computes".into(),
            "replace_children(Recompute) rebuilds an operator equivalent to the planned one over the tapped children".into(),
            "metrics are read after collect() returned, when every partition stream has been dropped".into(),
        ]
    }
    fn known_signature(&self, case: &WalkCase) -> Option<String> {
        walk::judged_signature("c53", case, || judge(case))
    }
    fn run(&self, case: &WalkCase) -> CaseResult {
        walk::judged_result("c53", case, || judge(case))
    }
}

fn judge(case: &WalkCase) -> Judged {
    let run = match run_case(case) {
        Ok(r) => r,
        Err(e) => return crate::c30::fail_judged(e, case),
    };
    let mut labels: Vec<String> = vec![];
    let mut names: Vec<String> = run.ops.iter().map(|o| format!("op:{}", o.name)).collect();
    names.sort();
    names.dedup();
    labels.extend(names);
    labels.push(format!("tp:{}", case.variant.target_partitions));
    labels.push(match &case.program {
        Program::Ref(_) => "prog:refsql".to_string(),
        Program::Tmpl(_) => "prog:tmpl".to_string(),
    });
    if let Some(e) = &run.error {
        return Judged::clean(CaseResult::discard(format!("query fails at run time: {}", walk::discard_key(e))).labels(labels));
    }
    let mut compared = 0;
    let mut wrapper = false;
    let mut findings = vec![];
    if case.mem_limit.is_some() {
        labels.push("memory-limited".into());
    }
    for o in &run.ops {
        if o.spill_count > 0 || o.spilled_rows > 0 {
            labels.push("spilled".into());
            labels.push(format!("spilled@{}", o.name));
            // spill metrics: a spill that happened wrote rows; a repartition writes each input row at most once
            let bad = if o.spill_count > 0 && o.spilled_rows == 0 {
                Some(format!("reports spill_count = {} but spilled_rows = 0", o.spill_count))
            } else if o.name == "RepartitionExec" && o.spilled_rows > o.input_rows && o.errors == 0 {
                Some(format!("reports spilled_rows = {} although only {} rows flowed into it", o.spilled_rows, o.input_rows))
            } else {
                None
            };
            if let Some(b) = bad {
                findings.push(Finding { sig: None, msg: format!("operator [{}] {} {b}{}\n  plan:\n{}", o.path, o.display, case.describe(), run.plan_text) });
            }
        }
    }
    for o in &run.ops {
        if o.under_recursive {
            labels.push("exempt:inside-recursive-term".into());
            continue;
        }
        let Some(m) = o.metric_rows else {
            labels.push(format!("no-output-rows-metric@{}", o.name));
            continue;
        };
        if o.opened > o.partitions {
            // executed more than once: the consumer re-instantiates the subtree per pass (NLJ memory-limited fallback), the
            // shared tap counts every pass, the planned instance's metrics only its own
            labels.push(format!("re-executed@{}", o.name));
            continue;
        }
        let full = o.opened > 0 && o.opened == o.finished && o.errors == 0;
        if !full {
            labels.push(if o.opened == 0 { format!("never-executed@{}", o.name) } else { format!("not-consumed-in-full@{}", o.name) });
            continue;
        }
        if m != o.tap_rows {
            // (piecewise-merge-join-classic-output-rows is fixed in /repo and no longer recognised)
            let sig: Option<String> = None;
            findings.push(Finding {
                sig,
                msg: format!(
                    "operator [{}] {} reports output_rows = {m} but emitted {} rows ({} partition streams opened, all polled to end-of-stream; isolated re-execution of its subtree: {:?} rows){}\n  plan:\n{}",
                    o.path,
                    o.display,
                    o.tap_rows,
                    o.opened,
                    o.isolated_rows,
                    case.describe(),
                    run.plan_text
                ),
            });
            continue;
        }
        compared += 1;
        labels.push(format!("compared@{}", o.name));
        if matches!(o.name.as_str(), "RepartitionExec" | "SortPreservingMergeExec" | "CoalescePartitionsExec") {
            wrapper = true;
            if o.display.contains("preserve_order=true") {
                labels.push("order-preserving-repartition".into());
            }
        }
        if let Some(i) = o.isolated_rows {
            if i != o.tap_rows {
                // not a sound equality witness: which partition a round-robin repartition sends a batch to depends on
                // arrival order, and partial aggregates emit one row per group *per partition*
                labels.push(format!("isolated-count-differs@{}", o.name));
                if std::env::var_os("VFW_DEBUG").is_some() {
                    eprintln!("ISOLATED COUNT DIFFERS [{}] {}: tap {} vs isolated {i}{}\n  plan:\n{}", o.path, o.name, o.tap_rows, case.describe(), run.plan_text);
                }
            } else {
                labels.push("isolated-count-agrees".into());
            }
        }
    }
    labels.sort();
    labels.dedup();
    let nt = compared >= 4 && wrapper && run.result_rows >= 1;
    let mut r = CaseResult::pass().nontrivial(nt).labels(labels);
    if let Program::Tmpl(t) = &case.program {
        r = r.labels(t.features());
    }
    let r = r.label(format!("compared:{}", match compared {
        0 => "0",
        1..=3 => "1-3",
        4..=7 => "4-7",
        _ => "8+",
    }));
    Judged { findings, result: r }
}
