//! Shared plan walker (DESIGN.md §3.5) for C28 / C29 / C30 / C53.
//!
//! A [`WalkCase`] is plain data: tables (refsql shape `t0..t2(id,a,b,s,f,p)`), a program (a `refsql` query or a
//! template query of [`crate::tmpl`], which reaches ordering-centric plans the refsql grammar seldom produces),
//! a `vf_df::Variant` (partitions, batch sizes, optimizer switches) and per-table *source declarations*: an
//! optional sort key the harness physically sorts the rows by before registering them, and whether extra
//! single-column orderings that happen to hold are declared as well. A source only ever declares an ordering the
//! harness verified on every partition of the Arrow data it registers (with the same comparator the C28 checker
//! uses) — so declared source orderings are true by construction.
//!
//! [`walk`] plans the program through a fresh `SessionContext` and then, for every node of the physical plan
//! (pre-order), builds a state-reset copy of the node's subtree (`reset_plan_states`), executes all of its output
//! partitions concurrently (`collect_partitioned`) and records the per-partition batches. Sub-trees that contain a
//! `WorkTableExec` without their `RecursiveQueryExec` cannot run in isolation and are skipped (counted).
//! A node whose isolated run fails (the query divides by zero, …) carries the error instead of batches; the
//! checkers skip it — run-time errors are the business of C01/C20, not of the walker properties.
use datafusion::arrow::array::{Array, ArrayRef, Float32Array, Float64Array, RecordBatch, make_comparator};
use datafusion::arrow::compute::{SortOptions, concat_batches};
use datafusion::arrow::datatypes::{DataType, SchemaRef};
use datafusion::arrow::row::{RowConverter, SortField};
use datafusion::catalog::MemTable;
use datafusion::common::DFSchemaRef;
use datafusion::error::DataFusionError;
use datafusion::logical_expr::{LogicalPlan, SortExpr, col};
use datafusion::physical_plan::execution_plan::reset_plan_states;
use datafusion::physical_plan::{ExecutionPlan, collect_partitioned, displayable};
use datafusion::prelude::SessionContext;
use proptest::prelude::*;
use serde::{Deserialize, Serialize};
use std::sync::Arc;
use vf_df::{ErrClass, Flavor, StrEncoding, Variant, classify_error};
use vf_kit::engine::{CaseResult, Tier, fnv1a, truncate};
use vf_kit::refsql::{self, GenConfig, Query, Table, Value};

use crate::tmpl::TQuery;

// ---------------------------------------------------------------------------------------------
// case

#[derive(Clone, Debug, Serialize, Deserialize)]
pub enum Program {
    Ref(Query),
    Tmpl(TQuery),
}

/// one sort key of a source declaration: column index into the table, direction, null placement
#[derive(Clone, Copy, Debug, PartialEq, Eq, Serialize, Deserialize)]
pub struct SortKey {
    pub col: u8,
    pub desc: bool,
    pub nulls_first: bool,
}

#[derive(Clone, Debug, Default, Serialize, Deserialize)]
pub struct SourceDecl {
    /// rows are stably sorted by these keys before registration and the ordering is declared (empty = unsorted)
    pub sort: Vec<SortKey>,
    /// renumber the unique `id` column after sorting (so `id ASC` is a second true ordering)
    pub renumber: bool,
    /// also declare up to two single-column orderings that happen to hold on every partition
    pub extra: bool,
    /// register the unique `id` column as NOT NULL (it never holds a NULL)
    #[serde(default)]
    pub id_not_null: bool,
    /// columns (BIGINT / VARCHAR, never `id`) registered as `Dictionary(Int32, _)` arrays whose dictionary VALUES hold a NULL
    /// that keys point at (every other NULL row; the rest are NULL keys) plus an unused value: logical NULLs that are not in
    /// the array's own validity buffer
    #[serde(default)]
    pub dict_cols: Vec<u8>,
}

#[derive(Clone, Debug, Serialize, Deserialize)]
pub struct WalkCase {
    pub tables: Vec<Table>,
    pub program: Program,
    pub variant: Variant,
    /// one per table (missing = undeclared)
    pub sources: Vec<SourceDecl>,
    /// memory limit of the runtime in bytes and whether the pool is a FairSpillPool (else greedy); the disk manager spills
    /// to the OS temp dir. None = unlimited (the default runtime). Only C53 samples it.
    #[serde(default)]
    pub mem_limit: Option<(u64, bool)>,
}

impl WalkCase {
    pub fn sql(&self) -> String {
        match &self.program {
            Program::Ref(q) => refsql::to_sql(q),
            Program::Tmpl(t) => t.sql(),
        }
    }
    pub fn describe(&self) -> String {
        let decl: Vec<String> = self
            .sources
            .iter()
            .enumerate()
            .filter(|(_, s)| !s.sort.is_empty() || s.extra || s.id_not_null || !s.dict_cols.is_empty())
            .map(|(i, s)| format!("t{i}: sort={:?} renumber={} extra={} id_not_null={} dict_cols={:?}", s.sort, s.renumber, s.extra, s.id_not_null, s.dict_cols))
            .collect();
        format!(
            "\n  sql: {}\n  memory limit: {:?}\n  variant: tp={} batch_size={:?} mem_partitions={} batch_rows={:?} strings={:?} options={:?}\n  declared sources: {}",
            self.sql(),
            self.mem_limit,
            self.variant.target_partitions,
            self.variant.batch_size,
            self.variant.mem_partitions,
            self.variant.batch_rows,
            self.variant.strings,
            self.variant.options,
            if decl.is_empty() { "none".to_string() } else { decl.join("; ") }
        )
    }
}

#[derive(Clone, Copy, Debug, PartialEq, Eq)]
pub enum Purpose {
    /// C28 / C30: everything sampled, LIMIT allowed
    Props,
    /// C29: dynamic filters off (an isolated scan must see what the whole plan's scan sees)
    Stats,
    /// C53: dynamic filters off, no LIMIT / TopK in generated queries
    Metrics,
}

pub fn gen_config(tier: Tier, purpose: Purpose) -> GenConfig {
    let mut cfg = GenConfig::standard(3, tier.pick(14, 40), 2);
    cfg.tape_len = tier.pick(300, 600);
    cfg.min_rows = 0;
    cfg.topk_ties = false;
    cfg.unguarded_div_pct = 0;
    cfg.select_list_subquery_pct = 0;
    if purpose == Purpose::Metrics {
        cfg.limit = false;
    }
    cfg
}

fn onoff(key: &'static str) -> BoxedStrategy<Option<(String, String)>> {
    prop_oneof![
        4 => Just(None),
        1 => Just(Some((key.to_string(), "true".to_string()))),
        1 => Just(Some((key.to_string(), "false".to_string()))),
    ]
    .boxed()
}

pub fn variant_strategy(tier: Tier, purpose: Purpose) -> BoxedStrategy<Variant> {
    let o = "datafusion.optimizer.";
    let switches: Vec<BoxedStrategy<Option<(String, String)>>> = vec![
        onoff("datafusion.optimizer.prefer_hash_join"),
        onoff("datafusion.optimizer.repartition_joins"),
        onoff("datafusion.optimizer.repartition_aggregations"),
        onoff("datafusion.optimizer.repartition_windows"),
        onoff("datafusion.optimizer.repartition_sorts"),
        onoff("datafusion.optimizer.enable_round_robin_repartition"),
        onoff("datafusion.optimizer.prefer_existing_sort"),
        onoff("datafusion.optimizer.prefer_existing_union"),
        onoff("datafusion.execution.coalesce_batches"),
        // experimental operator: sampled only where its metrics are judged (its planner panics on some ON clauses)
        if purpose == Purpose::Metrics { onoff("datafusion.optimizer.enable_piecewise_merge_join") } else { Just(None).boxed() },
        onoff("datafusion.optimizer.enable_sort_pushdown"),
        onoff("datafusion.optimizer.enable_window_topn"),
        onoff("datafusion.optimizer.use_statistics_registry"),
        onoff("datafusion.optimizer.enable_physical_uncorrelated_scalar_subquery"),
        onoff("datafusion.optimizer.enable_unions_to_filter"),
        onoff("datafusion.execution.enforce_batch_size_in_joins"),
        prop_oneof![
            3 => Just(None),
            2 => Just(Some((format!("{o}hash_join_single_partition_threshold"), "0".to_string()))),
        ]
        .boxed(),
        prop_oneof![
            3 => Just(None),
            1 => Just(Some((format!("{o}subset_repartition_threshold"), "1".to_string()))),
            1 => Just(Some((format!("{o}subset_repartition_threshold"), "16".to_string()))),
        ]
        .boxed(),
    ];
    let dynf: BoxedStrategy<Option<(String, String)>> = match purpose {
        Purpose::Props => onoff("datafusion.optimizer.enable_dynamic_filter_pushdown"),
        _ => Just(Some((format!("{o}enable_dynamic_filter_pushdown"), "false".to_string()))).boxed(),
    };
    let max_tp = tier.pick(8usize, 8);
    (
        switches,
        dynf,
        prop_oneof![2 => Just(1usize), 6 => 2usize..=max_tp],
        prop_oneof![3 => Just(None), 2 => (1usize..=6).prop_map(Some), 1 => Just(Some(8192usize))],
        1usize..=4,
        prop_oneof![2 => Just(None), 3 => (1usize..=7).prop_map(Some)],
        prop_oneof![3 => Just(StrEncoding::Utf8), 1 => Just(StrEncoding::LargeUtf8), 2 => Just(StrEncoding::Utf8View)],
        prop_oneof![3 => Just(Flavor::CurrentThread), 1 => (1usize..=3).prop_map(Flavor::MultiThread)],
    )
        .prop_map(move |(sw, dynf, tp, bs, mp, br, strings, flavor)| {
            let mut options: Vec<(String, String)> = sw.into_iter().flatten().collect();
            // dynamic filters: the umbrella switch overwrites the three sub-switches, so it goes first
            if let Some(d) = dynf {
                options.insert(0, d);
            }
            Variant { options, target_partitions: tp, batch_size: bs, mem_partitions: mp, batch_rows: br, strings, flavor, timeout_ms: 30_000 }
        })
        .boxed()
}

pub fn source_strategy() -> BoxedStrategy<SourceDecl> {
    let key = (0u8..6, any::<bool>(), any::<bool>()).prop_map(|(col, desc, nulls_first)| SortKey { col, desc, nulls_first });
    prop_oneof![
        2 => Just(SourceDecl::default()),
        5 => (prop::collection::vec(key, 1..=3), any::<bool>(), prop::bool::weighted(0.6), any::<bool>()).prop_map(|(sort, renumber, extra, id_not_null)| SourceDecl { sort, renumber, extra, id_not_null, dict_cols: vec![] }),
        1 => Just(SourceDecl { sort: vec![], renumber: false, extra: true, id_not_null: false, dict_cols: vec![] }),
        2 => Just(SourceDecl { sort: vec![], renumber: false, extra: false, id_not_null: true, dict_cols: vec![] }),
    ]
    .boxed()
}

/// `tmpl_weight` : refsql weight = share of template programs
pub fn case_strategy(tier: Tier, purpose: Purpose, ref_weight: u32, tmpl_weight: u32) -> BoxedStrategy<WalkCase> {
    let cfg = gen_config(tier, purpose);
    let program = prop_oneof![
        ref_weight => refsql::query_strategy(&cfg).prop_map(Program::Ref),
        tmpl_weight => crate::tmpl::strategy(purpose != Purpose::Metrics).prop_map(Program::Tmpl),
    ];
    (refsql::tables_strategy(&cfg), program, variant_strategy(tier, purpose), prop::collection::vec(source_strategy(), 3))
        .prop_map(|(tables, program, variant, sources)| WalkCase { tables, program, variant, sources, mem_limit: None })
        .boxed()
}

// ---------------------------------------------------------------------------------------------
// Arrow helpers shared by the checkers

/// -0.0 → 0.0 and every NaN → one NaN, so that comparators built on the IEEE total order agree with SQL equality
pub fn canon(a: &ArrayRef) -> ArrayRef {
    match a.data_type() {
        // logical values: a dictionary is hydrated (a key pointing at a NULL dictionary value becomes a NULL)
        DataType::Dictionary(_, vt) => match datafusion::arrow::compute::cast(a.as_ref(), vt.as_ref()) {
            Ok(h) => canon(&h),
            Err(_) => a.clone(),
        },
        DataType::Float64 => {
            let f = a.as_any().downcast_ref::<Float64Array>().unwrap();
            let out: Float64Array = f.iter().map(|v| v.map(|x| if x == 0.0 { 0.0 } else if x.is_nan() { f64::NAN } else { x })).collect();
            Arc::new(out)
        }
        DataType::Float32 => {
            let f = a.as_any().downcast_ref::<Float32Array>().unwrap();
            let out: Float32Array = f.iter().map(|v| v.map(|x| if x == 0.0 { 0.0 } else if x.is_nan() { f32::NAN } else { x })).collect();
            Arc::new(out)
        }
        _ => a.clone(),
    }
}

pub fn has_nan(a: &ArrayRef) -> bool {
    match a.data_type() {
        DataType::Dictionary(_, vt) => datafusion::arrow::compute::cast(a.as_ref(), vt.as_ref()).map(|h| has_nan(&h)).unwrap_or(false),
        DataType::Float64 => a.as_any().downcast_ref::<Float64Array>().unwrap().iter().flatten().any(|x| x.is_nan()),
        DataType::Float32 => a.as_any().downcast_ref::<Float32Array>().unwrap().iter().flatten().any(|x| x.is_nan()),
        _ => false,
    }
}

/// first row index `i` with row `i` strictly after row `i+1` under the lexicographic ordering; Err = not comparable
pub fn lex_violation(cols: &[(ArrayRef, SortOptions)]) -> Result<Option<usize>, String> {
    if cols.is_empty() {
        return Ok(None);
    }
    let n = cols[0].0.len();
    let mut cmps = vec![];
    for (a, o) in cols {
        let c = canon(a);
        cmps.push(make_comparator(c.as_ref(), c.as_ref(), *o).map_err(|e| e.to_string())?);
    }
    for i in 0..n.saturating_sub(1) {
        for c in &cmps {
            match c(i, i + 1) {
                std::cmp::Ordering::Less => break,
                std::cmp::Ordering::Equal => continue,
                std::cmp::Ordering::Greater => return Ok(Some(i)),
            }
        }
    }
    Ok(None)
}

/// byte keys of the rows of the given columns (equal keys ⇔ equal values, NULL = NULL, -0.0 = 0.0, NaN = NaN)
pub fn row_keys(cols: &[ArrayRef]) -> Result<Vec<Vec<u8>>, String> {
    if cols.is_empty() {
        return Ok(vec![]);
    }
    let cols: Vec<ArrayRef> = cols.iter().map(canon).collect();
    let fields: Vec<SortField> = cols.iter().map(|c| SortField::new(c.data_type().clone())).collect();
    let conv = RowConverter::new(fields).map_err(|e| e.to_string())?;
    let rows = conv.convert_columns(&cols).map_err(|e| e.to_string())?;
    Ok(rows.iter().map(|r| r.as_ref().to_vec()).collect())
}

pub fn fmt_value(a: &ArrayRef, i: usize) -> String {
    format!("{:?}", vf_df::array_value(a.as_ref(), i))
}

pub fn concat(schema: &SchemaRef, batches: &[RecordBatch]) -> Result<RecordBatch, String> {
    // batches may carry a schema differing in nullability/metadata from the declared one: concat on the first batch's schema
    match batches.first() {
        None => Ok(RecordBatch::new_empty(schema.clone())),
        Some(b) => concat_batches(&b.schema(), batches).map_err(|e| e.to_string()),
    }
}

// ---------------------------------------------------------------------------------------------
// sources

fn order_rows(t: &mut Table, keys: &[SortKey]) {
    let keys: Vec<SortKey> = keys.iter().filter(|k| (k.col as usize) < t.cols.len()).copied().collect();
    t.rows.sort_by(|x, y| {
        for k in &keys {
            let (a, b) = (&x[k.col as usize], &y[k.col as usize]);
            let o = refsql::order_cmp(a, b, k.desc, k.nulls_first);
            if o != std::cmp::Ordering::Equal {
                return o;
            }
        }
        std::cmp::Ordering::Equal
    });
}

/// `Dictionary(Int32, Utf8 | Int64)` rendering of a string / integer column: the dictionary holds the column's distinct
/// values, then a NULL, then a value no key uses; every other NULL row points at the NULL dictionary entry (a logical NULL
/// that is not in the array's validity buffer), the remaining NULL rows are NULL keys
fn dictionary_with_null_value(a: &ArrayRef) -> Result<ArrayRef, String> {
    use datafusion::arrow::array::{DictionaryArray, Int32Array, Int64Array, StringArray, new_null_array};
    use datafusion::arrow::compute::{cast, concat};
    use datafusion::arrow::datatypes::Int32Type;
    let vt = if matches!(a.data_type(), DataType::Int64) { DataType::Int64 } else { DataType::Utf8 };
    let plain = cast(a.as_ref(), &vt).map_err(|e| e.to_string())?;
    let d = cast(plain.as_ref(), &DataType::Dictionary(Box::new(DataType::Int32), Box::new(vt.clone()))).map_err(|e| e.to_string())?;
    let d = d.as_any().downcast_ref::<DictionaryArray<Int32Type>>().ok_or("not a dictionary")?;
    let n_values = d.values().len();
    let unused: ArrayRef = if vt == DataType::Int64 { Arc::new(Int64Array::from(vec![987_654_321i64])) } else { Arc::new(StringArray::from(vec!["~unused"])) };
    let null_entry = new_null_array(&vt, 1);
    let values = concat(&[d.values().as_ref(), null_entry.as_ref(), unused.as_ref()]).map_err(|e| e.to_string())?;
    let mut seen_nulls = 0;
    let keys: Int32Array = d
        .keys()
        .iter()
        .map(|k| match k {
            Some(k) => Some(k),
            None => {
                seen_nulls += 1;
                if seen_nulls % 2 == 1 { Some(n_values as i32) } else { None }
            }
        })
        .collect();
    Ok(Arc::new(DictionaryArray::<Int32Type>::try_new(keys, values).map_err(|e| e.to_string())?))
}

/// what a registered table declares (for labels and messages)
#[derive(Clone, Debug, Default)]
pub struct Declared {
    pub orderings: Vec<Vec<SortKey>>,
}

/// the table as registered: rows sorted per the declaration, id renumbered when asked
pub fn prepared_table(t: &Table, decl: &SourceDecl) -> Table {
    let mut t = t.clone();
    if !decl.sort.is_empty() {
        order_rows(&mut t, &decl.sort);
        if decl.renumber {
            if let Some(idc) = t.cols.iter().position(|c| c.name == "id") {
                for (i, r) in t.rows.iter_mut().enumerate() {
                    r[idc] = Value::Int(i as i64);
                }
            }
        }
    }
    t
}

fn holds_on_all(parts: &[Vec<RecordBatch>], schema: &SchemaRef, keys: &[SortKey]) -> bool {
    for p in parts {
        let Ok(b) = concat(schema, p) else { return false };
        let cols: Vec<(ArrayRef, SortOptions)> = keys.iter().map(|k| (b.column(k.col as usize).clone(), SortOptions { descending: k.desc, nulls_first: k.nulls_first })).collect();
        if !matches!(lex_violation(&cols), Ok(None)) {
            return false;
        }
    }
    true
}

/// MemTable for a table under the variant and its declaration; only verified orderings are declared
pub fn mem_table_declared(t: &Table, decl: &SourceDecl, v: &Variant) -> Result<(MemTable, Declared), String> {
    let t = prepared_table(t, decl);
    let (mut schema, mut batches) = vf_df::table_to_batches(&t, v.strings, v.batch_rows)?;
    if decl.id_not_null {
        if let Some(idc) = t.cols.iter().position(|c| c.name == "id") {
            if t.rows.iter().all(|r| !r[idc].is_null()) {
                let fields: Vec<datafusion::arrow::datatypes::Field> =
                    schema.fields().iter().enumerate().map(|(i, f)| if i == idc { f.as_ref().clone().with_nullable(false) } else { f.as_ref().clone() }).collect();
                schema = Arc::new(datafusion::arrow::datatypes::Schema::new(fields));
                let mut rebuilt = vec![];
                for b in &batches {
                    rebuilt.push(RecordBatch::try_new(schema.clone(), b.columns().to_vec()).map_err(|e| e.to_string())?);
                }
                batches = rebuilt;
            }
        }
    }
    let dict: Vec<usize> = decl.dict_cols.iter().map(|c| *c as usize).filter(|c| *c < t.cols.len() && t.cols[*c].name != "id" && matches!(t.cols[*c].ty, refsql::Ty::Int | refsql::Ty::Str)).collect();
    if !dict.is_empty() {
        let fields: Vec<datafusion::arrow::datatypes::Field> = schema
            .fields()
            .iter()
            .enumerate()
            .map(|(i, f)| {
                if dict.contains(&i) {
                    let vt = if t.cols[i].ty == refsql::Ty::Str { DataType::Utf8 } else { DataType::Int64 };
                    datafusion::arrow::datatypes::Field::new(f.name(), DataType::Dictionary(Box::new(DataType::Int32), Box::new(vt)), true)
                } else {
                    f.as_ref().clone()
                }
            })
            .collect();
        schema = Arc::new(datafusion::arrow::datatypes::Schema::new(fields));
        let mut rebuilt = vec![];
        for b in &batches {
            let mut cols = b.columns().to_vec();
            for i in &dict {
                cols[*i] = dictionary_with_null_value(&cols[*i])?;
            }
            rebuilt.push(RecordBatch::try_new(schema.clone(), cols).map_err(|e| e.to_string())?);
        }
        batches = rebuilt;
    }
    let np = v.mem_partitions.max(1);
    let mut parts: Vec<Vec<RecordBatch>> = vec![vec![]; np];
    for (i, b) in batches.into_iter().enumerate() {
        parts[i % np].push(b);
    }
    let mut declared = Declared::default();
    let ncols = t.cols.len();
    let sort: Vec<SortKey> = decl.sort.iter().filter(|k| (k.col as usize) < ncols).copied().collect();
    if !sort.is_empty() && holds_on_all(&parts, &schema, &sort) {
        declared.orderings.push(sort.clone());
    }
    if decl.extra {
        let mut extra = 0;
        'outer: for c in 0..ncols as u8 {
            if sort.first().map(|k| k.col) == Some(c) {
                continue;
            }
            for (desc, nulls_first) in [(false, false), (true, true), (false, true), (true, false)] {
                let k = vec![SortKey { col: c, desc, nulls_first }];
                if holds_on_all(&parts, &schema, &k) {
                    declared.orderings.push(k);
                    extra += 1;
                    if extra >= 2 {
                        break 'outer;
                    }
                    break;
                }
            }
        }
    }
    let mut mt = MemTable::try_new(schema, parts).map_err(|e| e.to_string())?;
    if !declared.orderings.is_empty() {
        let so: Vec<Vec<SortExpr>> = declared.orderings.iter().map(|o| o.iter().map(|k| col(t.cols[k.col as usize].name.as_str()).sort(!k.desc, k.nulls_first)).collect()).collect();
        mt = mt.with_sort_order(so);
    }
    Ok((mt, declared))
}

pub fn register_declared(ctx: &SessionContext, case: &WalkCase) -> Result<Vec<Declared>, String> {
    let mut out = vec![];
    let none = SourceDecl::default();
    for (i, t) in case.tables.iter().enumerate() {
        let decl = case.sources.get(i).unwrap_or(&none);
        let (mt, d) = mem_table_declared(t, decl, &case.variant)?;
        ctx.register_table(t.name.as_str(), Arc::new(mt)).map_err(|e| e.to_string())?;
        out.push(d);
    }
    Ok(out)
}

// ---------------------------------------------------------------------------------------------
// planning and walking

#[derive(Clone, Debug)]
pub struct EngineErr {
    pub class: ErrClass,
    pub stage: &'static str,
    pub message: String,
}

pub fn engine_err(e: &DataFusionError, stage: &'static str) -> EngineErr {
    EngineErr { class: classify_error(e), stage, message: truncate(&e.strip_backtrace(), 1200) }
}

pub struct Planned {
    pub logical: LogicalPlan,
    /// after the analyzer (type coercion …), before the optimizer; None when the analyzer alone fails
    pub analyzed: Option<LogicalPlan>,
    pub optimized: LogicalPlan,
    pub physical: Arc<dyn ExecutionPlan>,
}

pub async fn plan_sql(ctx: &SessionContext, sql: &str) -> Result<Planned, EngineErr> {
    let state = ctx.state();
    let logical = state.create_logical_plan(sql).await.map_err(|e| engine_err(&e, "logical"))?;
    let optimized = state.optimize(&logical).map_err(|e| engine_err(&e, "optimize"))?;
    let analyzed = state.analyzer().execute_and_check(logical.clone(), &state.config_options(), |_, _| {}).ok();
    // a panic of the physical planner is kept apart from the panics of operators (which the engine reports itself):
    // it is reported as an `Internal` planning error carrying the panic message, so that a property can key a known
    // finding on it (C53: the experimental piecewise merge join planner reaches `unreachable!()`)
    let planned = futures::FutureExt::catch_unwind(std::panic::AssertUnwindSafe(state.query_planner().create_physical_plan(&optimized, &state))).await;
    let physical = match planned {
        Ok(r) => r.map_err(|e| engine_err(&e, "physical"))?,
        Err(payload) => {
            let m = payload.downcast_ref::<&str>().map(|s| s.to_string()).or_else(|| payload.downcast_ref::<String>().cloned()).unwrap_or_else(|| "<non-string panic payload>".into());
            return Err(EngineErr { class: ErrClass::Internal, stage: "physical-planner-panic", message: m });
        }
    };
    Ok(Planned { logical, analyzed, optimized, physical })
}

pub struct WalkNode {
    /// child indexes from the root, e.g. "0.1"
    pub path: String,
    #[allow(dead_code)]
    pub depth: usize,
    pub name: String,
    /// one-line display of the operator
    pub display: String,
    /// the state-reset copy of the subtree that was executed
    pub plan: Arc<dyn ExecutionPlan>,
    /// per output partition batches, or the run-time error of the isolated run
    pub parts: Result<Vec<Vec<RecordBatch>>, EngineErr>,
}

impl WalkNode {
    pub fn rows(&self) -> usize {
        match &self.parts {
            Ok(p) => p.iter().map(|b| b.iter().map(|x| x.num_rows()).sum::<usize>()).sum(),
            Err(_) => 0,
        }
    }
}

pub struct Walk {
    /// schema of the plan as produced by the SQL planner (before the analyzer's type coercion)
    pub logical_schema: DFSchemaRef,
    pub analyzed_schema: Option<DFSchemaRef>,
    pub optimized_schema: DFSchemaRef,
    #[allow(dead_code)]
    pub physical: Arc<dyn ExecutionPlan>,
    pub plan_text: String,
    pub nodes: Vec<WalkNode>,
    pub skipped_work_table: usize,
    pub declared: Vec<Declared>,
}

/// a subtree that reads a work table whose RecursiveQueryExec is not inside the subtree
fn unbound_work_table(plan: &Arc<dyn ExecutionPlan>) -> bool {
    if plan.name() == "RecursiveQueryExec" {
        return false;
    }
    plan.name() == "WorkTableExec" || plan.children().iter().any(|c| unbound_work_table(c))
}

pub fn plan_text(plan: &Arc<dyn ExecutionPlan>) -> String {
    let s = displayable(plan.as_ref()).indent(false).to_string();
    s
}

/// untruncated one-line display (for classification)
pub fn one_line_full(plan: &dyn ExecutionPlan) -> String {
    displayable(plan).one_line().to_string().trim().to_string()
}

/// debugging aid (`VFW_DUMP=1`): per node, the rows per partition
pub fn dump(w: &Walk) {
    if std::env::var_os("VFW_DUMP").is_none() {
        return;
    }
    for n in &w.nodes {
        match &n.parts {
            Ok(p) => eprintln!("DUMP [{}] {} rows/partition={:?}", n.path, truncate(&n.display, 120), p.iter().map(|b| b.iter().map(|x| x.num_rows()).sum::<usize>()).collect::<Vec<_>>()),
            Err(e) => eprintln!("DUMP [{}] {} error={}", n.path, truncate(&n.display, 120), truncate(&e.message, 200)),
        }
    }
}

pub fn one_line(plan: &dyn ExecutionPlan) -> String {
    let s = displayable(plan).one_line().to_string();
    truncate(s.trim(), 300)
}

pub fn enumerate_nodes(root: &Arc<dyn ExecutionPlan>) -> Vec<(String, usize, Arc<dyn ExecutionPlan>)> {
    fn rec(p: &Arc<dyn ExecutionPlan>, path: String, depth: usize, out: &mut Vec<(String, usize, Arc<dyn ExecutionPlan>)>) {
        out.push((path.clone(), depth, p.clone()));
        for (i, c) in p.children().iter().enumerate() {
            let cp = if path.is_empty() { i.to_string() } else { format!("{path}.{i}") };
            rec(c, cp, depth + 1, out);
        }
    }
    let mut out = vec![];
    rec(root, String::new(), 0, &mut out);
    out
}

#[derive(Debug)]
pub enum WalkFail {
    /// planning failed (clean rejection or an engine error — not judged here)
    Plan(EngineErr),
    Setup(String),
    Timeout,
}

/// Fresh runtime + fresh `SessionContext` for the variant; `f` runs under the per-case timeout.
pub fn in_session<T, F, Fut>(variant: &Variant, f: F) -> Result<T, WalkFail>
where
    F: FnOnce(SessionContext) -> Fut,
    Fut: std::future::Future<Output = Result<T, WalkFail>>,
{
    in_session_limited(variant, None, f)
}

/// as [`in_session`], optionally with a memory-limited runtime (spilling operators spill to the OS temp dir)
pub fn in_session_limited<T, F, Fut>(variant: &Variant, mem_limit: Option<(u64, bool)>, f: F) -> Result<T, WalkFail>
where
    F: FnOnce(SessionContext) -> Fut,
    Fut: std::future::Future<Output = Result<T, WalkFail>>,
{
    let rt = vf_df::build_runtime(variant).map_err(|e| WalkFail::Setup(e.to_string()))?;
    let ctx = match mem_limit {
        None => vf_df::build_context(variant, |b| b).map_err(|e| WalkFail::Plan(engine_err(&e, "setup")))?,
        Some((bytes, fair)) => {
            use datafusion::execution::memory_pool::{FairSpillPool, GreedyMemoryPool, MemoryPool};
            use datafusion::execution::runtime_env::RuntimeEnvBuilder;
            let pool: Arc<dyn MemoryPool> = if fair { Arc::new(FairSpillPool::new(bytes as usize)) } else { Arc::new(GreedyMemoryPool::new(bytes as usize)) };
            let env = RuntimeEnvBuilder::new().with_memory_pool(pool).build_arc().map_err(|e| WalkFail::Plan(engine_err(&e, "setup")))?;
            let cfg = vf_df::session_config(variant).map_err(|e| WalkFail::Plan(engine_err(&e, "setup")))?;
            let state = datafusion::execution::SessionStateBuilder::new().with_config(cfg).with_runtime_env(env).with_default_features().build();
            SessionContext::new_with_state(state)
        }
    };
    let timeout = std::time::Duration::from_millis(variant.timeout_ms.max(1));
    let out = rt.block_on(async { tokio::time::timeout(timeout, f(ctx)).await });
    rt.shutdown_timeout(std::time::Duration::from_millis(200));
    match out {
        Err(_) => Err(WalkFail::Timeout),
        Ok(r) => r,
    }
}

/// Plan `sql` on a prepared context and execute every node's subtree in isolation.
pub async fn walk_sql(ctx: &SessionContext, sql: &str, declared: Vec<Declared>) -> Result<Walk, WalkFail> {
    let planned = plan_sql(ctx, sql).await.map_err(WalkFail::Plan)?;
    let (nodes, skipped) = walk_plan(ctx, &planned.physical).await;
    Ok(Walk {
        logical_schema: planned.logical.schema().clone(),
        analyzed_schema: planned.analyzed.as_ref().map(|p| p.schema().clone()),
        optimized_schema: planned.optimized.schema().clone(),
        plan_text: plan_text(&planned.physical),
        physical: planned.physical,
        nodes,
        skipped_work_table: skipped,
        declared,
    })
}

/// Plan the case's program over declared MemTables and execute every node's subtree in isolation.
pub fn walk(case: &WalkCase) -> Result<Walk, WalkFail> {
    let sql = case.sql();
    in_session(&case.variant, |ctx| async move {
        let declared = register_declared(&ctx, case).map_err(WalkFail::Setup)?;
        walk_sql(&ctx, &sql, declared).await
    })
}

/// Shapes of the physical plan that open known findings are keyed on (planning only, no execution).
#[derive(Clone, Debug, Default)]
#[allow(dead_code)]
pub struct PlanProbe {
    /// a `PlaceholderRowExec` declaring columns (left behind by the aggregate-from-statistics rewrite)
    pub typed_placeholder_row: bool,
    /// a LEFT/RIGHT/FULL join whose NULL-padded input declares a constant
    pub outer_join_padded_constant: bool,
    /// a `PiecewiseMergeJoin` of a classic join type (Inner/Left/Right/Full)
    pub classic_piecewise_merge_join: bool,
    /// an `AggregateExec` carrying limit options (`lim=[k]`) that declares an output ordering
    pub limited_aggregate_with_ordering: bool,
}

#[allow(dead_code)]
pub fn probe_plan(root: &Arc<dyn ExecutionPlan>) -> PlanProbe {
    let mut p = PlanProbe::default();
    for (_, _, n) in enumerate_nodes(root) {
        let name = n.name();
        if name == "PlaceholderRowExec" && !n.schema().fields().is_empty() {
            p.typed_placeholder_row = true;
        }
        let text = one_line_full(n.as_ref());
        if name == "AggregateExec" && text.contains("lim=[") && !n.properties().equivalence_properties().oeq_class().is_empty() {
            p.limited_aggregate_with_ordering = true;
        }
        let jt = |t: &str| text.contains(&format!("join_type={t},")) || text.contains(&format!("join_type={t} ")) || text.ends_with(&format!("join_type={t}"));
        if name.contains("Join") {
            let kids = n.children();
            if kids.len() == 2 {
                let constant = |c: &Arc<dyn ExecutionPlan>| !c.properties().equivalence_properties().constants().is_empty();
                if (jt("Left") || jt("Full")) && constant(kids[1]) {
                    p.outer_join_padded_constant = true;
                }
                if (jt("Right") || jt("Full")) && constant(kids[0]) {
                    p.outer_join_padded_constant = true;
                }
            }
            if name == "PiecewiseMergeJoin" || name == "PiecewiseMergeJoinExec" {
                if jt("Inner") || jt("Left") || jt("Right") || jt("Full") {
                    p.classic_piecewise_merge_join = true;
                }
            }
        }
    }
    p
}

pub fn panic_text(payload: &Box<dyn std::any::Any + Send>) -> String {
    payload.downcast_ref::<&str>().map(|s| s.to_string()).or_else(|| payload.downcast_ref::<String>().cloned()).unwrap_or_else(|| "<non-string panic payload>".into())
}

pub async fn walk_plan(ctx: &SessionContext, physical: &Arc<dyn ExecutionPlan>) -> (Vec<WalkNode>, usize) {
    let mut nodes = vec![];
    let mut skipped = 0;
    for (path, depth, node) in enumerate_nodes(physical) {
        if unbound_work_table(&node) {
            skipped += 1;
            continue;
        }
        let name = node.name().to_string();
        let display = one_line(node.as_ref());
        let fresh = match reset_plan_states(node.clone()) {
            Ok(f) => f,
            Err(e) => {
                nodes.push(WalkNode { path, depth, name, display, plan: node.clone(), parts: Err(engine_err(&e, "reset")) });
                continue;
            }
        };
        // a panic of an operator says nothing about the walker properties (it is a crash, C01/C20's business): the node
        // carries it as a run-time error (label `node-panic`), the checkers skip it like any failed node
        let parts = match futures::FutureExt::catch_unwind(std::panic::AssertUnwindSafe(collect_partitioned(fresh.clone(), ctx.task_ctx()))).await {
            Ok(r) => r.map_err(|e| engine_err(&e, "execute")),
            Err(payload) => Err(EngineErr { class: ErrClass::Internal, stage: "execute-panic", message: panic_text(&payload) }),
        };
        nodes.push(WalkNode { path, depth, name, display, plan: fresh, parts });
    }
    (nodes, skipped)
}

/// labels describing a plan (operator kinds) and the case's configuration
pub fn plan_labels(case: &WalkCase, w: &Walk) -> Vec<String> {
    let mut names: Vec<String> = w.nodes.iter().map(|n| format!("op:{}", n.name)).collect();
    names.sort();
    names.dedup();
    let mut l = names;
    l.push(match &case.program {
        Program::Ref(_) => "prog:refsql".to_string(),
        Program::Tmpl(_) => "prog:tmpl".to_string(),
    });
    l.push(format!("tp:{}", case.variant.target_partitions));
    if w.declared.iter().any(|d| !d.orderings.is_empty()) {
        l.push("declared-source-order".into());
    }
    if w.declared.iter().any(|d| d.orderings.len() > 1) {
        l.push("declared-multi-order".into());
    }
    if w.skipped_work_table > 0 {
        l.push("skipped-work-table-subtree".into());
    }
    if w.nodes.iter().any(|n| matches!(&n.parts, Err(e) if e.stage == "execute-panic")) {
        l.push("node-panic".into());
    }
    l.push(format!("nodes:{}", match w.nodes.len() {
        0..=2 => "1-2",
        3..=5 => "3-5",
        6..=10 => "6-10",
        _ => "11+",
    }));
    l
}

pub fn discard_key(e: &EngineErr) -> String {
    let m: String = e.message.chars().take(70).map(|c| if c.is_ascii_digit() { '#' } else { c }).collect();
    format!("{:?}@{}: {m}", e.class, e.stage)
}

// ---------------------------------------------------------------------------------------------
// findings, outcome-keyed known signatures

/// one violated claim; `sig` = the open-known-finding signature this violation is an instance of (None = new)
#[derive(Clone, Debug)]
pub struct Finding {
    pub sig: Option<String>,
    pub msg: String,
}

/// everything a property concluded about one case
#[derive(Clone, Debug)]
pub struct Judged {
    pub findings: Vec<Finding>,
    /// the result when there is no finding (pass / discard / inconclusive, with labels); for a violation: labels only
    pub result: CaseResult,
}

impl Judged {
    pub fn clean(result: CaseResult) -> Self {
        Judged { findings: vec![], result }
    }
}

thread_local! {
    /// the engine calls `known_signature` and then `run` on the same case back to back on the same thread: the
    /// judgement (plain data only — no plans, no batches) is computed once
    static JUDGED: std::cell::RefCell<Option<(u64, Judged)>> = const { std::cell::RefCell::new(None) };
}

fn judged<C: Serialize>(sub: &str, case: &C, judge: impl FnOnce() -> Judged) -> Judged {
    let mut key_src = serde_json::to_vec(case).unwrap_or_default();
    key_src.extend_from_slice(sub.as_bytes());
    let key = fnv1a(&key_src);
    if let Some(hit) = JUDGED.with(|c| c.borrow().as_ref().filter(|(k, _)| *k == key).map(|(_, j)| j.clone())) {
        return hit;
    }
    let j = judge();
    JUDGED.with(|c| *c.borrow_mut() = Some((key, j.clone())));
    j
}

/// Outcome-keyed signature: the case fails AND every violation found is an instance of a known finding.
pub fn judged_signature<C: Serialize>(sub: &str, case: &C, judge: impl FnOnce() -> Judged) -> Option<String> {
    // the engine calls `known_signature` outside its panic guard: a panic of the code under test must surface in `run`
    // (where the engine turns it into a violation), not here
    let j = match std::panic::catch_unwind(std::panic::AssertUnwindSafe(|| judged(sub, case, judge))) {
        Ok(j) => j,
        Err(_) => return None,
    };
    if !j.findings.is_empty() && j.findings.iter().all(|f| f.sig.is_some()) { j.findings[0].sig.clone() } else { None }
}

pub fn judged_result<C: Serialize>(sub: &str, case: &C, judge: impl FnOnce() -> Judged) -> CaseResult {
    let j = judged(sub, case, judge);
    JUDGED.with(|c| *c.borrow_mut() = None);
    if std::env::var_os("VFW_SURVEY").is_some() {
        // development aid: list every violated claim and carry on (never used by ./check)
        for f in &j.findings {
            eprintln!("SURVEY {sub} sig={:?} {}", f.sig, truncate(&f.msg.replace('\n', " "), 420));
            // keep one (small) example case per signature
            if let (Some(sig), Ok(dir)) = (&f.sig, std::env::var("VFW_SURVEY")) {
                let name: String = sig.chars().map(|c| if c.is_ascii_alphanumeric() || c == '-' || c == '_' { c } else { '_' }).collect();
                let path = std::path::Path::new(&dir).join(format!("{name}.json"));
                let text = serde_json::to_string_pretty(case).unwrap_or_default();
                let smaller = std::fs::metadata(&path).map(|m| (text.len() as u64) < m.len()).unwrap_or(true);
                if std::path::Path::new(&dir).is_dir() && smaller {
                    let _ = std::fs::write(&path, &text);
                    let _ = std::fs::write(path.with_extension("txt"), &f.msg);
                }
            }
        }
        return j.result;
    }
    match j.findings.iter().find(|f| f.sig.is_none()).or(j.findings.first()) {
        None => j.result,
        Some(f) => {
            let mut msg = f.msg.clone();
            if j.findings.len() > 1 {
                msg.push_str(&format!("\n  ({} violated claims in this case in total)", j.findings.len()));
            }
            CaseResult::violation(msg).labels(j.result.labels.clone())
        }
    }
}

/// a LEFT/RIGHT/FULL join below (or at) `plan` whose NULL-padded input declares a constant
pub fn subtree_has(plan: &Arc<dyn ExecutionPlan>, pred: &dyn Fn(&Arc<dyn ExecutionPlan>) -> bool) -> bool {
    pred(plan) || plan.children().iter().any(|c| subtree_has(c, pred))
}
