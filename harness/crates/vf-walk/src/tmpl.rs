//! Template queries: a small typed relational-algebra generator rendered to SQL text, aimed at the plans the walker
//! properties care about and the refsql grammar seldom produces: projections of (declared-sorted) sources through
//! monotonic and non-monotonic functions (`x+k`, `k-x`, `-x`, `x*k`, `x/k`, `abs`, `ceil/floor/round/trunc`, `exp`,
//! `CAST`, `to_timestamp_seconds`, `date_trunc`, `substr`, `upper`, `||`, …), equality filters (constants and
//! equivalence classes), ORDER BY on derived expressions (sort elimination), windows over sorted inputs, grouped
//! aggregation on sorted keys, UNION ALL of sorted inputs, joins of sorted inputs, nested TopK.
//!
//! No reference evaluation is needed (the walker's oracles look at the executed data of every node), so any
//! engine function may be used. Construction, never rejection: every relation outputs columns `c0..c{n-1}` with
//! tracked types; a function that does not apply to its argument's type is skipped when rendering; column
//! choices are `u8` cells mapped monotonically onto the available columns. NaN is never produced (no `ln`/`sqrt`,
//! no float division by a column); -0.0 may be produced and is harmless (the checkers' comparators identify ±0).
use proptest::prelude::*;
use serde::{Deserialize, Serialize};

#[derive(Clone, Copy, Debug, PartialEq, Eq)]
pub enum CT {
    Int,
    Float,
    Str,
    Bool,
    Ts,
}

#[derive(Clone, Copy, Debug, PartialEq, Serialize, Deserialize)]
pub enum MFn {
    /// `x + k` (Int: integer k; Float: k/2; Ts: k hours)
    Add(i8),
    /// `k - x`
    SubFrom(i8),
    Neg,
    /// `x * k`
    Mul(i8),
    /// `x / k` (k ≠ 0; 0 is rendered as 2)
    Div(i8),
    Abs,
    Ceil,
    Floor,
    Round,
    Trunc,
    Signum,
    Exp,
    Atan,
    CastInt,
    CastInt32,
    CastFloat,
    CastStr,
    /// `to_timestamp_seconds(x)` on Int
    ToTs,
    /// `date_trunc(unit, x)` on Ts: 0 minute 1 hour 2 day 3 year
    DateTrunc(u8),
    CastDate,
    Upper,
    Lower,
    /// `substr(x, 1, n)`
    Substr(u8),
    /// `x || 'z'`
    Append,
    /// `concat('a', x)`
    Prepend,
    Length,
    /// `coalesce(x, k)` (typed constant)
    Coalesce(i8),
    Not,
    /// `CAST(NULL AS <type of x>)` — a typed all-NULL column
    TypedNull,
    /// `NULL` — an untyped NULL literal (Null-typed column) standing in for x
    UntypedNull,
}

#[derive(Clone, Debug, PartialEq, Serialize, Deserialize)]
pub struct TExpr {
    pub col: u8,
    pub fns: Vec<MFn>,
}

#[derive(Clone, Copy, Debug, PartialEq, Serialize, Deserialize)]
pub struct OrdKey {
    pub col: u8,
    pub desc: bool,
    /// None = engine default
    pub nulls_first: Option<bool>,
}

#[derive(Clone, Copy, Debug, PartialEq, Serialize, Deserialize)]
pub enum POp {
    Eq,
    Lt,
    Ge,
    IsNull,
    IsNotNull,
    /// `ci = cj` (second column = `k` cell; falls back to `ci = ci` when no other column has the type)
    ColEq,
}

#[derive(Clone, Copy, Debug, PartialEq, Serialize, Deserialize)]
pub struct TPred {
    pub col: u8,
    pub op: POp,
    pub k: u8,
}

#[derive(Clone, Copy, Debug, PartialEq, Eq, Serialize, Deserialize)]
pub enum TJoin {
    Inner,
    Left,
    Right,
    Full,
    LeftSemi,
    LeftAnti,
}

#[derive(Clone, Copy, Debug, PartialEq, Eq, Serialize, Deserialize)]
pub enum WFn {
    RowNumber,
    Rank,
    Sum,
    Min,
    Count,
    Lag,
    FirstValue,
}

#[derive(Clone, Copy, Debug, PartialEq, Eq, Serialize, Deserialize)]
pub enum AFn {
    CountStar,
    Count,
    Sum,
    Min,
    Max,
    Avg,
}

#[derive(Clone, Debug, PartialEq, Serialize, Deserialize)]
pub enum TRel {
    Scan { table: u8 },
    /// `(VALUES (NULL, 0), (NULL, 1), …)`: a memory source with a Null-typed column c0 and BIGINT c1
    NullValues { rows: u8 },
    Project { input: Box<TRel>, exprs: Vec<TExpr> },
    Filter { input: Box<TRel>, preds: Vec<TPred> },
    /// derived table with its own ORDER BY and optional LIMIT
    Sort { input: Box<TRel>, keys: Vec<OrdKey>, fetch: Option<u8> },
    Union { left: Box<TRel>, right: Box<TRel> },
    Join { left: Box<TRel>, right: Box<TRel>, kind: TJoin, lkey: u8, rkey: u8 },
    Window { input: Box<TRel>, f: WFn, arg: u8, partition: Option<u8>, order: Vec<OrdKey> },
    Agg { input: Box<TRel>, group: Vec<u8>, aggs: Vec<(AFn, u8)> },
    Distinct { input: Box<TRel> },
}

#[derive(Clone, Debug, PartialEq, Serialize, Deserialize)]
pub struct TQuery {
    pub root: TRel,
    pub order: Vec<OrdKey>,
    pub limit: Option<u8>,
}

fn pick(cell: u8, n: usize) -> usize {
    if n == 0 { 0 } else { ((cell as usize) * n) >> 8 }
}

fn fn_type(f: MFn, t: CT) -> Option<CT> {
    use CT::*;
    use MFn::*;
    Some(match (f, t) {
        (Add(_) | SubFrom(_) | Neg | Mul(_) | Div(_) | Abs, Int) => Int,
        (Add(_) | SubFrom(_) | Neg | Mul(_) | Div(_) | Abs, Float) => Float,
        (Add(_), Ts) => Ts,
        (Ceil | Floor | Round | Trunc | Signum | Exp | Atan, Float) => Float,
        (CastInt, Float | Bool | Ts) => Int,
        (CastInt32, Int) => Int,
        (CastFloat, Int) => Float,
        (CastStr, Int | Float | Bool) => Str,
        (ToTs, Int) => Ts,
        (DateTrunc(_), Ts) => Ts,
        (CastDate, Ts) => Ts,
        (Upper | Lower | Substr(_) | Append | Prepend, Str) => Str,
        (Length, Str) => Int,
        (Coalesce(_), Int | Float | Str | Bool) => t,
        (Not, Bool) => Bool,
        (TypedNull | UntypedNull, _) => t,
        _ => return None,
    })
}

fn render_fn(f: MFn, t: CT, x: String) -> String {
    use MFn::*;
    match f {
        Add(k) => match t {
            CT::Int => format!("({x} + {k})"),
            CT::Float => format!("({x} + {})", k as f64 / 2.0),
            _ => format!("({x} + INTERVAL '{} hour')", k),
        },
        SubFrom(k) => match t {
            CT::Int => format!("({k} - {x})"),
            _ => format!("({} - {x})", k as f64 / 2.0),
        },
        Neg => format!("(-{x})"),
        Mul(k) => match t {
            CT::Int => format!("({x} * {k})"),
            _ => format!("({x} * {})", k as f64 / 2.0),
        },
        Div(k) => {
            let k = if k == 0 { 2 } else { k };
            match t {
                CT::Int => format!("({x} / {k})"),
                _ => format!("({x} / {})", k as f64 / 2.0),
            }
        }
        Abs => format!("abs({x})"),
        Ceil => format!("ceil({x})"),
        Floor => format!("floor({x})"),
        Round => format!("round({x})"),
        Trunc => format!("trunc({x})"),
        Signum => format!("signum({x})"),
        Exp => format!("exp({x})"),
        Atan => format!("atan({x})"),
        CastInt => format!("CAST({x} AS BIGINT)"),
        CastInt32 => format!("CAST({x} AS INT)"),
        CastFloat => format!("CAST({x} AS DOUBLE)"),
        CastStr => format!("CAST({x} AS VARCHAR)"),
        ToTs => format!("to_timestamp_seconds({x})"),
        DateTrunc(u) => format!("date_trunc('{}', {x})", ["minute", "hour", "day", "year"][(u % 4) as usize]),
        CastDate => format!("CAST(CAST({x} AS DATE) AS TIMESTAMP)"),
        Upper => format!("upper({x})"),
        Lower => format!("lower({x})"),
        Substr(n) => format!("substr({x}, 1, {})", n % 3 + 1),
        Append => format!("({x} || 'z')"),
        Prepend => format!("concat('a', {x})"),
        Length => format!("CAST(character_length({x}) AS BIGINT)"),
        Coalesce(k) => match t {
            CT::Int => format!("coalesce({x}, {k})"),
            CT::Float => format!("coalesce({x}, {})", k as f64 / 2.0),
            CT::Str => format!("coalesce({x}, '{}')", ["", "a", "b", "zz"][(k.unsigned_abs() % 4) as usize]),
            _ => format!("coalesce({x}, {})", k % 2 == 0),
        },
        Not => format!("(NOT {x})"),
        TypedNull => format!("CAST(NULL AS {})", sql_type(t)),
        UntypedNull => "NULL".to_string(),
    }
}

struct R {
    next_alias: usize,
}

/// (SQL of a query producing columns c0..c{n-1}, their types)
struct Out {
    sql: String,
    types: Vec<CT>,
}

impl R {
    fn alias(&mut self) -> String {
        self.next_alias += 1;
        format!("r{}", self.next_alias)
    }

    fn expr(&self, e: &TExpr, rel: &str, types: &[CT]) -> (String, CT) {
        let i = pick(e.col, types.len());
        let mut t = types[i];
        let mut s = format!("{rel}.c{i}");
        for f in &e.fns {
            if let Some(nt) = fn_type(*f, t) {
                s = render_fn(*f, t, s);
                t = nt;
            }
        }
        (s, t)
    }

    fn ord(&self, keys: &[OrdKey], ncols: usize, prefix: &str) -> String {
        let mut seen = vec![];
        let mut parts = vec![];
        for k in keys {
            let i = pick(k.col, ncols);
            if seen.contains(&i) {
                continue;
            }
            seen.push(i);
            let mut s = format!("{prefix}c{i}");
            s.push_str(if k.desc { " DESC" } else { " ASC" });
            match k.nulls_first {
                Some(true) => s.push_str(" NULLS FIRST"),
                Some(false) => s.push_str(" NULLS LAST"),
                None => {}
            }
            parts.push(s);
        }
        parts.join(", ")
    }

    fn constant(&self, t: CT, k: u8) -> String {
        match t {
            CT::Int => format!("{}", (k as i64 % 5) - 1),
            CT::Float => format!("{}", [0.5, 1.0, 1.5, -0.5, 2.0, -2.0, 2.5, -1.0][(k % 8) as usize]),
            CT::Str => format!("'{}'", ["", "a", "b", "ab", "B", "abc", "ba"][(k % 7) as usize]),
            CT::Bool => format!("{}", k % 2 == 0),
            CT::Ts => format!("to_timestamp_seconds({})", (k as i64 % 5) - 1),
        }
    }

    fn rel(&mut self, r: &TRel) -> Out {
        match r {
            TRel::Scan { table } => {
                let t = pick(*table, 3);
                Out { sql: format!("SELECT id AS c0, a AS c1, b AS c2, s AS c3, f AS c4, p AS c5 FROM t{t}"), types: vec![CT::Int, CT::Int, CT::Int, CT::Str, CT::Float, CT::Bool] }
            }
            TRel::NullValues { rows } => {
                let n = (*rows % 4) as usize + 1;
                let vals: Vec<String> = (0..n).map(|i| format!("(NULL, {i})")).collect();
                let a = self.alias();
                Out { sql: format!("SELECT {a}.column1 AS c0, {a}.column2 AS c1 FROM (VALUES {}) AS {a}", vals.join(", ")), types: vec![CT::Int, CT::Int] }
            }
            TRel::Project { input, exprs } => {
                let i = self.rel(input);
                let a = self.alias();
                let mut items = vec![];
                let mut types = vec![];
                for (n, e) in exprs.iter().enumerate() {
                    let (s, t) = self.expr(e, &a, &i.types);
                    items.push(format!("{s} AS c{n}"));
                    types.push(t);
                }
                if items.is_empty() {
                    items.push(format!("{a}.c0 AS c0"));
                    types.push(i.types[0]);
                }
                Out { sql: format!("SELECT {} FROM ({}) AS {a}", items.join(", "), i.sql), types }
            }
            TRel::Filter { input, preds } => {
                let i = self.rel(input);
                let a = self.alias();
                let mut conj = vec![];
                for p in preds {
                    let c = pick(p.col, i.types.len());
                    let t = i.types[c];
                    let x = format!("{a}.c{c}");
                    conj.push(match p.op {
                        POp::Eq => format!("{x} = {}", self.constant(t, p.k)),
                        POp::Lt => format!("{x} < {}", self.constant(t, p.k)),
                        POp::Ge => format!("{x} >= {}", self.constant(t, p.k)),
                        POp::IsNull => format!("{x} IS NULL"),
                        POp::IsNotNull => format!("{x} IS NOT NULL"),
                        POp::ColEq => {
                            let same: Vec<usize> = (0..i.types.len()).filter(|j| *j != c && i.types[*j] == t).collect();
                            let j = if same.is_empty() { c } else { same[pick(p.k, same.len())] };
                            format!("{x} = {a}.c{j}")
                        }
                    });
                }
                let wh = if conj.is_empty() { String::new() } else { format!(" WHERE {}", conj.join(" AND ")) };
                Out { sql: format!("SELECT {} FROM ({}) AS {a}{wh}", cols(&a, i.types.len()), i.sql), types: i.types }
            }
            TRel::Sort { input, keys, fetch } => {
                let i = self.rel(input);
                let a = self.alias();
                let o = self.ord(keys, i.types.len(), &format!("{a}."));
                let ob = if o.is_empty() { String::new() } else { format!(" ORDER BY {o}") };
                let lim = match fetch {
                    Some(n) => format!(" LIMIT {}", n % 8),
                    None => String::new(),
                };
                Out { sql: format!("SELECT {} FROM ({}) AS {a}{ob}{lim}", cols(&a, i.types.len()), i.sql), types: i.types }
            }
            TRel::Union { left, right } => {
                let l = self.rel(left);
                let r = self.rel(right);
                let (la, ra) = (self.alias(), self.alias());
                let mut used = vec![false; r.types.len()];
                let mut ritems = vec![];
                for (n, t) in l.types.iter().enumerate() {
                    let j = (0..r.types.len()).find(|j| !used[*j] && r.types[*j] == *t).or_else(|| (0..r.types.len()).find(|j| r.types[*j] == *t));
                    match j {
                        Some(j) => {
                            used[j] = true;
                            ritems.push(format!("{ra}.c{j} AS c{n}"));
                        }
                        None => ritems.push(format!("CAST(NULL AS {}) AS c{n}", sql_type(*t))),
                    }
                }
                Out {
                    sql: format!("SELECT {} FROM ({}) AS {la} UNION ALL SELECT {} FROM ({}) AS {ra}", cols(&la, l.types.len()), l.sql, ritems.join(", "), r.sql),
                    types: l.types,
                }
            }
            TRel::Join { left, right, kind, lkey, rkey } => {
                let l = self.rel(left);
                let r = self.rel(right);
                let (la, ra) = (self.alias(), self.alias());
                let lk = pick(*lkey, l.types.len());
                let same: Vec<usize> = (0..r.types.len()).filter(|j| r.types[*j] == l.types[lk]).collect();
                let on = if same.is_empty() {
                    // no column of that type on the right: compare text forms
                    format!("CAST({la}.c{lk} AS VARCHAR) = CAST({ra}.c{} AS VARCHAR)", pick(*rkey, r.types.len()))
                } else {
                    format!("{la}.c{lk} = {ra}.c{}", same[pick(*rkey, same.len())])
                };
                let (kw, semi) = match kind {
                    TJoin::Inner => ("INNER JOIN", false),
                    TJoin::Left => ("LEFT JOIN", false),
                    TJoin::Right => ("RIGHT JOIN", false),
                    TJoin::Full => ("FULL JOIN", false),
                    TJoin::LeftSemi => ("LEFT SEMI JOIN", true),
                    TJoin::LeftAnti => ("LEFT ANTI JOIN", true),
                };
                let mut items: Vec<String> = (0..l.types.len()).map(|i| format!("{la}.c{i} AS c{i}")).collect();
                let mut types = l.types.clone();
                if !semi {
                    for (j, t) in r.types.iter().enumerate() {
                        items.push(format!("{ra}.c{j} AS c{}", l.types.len() + j));
                        types.push(*t);
                    }
                }
                Out { sql: format!("SELECT {} FROM ({}) AS {la} {kw} ({}) AS {ra} ON {on}", items.join(", "), l.sql, r.sql), types }
            }
            TRel::Window { input, f, arg, partition, order } => {
                let i = self.rel(input);
                let a = self.alias();
                let n = i.types.len();
                let ac = pick(*arg, n);
                let at = i.types[ac];
                let x = format!("{a}.c{ac}");
                let numeric = matches!(at, CT::Int | CT::Float);
                let (call, t) = match f {
                    WFn::RowNumber => ("CAST(row_number()".to_string(), CT::Int),
                    WFn::Rank => ("CAST(rank()".to_string(), CT::Int),
                    WFn::Sum if numeric => (format!("(sum({x})"), at),
                    WFn::Sum | WFn::Count => (format!("CAST(count({x})"), CT::Int),
                    WFn::Min => (format!("(min({x})"), at),
                    WFn::Lag => (format!("(lag({x})"), at),
                    WFn::FirstValue => (format!("(first_value({x})"), at),
                };
                let mut over = vec![];
                if let Some(p) = partition {
                    over.push(format!("PARTITION BY {a}.c{}", pick(*p, n)));
                }
                let o = self.ord(order, n, &format!("{a}."));
                if !o.is_empty() {
                    over.push(format!("ORDER BY {o}"));
                }
                let close = if call.starts_with("CAST(") { " AS BIGINT)" } else { ")" };
                let item = format!("{call} OVER ({}){close} AS c{n}", over.join(" "));
                let mut types = i.types.clone();
                types.push(t);
                Out { sql: format!("SELECT {}, {item} FROM ({}) AS {a}", cols(&a, n), i.sql), types }
            }
            TRel::Agg { input, group, aggs } => {
                let i = self.rel(input);
                let a = self.alias();
                let n = i.types.len();
                let mut gcols: Vec<usize> = vec![];
                for g in group {
                    let c = pick(*g, n);
                    if !gcols.contains(&c) {
                        gcols.push(c);
                    }
                }
                let mut items = vec![];
                let mut types = vec![];
                for c in &gcols {
                    items.push(format!("{a}.c{c} AS c{}", items.len()));
                    types.push(i.types[*c]);
                }
                for (f, c) in aggs {
                    let c = pick(*c, n);
                    let t = i.types[c];
                    let x = format!("{a}.c{c}");
                    let numeric = matches!(t, CT::Int | CT::Float);
                    let (s, ot) = match f {
                        AFn::CountStar => ("CAST(count(*) AS BIGINT)".to_string(), CT::Int),
                        AFn::Sum if numeric => (format!("sum({x})"), t),
                        AFn::Avg if numeric => (format!("avg({x})"), CT::Float),
                        AFn::Count | AFn::Sum | AFn::Avg => (format!("CAST(count({x}) AS BIGINT)"), CT::Int),
                        AFn::Min => (format!("min({x})"), t),
                        AFn::Max => (format!("max({x})"), t),
                    };
                    items.push(format!("{s} AS c{}", items.len()));
                    types.push(ot);
                }
                if items.is_empty() {
                    items.push("CAST(count(*) AS BIGINT) AS c0".to_string());
                    types.push(CT::Int);
                }
                let gb = if gcols.is_empty() { String::new() } else { format!(" GROUP BY {}", gcols.iter().map(|c| format!("{a}.c{c}")).collect::<Vec<_>>().join(", ")) };
                Out { sql: format!("SELECT {} FROM ({}) AS {a}{gb}", items.join(", "), i.sql), types }
            }
            TRel::Distinct { input } => {
                let i = self.rel(input);
                let a = self.alias();
                Out { sql: format!("SELECT DISTINCT {} FROM ({}) AS {a}", cols(&a, i.types.len()), i.sql), types: i.types }
            }
        }
    }
}

fn sql_type(t: CT) -> &'static str {
    match t {
        CT::Int => "BIGINT",
        CT::Float => "DOUBLE",
        CT::Str => "VARCHAR",
        CT::Bool => "BOOLEAN",
        CT::Ts => "TIMESTAMP",
    }
}

fn cols(alias: &str, n: usize) -> String {
    (0..n).map(|i| format!("{alias}.c{i} AS c{i}")).collect::<Vec<_>>().join(", ")
}

impl TQuery {
    pub fn sql(&self) -> String {
        let mut r = R { next_alias: 0 };
        let o = r.rel(&self.root);
        let a = r.alias();
        let ob = r.ord(&self.order, o.types.len(), &format!("{a}."));
        let mut s = format!("SELECT {} FROM ({}) AS {a}", cols(&a, o.types.len()), o.sql);
        if !ob.is_empty() {
            s.push_str(&format!(" ORDER BY {ob}"));
        }
        if let Some(l) = self.limit {
            s.push_str(&format!(" LIMIT {}", l % 10));
        }
        s
    }
    #[allow(dead_code)]
    pub fn has_limit(&self) -> bool {
        fn rel(r: &TRel) -> bool {
            match r {
                TRel::Scan { .. } | TRel::NullValues { .. } => false,
                TRel::Sort { input, fetch, .. } => fetch.is_some() || rel(input),
                TRel::Project { input, .. } | TRel::Filter { input, .. } | TRel::Window { input, .. } | TRel::Agg { input, .. } | TRel::Distinct { input } => rel(input),
                TRel::Union { left, right } | TRel::Join { left, right, .. } => rel(left) || rel(right),
            }
        }
        self.limit.is_some() || rel(&self.root)
    }
    pub fn features(&self) -> Vec<String> {
        fn rel(r: &TRel, out: &mut Vec<String>) {
            let (name, kids): (&str, Vec<&TRel>) = match r {
                TRel::Scan { .. } => ("scan", vec![]),
                TRel::NullValues { .. } => ("null-values", vec![]),
                TRel::Project { input, .. } => ("project", vec![input]),
                TRel::Filter { input, .. } => ("filter", vec![input]),
                TRel::Sort { input, fetch, .. } => (if fetch.is_some() { "topk" } else { "sort" }, vec![input]),
                TRel::Union { left, right } => ("union", vec![left, right]),
                TRel::Join { left, right, .. } => ("join", vec![left, right]),
                TRel::Window { input, .. } => ("window", vec![input]),
                TRel::Agg { input, .. } => ("agg", vec![input]),
                TRel::Distinct { input } => ("distinct", vec![input]),
            };
            out.push(format!("t:{name}"));
            for k in kids {
                rel(k, out);
            }
        }
        let mut out = vec![];
        rel(&self.root, &mut out);
        if !self.order.is_empty() {
            out.push("t:order-by".into());
        }
        out.sort();
        out.dedup();
        out
    }
}

// ---------------------------------------------------------------------------------------------
// strategies

fn mfn() -> BoxedStrategy<MFn> {
    use MFn::*;
    prop_oneof![
        (-3i8..=3).prop_map(Add),
        (-3i8..=3).prop_map(SubFrom),
        Just(Neg),
        (-3i8..=3).prop_map(Mul),
        (-3i8..=3).prop_map(Div),
        Just(Abs),
        Just(Ceil),
        Just(Floor),
        Just(Round),
        Just(Trunc),
        Just(Signum),
        Just(Exp),
        Just(Atan),
        Just(CastInt),
        Just(CastInt32),
        Just(CastFloat),
        Just(CastStr),
        Just(ToTs),
        (0u8..4).prop_map(DateTrunc),
        Just(CastDate),
        Just(Upper),
        Just(Lower),
        (0u8..3).prop_map(Substr),
        Just(Append),
        Just(Prepend),
        Just(Length),
        (-2i8..=2).prop_map(Coalesce),
        Just(Not),
        Just(TypedNull),
        Just(UntypedNull),
    ]
    .boxed()
}

fn texpr() -> BoxedStrategy<TExpr> {
    (any::<u8>(), prop::collection::vec(mfn(), 0..=3)).prop_map(|(col, fns)| TExpr { col, fns }).boxed()
}

fn ordkey() -> BoxedStrategy<OrdKey> {
    (any::<u8>(), any::<bool>(), prop_oneof![2 => Just(None), 1 => Just(Some(true)), 1 => Just(Some(false))]).prop_map(|(col, desc, nulls_first)| OrdKey { col, desc, nulls_first }).boxed()
}

fn pred() -> BoxedStrategy<TPred> {
    (any::<u8>(), prop_oneof![3 => Just(POp::Eq), 1 => Just(POp::Lt), 1 => Just(POp::Ge), 1 => Just(POp::IsNull), 1 => Just(POp::IsNotNull), 2 => Just(POp::ColEq)], any::<u8>())
        .prop_map(|(col, op, k)| TPred { col, op, k })
        .boxed()
}

fn trel(allow_limit: bool) -> BoxedStrategy<TRel> {
    let leaf = prop_oneof![9 => any::<u8>().prop_map(|table| TRel::Scan { table }), 1 => any::<u8>().prop_map(|rows| TRel::NullValues { rows })];
    leaf.prop_recursive(4, 14, 2, move |inner| {
        let fetch: BoxedStrategy<Option<u8>> = if allow_limit { prop_oneof![2 => Just(None), 1 => any::<u8>().prop_map(Some)].boxed() } else { Just(None).boxed() };
        prop_oneof![
            4 => (inner.clone(), prop::collection::vec(texpr(), 1..=4)).prop_map(|(i, exprs)| TRel::Project { input: Box::new(i), exprs }),
            2 => (inner.clone(), prop::collection::vec(pred(), 1..=2)).prop_map(|(i, preds)| TRel::Filter { input: Box::new(i), preds }),
            2 => (inner.clone(), prop::collection::vec(ordkey(), 1..=2), fetch).prop_map(|(i, keys, fetch)| TRel::Sort { input: Box::new(i), keys, fetch }),
            2 => (inner.clone(), inner.clone()).prop_map(|(l, r)| TRel::Union { left: Box::new(l), right: Box::new(r) }),
            2 => (inner.clone(), inner.clone(), prop_oneof![3 => Just(TJoin::Inner), 2 => Just(TJoin::Left), 2 => Just(TJoin::Right), 1 => Just(TJoin::Full), 1 => Just(TJoin::LeftSemi), 1 => Just(TJoin::LeftAnti)], any::<u8>(), any::<u8>())
                .prop_map(|(l, r, kind, lkey, rkey)| TRel::Join { left: Box::new(l), right: Box::new(r), kind, lkey, rkey }),
            2 => (
                inner.clone(),
                prop_oneof![Just(WFn::RowNumber), Just(WFn::Rank), Just(WFn::Sum), Just(WFn::Min), Just(WFn::Count), Just(WFn::Lag), Just(WFn::FirstValue)],
                any::<u8>(),
                prop::option::weighted(0.4, any::<u8>()),
                prop::collection::vec(ordkey(), 0..=2)
            )
                .prop_map(|(i, f, arg, partition, order)| TRel::Window { input: Box::new(i), f, arg, partition, order }),
            2 => (
                inner.clone(),
                prop::collection::vec(any::<u8>(), 0..=2),
                prop::collection::vec((prop_oneof![Just(AFn::CountStar), Just(AFn::Count), Just(AFn::Sum), Just(AFn::Min), Just(AFn::Max), Just(AFn::Avg)], any::<u8>()), 0..=2)
            )
                .prop_map(|(i, group, aggs)| TRel::Agg { input: Box::new(i), group, aggs }),
            1 => inner.clone().prop_map(|i| TRel::Distinct { input: Box::new(i) }),
        ]
    })
    .boxed()
}

pub fn strategy(allow_limit: bool) -> BoxedStrategy<TQuery> {
    let limit: BoxedStrategy<Option<u8>> = if allow_limit { prop_oneof![4 => Just(None), 1 => any::<u8>().prop_map(Some)].boxed() } else { Just(None).boxed() };
    (trel(allow_limit), prop::collection::vec(ordkey(), 0..=2), limit).prop_map(|(root, order, limit)| TQuery { root, order, limit }).boxed()
}
