#!/bin/bash
# second verification round (after the dictionary-float extension of the zero-sign repair): all C47 repairs,
# exclusions lifted, three seeds
cd /verif
B=$CARGO_TARGET_DIR/debug/vf-mixed
(cd harness && cargo build --offline -p vf-mixed 2>&1 | tail -2)
for f in regressions/C47/c47/*.json; do
  VF_MIXED_IGNORE_KNOWN=1 $B c47 --replay $f 2>&1 | cut -c1-200
  echo "##### replay $f exit=${PIPESTATUS[0]}"
done
for s in 0 1 2; do
  VF_MIXED_IGNORE_KNOWN=1 VERIF_SEED=$s $B c47 quick 2>&1 | grep -v "^KNOWN-FINDING" | cut -c1-1500 | tail -12
  echo "##### c47 quick (no exclusions) seed $s exit=${PIPESTATUS[0]}"
done
