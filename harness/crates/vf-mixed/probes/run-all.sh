#!/bin/bash
# inside mutrun with all-in-one.diff (the candidate repairs of the five C47 findings and of the C31 aggregate
# dynamic filter finding + six env-guarded probes):
# one rebuild; first the repairs are verified with the known-finding exclusions disabled, then each probe is
# switched on through VF_MUT (exclusions active again, as in a normal run)
cd /verif
B=$CARGO_TARGET_DIR/debug/vf-mixed
(cd harness && cargo build --offline -p vf-mixed 2>&1 | tail -3)
echo "##### repairs: the five regression cases of the open C47 findings must pass now"
for f in regressions/C47/c47/*.json; do
  VF_MIXED_IGNORE_KNOWN=1 $B c47 --replay $f 2>&1 | cut -c1-300
  echo "##### replay $f exit=${PIPESTATUS[0]}"
done
for s in 0 1; do
  echo "##### repairs: c47 quick without exclusions, seed $s"
  VF_MIXED_IGNORE_KNOWN=1 VERIF_SEED=$s $B c47 quick 2>&1 | grep -v "^KNOWN-FINDING" | cut -c1-1500 | tail -12
  echo "##### c47 quick (no exclusions) seed $s exit=${PIPESTATUS[0]}"
done
echo "##### repair of the aggregate dynamic filter: regression case must pass, c31a quick without that exclusion"
VF_MIXED_IGNORE_KNOWN=1 $B c31a --replay regressions/C31/c31a/aggregate-dynamic-filter-null-bound.json 2>&1 | cut -c1-300
echo "##### replay aggregate-dynamic-filter-null-bound exit=${PIPESTATUS[0]}"
for s in 0 1; do
  VF_MIXED_IGNORE_KNOWN=1 VERIF_SEED=$s $B c31a quick 2>&1 | grep -v "^KNOWN-FINDING" | cut -c1-1500 | tail -6
  echo "##### c31a quick (agg exclusion lifted) seed $s exit=${PIPESTATUS[0]}"
done
for m in p1 p2 p3; do
  echo "##### probe $m -> c47 quick"
  VF_MUT=$m $B c47 quick 2>&1 | grep -v "^KNOWN-FINDING" | cut -c1-1500 | tail -8
  echo "##### probe $m exit=${PIPESTATUS[0]}"
done
for m in q1 q2 q3; do
  echo "##### probe $m -> c31a quick"
  VF_MUT=$m $B c31a quick 2>&1 | grep -v "^KNOWN-FINDING" | cut -c1-1500 | tail -8
  echo "##### probe $m exit=${PIPESTATUS[0]}"
done
