//! C47 — mixed-type comparisons are order-independent and exact for integers / decimals.
//!
//! Case (plain data): an ordered pair of column types `(l, r)` out of a 32-type matrix (8 integer
//! widths, f32/f64, six Decimal128 and two Decimal256 precisions/scales incl. a negative scale, Date32,
//! Date64, Timestamp s/ms/us/ns (+ one with a UTC zone), Utf8/LargeUtf8/Utf8View and four dictionary
//! forms), a list `a` of ≤ 6 values of `l` and a list `b` of ≤ 6 values of `r` (boundary pools chosen
//! per *pair*: own MIN/MAX, the other type's MIN/MAX seen from this type ±1 unit, 2^24/2^53/2^63/2^64
//! neighbourhoods, scale edges 0.1 / 0.10, −0.0, NaN, unit-conversion overflow points of timestamps,
//! awkward number / date texts; plus random in-range values), `target_partitions` 1 or 3.
//! `run` builds the Arrow columns itself (`types.rs`) and evaluates, through the DataFrame/Expr API
//! (so literals carry the exact `ScalarValue` type, incl. dictionary scalars):
//!   P  projection over the cross product `a × b`: the 6 operators `a op b` and mirrored `b op' a`;
//!   F  `WHERE a op b` and `WHERE b op' a` (row sets);
//!   L  column vs literal: `a op lit(b_j)` / `lit(b_j) op' a` projections and one filter per literal
//!      (the path through `unwrap_cast` / constant folding);
//!   I  `a [NOT] IN (lit(b_j)…)` with lists of 1, 2–3 and all values (OR-chain and static-set paths) and
//!      `a IN (b)` over the cross product;
//!   J  inner equi-join `ON a = b` and `ON b = a` as hash join (CollectLeft, and Partitioned when
//!      `target_partitions` > 1), sort-merge join (`prefer_hash_join=false`) and nested-loop join
//!      (`ON a = b OR (ia < 0 AND ib < 0)`, the second disjunct is always false).
//! Oracle: (1) metamorphic — in P every `a op b` equals `b op' a` row by row; F/L/I/J agree with the
//! pairwise results of P (IN = 3-valued OR of `=`; join membership = `=` is true); (2) reference — when
//! both sides are integer or decimal, every P cell that evaluated equals the exact comparison computed
//! on decimal texts (`types::cmp_exact`, no engine / arrow arithmetic). Float, temporal and string
//! pairs are subject to (1) only.
//!
//! Errors: a planning-stage rejection of `a op b` (plan / schema / not-implemented error, or an
//! unsupported cast at physical planning) = the pair is not comparable = discard (per pair, reason
//! histogrammed; `extra` lists the non-comparable pairs). An execution error (cast overflow, number
//! text that does not parse) is located by probing each value against a NULL partner and bisecting the grid of the surviving values (≤ 40 extra queries);
//! erroring / unlocated cells are excluded ("a comparison that evaluates without error"), and the other
//! contexts run on the largest error-free sub-grid (greedy removal of the worst value). A context query
//! that errors where P did not is not a wrong answer → label `ctx-error:<ctx>`, no verdict. An
//! `Internal` error → inconclusive (reported in the label histogram, never a violation of C47).
//!
//! `extra` (deterministic): ALL 1024 ordered type pairs × the pair pools (first 7 values + NULL per side at
//! quick tier = 64 cells, 15 + NULL = 256 cells at thorough) through the same body on 8/16 threads;
//! result keys `exhaustive_*` in the evidence (per-pair cell counts, list of non-comparable pairs).
//!
//! Non-trivial: the types differ, the pair is comparable, at least one cell evaluated, and (integer /
//! decimal pairs) some generated value is not representable in the other column's type or the scales
//! differ; (other pairs) the value classes or widths differ — i.e. a cast really happens.
//!
//! Deviations from DESIGN.md: lives in vf-mixed (not vf-core/vf-expr); comparability is decided by the
//! engine's planning verdict instead of calling `comparison_coercion` directly; nested-loop join is
//! reached through a disjunctive ON clause (there is no session option that turns an equi-join into a
//! nested-loop join); queries are built with the DataFrame API instead of SQL text so that literals have
//! exactly the right column's type.
//!
//! Findings (known_findings.json, cases under /verif/regressions/C47/c47, patches under /verif/fixes/C47-*.diff):
//!   * OPEN `unwrap-cast-timestamp-literal-truncation` — `CAST(ts_col AS finer) op finer_literal` → `ts_col op
//!     literal / ratio` (truncating): `ts_seconds = TIMESTAMP '1970-01-01 00:00:00.001'` is true (CLI-confirmed).
//!     `known_signature` keeps the run going behind it; the generator also emits `lits = false` cases so the
//!     affected pairs stay covered in projection / filter / join contexts, and the sweep removes only the
//!     offending literal values (`degrade`).
//!   * OPEN `dict-float-zero-sign` — the committed IN-list repair normalises plain floats only; with a
//!     Dictionary(_, Float) operand `-0.0` / `+0.0` still differ in IN lists (`0 IN (dict -0.0, dict -0.0)` false,
//!     pairwise `=` true). Repair: fixes/C47-float-zero-normalization-covers-dictionaries.diff (verified under
//!     mutrun together with the others, probes/log-fixes2.txt).
//!   * FIXED in /repo (cases are plain regressions now): `inlist-float-zero-sign` (InListExpr compared float
//!     bit patterns, `-0.0 IN (0.0, 5, 6, 7)` false vs `-0.0 = 0.0` true), `unwrap-cast-negative-scale`
//!     (`10_i128.pow(scale as u32)` with a negative Decimal128 scale), `unwrap-cast-int32-date64`
//!     (Date64 literal unwrapped to raw milliseconds against an Int32 column).
//!   * OUT OF SCOPE (auditor): `Display for ScalarValue::Date64(i64::MIN)` panics while the optimizer names an
//!     expression; such literals are not used in the literal contexts (label `skipped-undisplayable-literal`).
//! `VF_MIXED_IGNORE_KNOWN=1` lifts the exclusions (used to verify the repairs: probes/log-all-run1.txt — the five
//! regression cases pass with the repairs; the un-excluded quick run then still failed for dictionary-encoded
//! floats, which led to the sixth patch — and probes/log-fixes2.txt for the final round).
//!
//! Sensitivity probes (one env-gated patch probes/probes.diff, applied with mutrun, `VF_MUT=<p> vf-mixed c47
//! quick`; log in probes/log-all-run1.txt) — all caught:
//!   p1 `numerical_coercion(UInt64, signed int)` → Float64 instead of Decimal128(20,0) (precision loss at 2^63):
//!      VIOLATION in the exhaustive sweep, 4 pairs (`i64 2^63-1 = u64 2^63` true vs exact false);
//!   p2 `get_wider_decimal_type` (Decimal128) takes min(s1, s2) instead of max (fraction truncated):
//!      VIOLATION at generated case 7 (`i8 9 = 9.35…` d128(38,37) true, exact oracle);
//!   p3 `string_numeric_coercion(Utf8, numeric)` → the string type (numeric/string comparison depends on the
//!      operand order): VIOLATION at generated case 11 (metamorphic: `a < b` false, `b > a` true).
//! Budgets: quick 1600 generated cases + sweep 1024 pairs × 64 cells (25–60 s on the loaded 16-core box);
//! thorough 60 000 cases + sweep × 256 cells (measured 11 min, 55 030 evaluations, 40 321 non-trivial).
use crate::types::*;
use arrow::array::{Array, ArrayRef, BooleanArray, Int32Array};
use arrow::datatypes::{DataType, Field, Schema};
use arrow::record_batch::RecordBatch;
use datafusion::common::ScalarValue;
use datafusion::logical_expr::{Expr, JoinType, Operator, binary_expr, col, lit};
use datafusion::prelude::{DataFrame, SessionContext};
use proptest::prelude::*;
use serde::{Deserialize, Serialize};
use serde_json::json;
use std::collections::{BTreeMap, BTreeSet};
use std::sync::Arc;
use std::time::Duration;
use vf_df::{ErrClass, Variant};
use vf_kit::engine::*;

pub struct C47;

#[derive(Clone, Debug, Serialize, Deserialize)]
pub struct Case {
    pub l: Ty,
    pub r: Ty,
    pub a: Vec<Val>,
    pub b: Vec<Val>,
    /// target_partitions (1 or 3)
    pub tp: u8,
    /// run the literal contexts (column-vs-literal and IN lists); false = projection, filter and joins only
    #[serde(default = "yes")]
    pub lits: bool,
}

fn yes() -> bool {
    true
}

const OPS: [Operator; 6] = [Operator::Eq, Operator::NotEq, Operator::Lt, Operator::LtEq, Operator::Gt, Operator::GtEq];

fn mirror(op: Operator) -> Operator {
    match op {
        Operator::Lt => Operator::Gt,
        Operator::LtEq => Operator::GtEq,
        Operator::Gt => Operator::Lt,
        Operator::GtEq => Operator::LtEq,
        o => o,
    }
}

fn op_name(op: Operator) -> &'static str {
    match op {
        Operator::Eq => "=",
        Operator::NotEq => "<>",
        Operator::Lt => "<",
        Operator::LtEq => "<=",
        Operator::Gt => ">",
        _ => ">=",
    }
}

fn expect_ord(op: Operator, o: std::cmp::Ordering) -> bool {
    use std::cmp::Ordering::*;
    match op {
        Operator::Eq => o == Equal,
        Operator::NotEq => o != Equal,
        Operator::Lt => o == Less,
        Operator::LtEq => o != Greater,
        Operator::Gt => o == Greater,
        _ => o != Less,
    }
}

// ---------------------------------------------------------------------------------------------
// running a DataFrame stage by stage

#[derive(Clone, Copy, Debug, PartialEq, Eq)]
enum Stage {
    Build,
    Optimize,
    Physical,
    Execute,
}

#[derive(Clone, Debug)]
struct QErr {
    stage: Stage,
    class: ErrClass,
    message: String,
}

impl QErr {
    /// the engine refuses to compare the two types (as opposed to failing on a value)
    fn is_rejection(&self) -> bool {
        match self.stage {
            Stage::Build | Stage::Optimize => self.class.is_clean_rejection(),
            Stage::Physical => self.class.is_clean_rejection() || matches!(self.class, ErrClass::ArrowCast | ErrClass::ArrowOther | ErrClass::Execution),
            Stage::Execute => false,
        }
    }
}

fn qerr(stage: Stage, e: &datafusion::error::DataFusionError) -> QErr {
    QErr { stage, class: vf_df::classify_error(e), message: truncate(&e.strip_backtrace(), 400) }
}

struct QOut {
    batches: Vec<RecordBatch>,
    plan: String,
}

async fn run_df(ctx: &SessionContext, df: Result<DataFrame, datafusion::error::DataFusionError>, want_plan: bool) -> Result<QOut, QErr> {
    let df = df.map_err(|e| qerr(Stage::Build, &e))?;
    let (state, plan) = df.into_parts();
    let optimized = state.optimize(&plan).map_err(|e| qerr(Stage::Optimize, &e))?;
    let physical = state.query_planner().create_physical_plan(&optimized, &state).await.map_err(|e| qerr(Stage::Physical, &e))?;
    let text = if want_plan { datafusion::physical_plan::displayable(physical.as_ref()).indent(false).to_string() } else { String::new() };
    let batches = datafusion::physical_plan::collect(physical, ctx.task_ctx()).await.map_err(|e| qerr(Stage::Execute, &e))?;
    Ok(QOut { batches, plan: text })
}

fn bool_at(a: &ArrayRef, i: usize) -> Result<Option<bool>, String> {
    let b = a.as_any().downcast_ref::<BooleanArray>().ok_or_else(|| format!("comparison result has type {}", a.data_type()))?;
    Ok(if b.is_null(i) { None } else { Some(b.value(i)) })
}

fn i32_at(a: &ArrayRef, i: usize) -> Result<usize, String> {
    let b = a.as_any().downcast_ref::<Int32Array>().ok_or_else(|| format!("id column has type {}", a.data_type()))?;
    if b.is_null(i) {
        return Err("NULL id".into());
    }
    Ok(b.value(i) as usize)
}

// ---------------------------------------------------------------------------------------------
// tables

struct Cols<'c> {
    case: &'c Case,
}

impl Cols<'_> {
    /// one-column table `(ia, a)` over the chosen indices of `case.a`
    fn left(&self, idx: &[usize]) -> Result<RecordBatch, String> {
        let vals: Vec<&Val> = idx.iter().map(|i| &self.case.a[*i]).collect();
        let ids = Int32Array::from(idx.iter().map(|i| *i as i32).collect::<Vec<_>>());
        let arr = build_array(&self.case.l, &vals)?;
        let schema = Arc::new(Schema::new(vec![Field::new("ia", DataType::Int32, false), Field::new("a", self.case.l.arrow(), true)]));
        RecordBatch::try_new(schema, vec![Arc::new(ids), arr]).map_err(|e| e.to_string())
    }
    fn right(&self, idx: &[usize]) -> Result<RecordBatch, String> {
        let vals: Vec<&Val> = idx.iter().map(|i| &self.case.b[*i]).collect();
        let ids = Int32Array::from(idx.iter().map(|i| *i as i32).collect::<Vec<_>>());
        let arr = build_array(&self.case.r, &vals)?;
        let schema = Arc::new(Schema::new(vec![Field::new("ib", DataType::Int32, false), Field::new("b", self.case.r.arrow(), true)]));
        RecordBatch::try_new(schema, vec![Arc::new(ids), arr]).map_err(|e| e.to_string())
    }
    /// cross product `(ia, ib, a, b)`
    fn cross(&self, ai: &[usize], bi: &[usize]) -> Result<RecordBatch, String> {
        let mut ia = vec![];
        let mut ib = vec![];
        let mut av: Vec<&Val> = vec![];
        let mut bv: Vec<&Val> = vec![];
        for i in ai {
            for j in bi {
                ia.push(*i as i32);
                ib.push(*j as i32);
                av.push(&self.case.a[*i]);
                bv.push(&self.case.b[*j]);
            }
        }
        let schema = Arc::new(Schema::new(vec![
            Field::new("ia", DataType::Int32, false),
            Field::new("ib", DataType::Int32, false),
            Field::new("a", self.case.l.arrow(), true),
            Field::new("b", self.case.r.arrow(), true),
        ]));
        RecordBatch::try_new(schema, vec![Arc::new(Int32Array::from(ia)), Arc::new(Int32Array::from(ib)), build_array(&self.case.l, &av)?, build_array(&self.case.r, &bv)?]).map_err(|e| e.to_string())
    }
}

/// the 12 projection expressions: for every operator `x op y` then `y op' x`
fn twelve(x: &Expr, y: &Expr) -> Vec<Expr> {
    let mut v = vec![];
    for (k, op) in OPS.iter().enumerate() {
        v.push(binary_expr(x.clone(), *op, y.clone()).alias(format!("f{k}")));
        v.push(binary_expr(y.clone(), mirror(*op), x.clone()).alias(format!("m{k}")));
    }
    v
}

type Cell = [Option<bool>; 12];

#[derive(Clone, Debug)]
enum CellState {
    Ok(Cell),
    Error(String),
    Unknown,
}

/// What one case established (shared by `run` and the exhaustive sub-run).
pub struct Eval {
    pub result: CaseResult,
    pub comparable: bool,
    pub cells_ok: u64,
    pub cells_err: u64,
    pub cells_unknown: u64,
    pub queries: u64,
}

struct Runner<'c> {
    case: &'c Case,
    cols: Cols<'c>,
    ctx: SessionContext,
    queries: u64,
    bisect_budget: i64,
}

enum Fatal {
    Harness(String),
    Internal(String),
}

impl<'c> Runner<'c> {
    /// P over `ai × bi`
    async fn project(&mut self, ai: &[usize], bi: &[usize]) -> Result<Result<BTreeMap<(usize, usize), Cell>, QErr>, Fatal> {
        let batch = self.cols.cross(ai, bi).map_err(Fatal::Harness)?;
        let mut exprs = vec![col("ia"), col("ib")];
        exprs.extend(twelve(&col("a"), &col("b")));
        self.queries += 1;
        let df = self.ctx.read_batch(batch).and_then(|d| d.select(exprs));
        match run_df(&self.ctx, df, false).await {
            Err(e) => Ok(Err(e)),
            Ok(out) => {
                let mut m = BTreeMap::new();
                for b in &out.batches {
                    for row in 0..b.num_rows() {
                        let i = i32_at(b.column(0), row).map_err(Fatal::Harness)?;
                        let j = i32_at(b.column(1), row).map_err(Fatal::Harness)?;
                        let mut c: Cell = [None; 12];
                        for (k, slot) in c.iter_mut().enumerate() {
                            *slot = bool_at(b.column(2 + k), row).map_err(Fatal::Harness)?;
                        }
                        m.insert((i, j), c);
                    }
                }
                if m.len() != ai.len() * bi.len() {
                    return Err(Fatal::Harness(format!("projection returned {} rows for {} input rows", m.len(), ai.len() * bi.len())));
                }
                Ok(Ok(m))
            }
        }
    }

    /// does the value evaluate (all 12 comparisons) against a NULL of the other column's type?
    async fn probe_alone(&mut self, i: Option<usize>, j: Option<usize>) -> Result<bool, Fatal> {
        let null = Val::Null;
        let av = i.map(|i| &self.case.a[i]).unwrap_or(&null);
        let bv = j.map(|j| &self.case.b[j]).unwrap_or(&null);
        let schema = Arc::new(Schema::new(vec![Field::new("a", self.case.l.arrow(), true), Field::new("b", self.case.r.arrow(), true)]));
        let batch = RecordBatch::try_new(schema, vec![build_array(&self.case.l, &[av]).map_err(Fatal::Harness)?, build_array(&self.case.r, &[bv]).map_err(Fatal::Harness)?]).map_err(|e| Fatal::Harness(e.to_string()))?;
        self.queries += 1;
        let df = self.ctx.read_batch(batch).and_then(|d| d.select(twelve(&col("a"), &col("b"))));
        match run_df(&self.ctx, df, false).await {
            Ok(_) => Ok(true),
            Err(e) if e.class == ErrClass::Internal => Err(Fatal::Internal(e.message)),
            Err(_) => Ok(false),
        }
    }

    /// locate erroring cells by bisection (first over `a` values, then over `b` values)
    fn bisect<'s>(&'s mut self, ai: Vec<usize>, bi: Vec<usize>, grid: &'s mut BTreeMap<(usize, usize), CellState>) -> std::pin::Pin<Box<dyn std::future::Future<Output = Result<(), Fatal>> + 's>> {
        Box::pin(async move {
            if self.bisect_budget <= 0 {
                return Ok(()); // remaining cells stay Unknown
            }
            self.bisect_budget -= 1;
            match self.project(&ai, &bi).await? {
                Ok(m) => {
                    for (k, c) in m {
                        grid.insert(k, CellState::Ok(c));
                    }
                }
                Err(e) => {
                    if e.class == ErrClass::Internal {
                        return Err(Fatal::Internal(e.message));
                    }
                    if ai.len() > 1 {
                        let (x, y) = ai.split_at(ai.len() / 2);
                        self.bisect(x.to_vec(), bi.clone(), grid).await?;
                        self.bisect(y.to_vec(), bi, grid).await?;
                    } else if bi.len() > 1 {
                        let (x, y) = bi.split_at(bi.len() / 2);
                        self.bisect(ai.clone(), x.to_vec(), grid).await?;
                        self.bisect(ai, y.to_vec(), grid).await?;
                    } else {
                        grid.insert((ai[0], bi[0]), CellState::Error(e.message));
                    }
                }
            }
            Ok(())
        })
    }
}

fn literal_of(ty: &Ty, v: &Val) -> Result<ScalarValue, String> {
    let arr = build_array(ty, &[v])?;
    ScalarValue::try_from_array(&arr, 0).map_err(|e| e.to_string())
}

fn describe(case: &Case, i: usize, j: usize) -> String {
    format!("a[{i}]={} ({}) , b[{j}]={} ({})", show_val(&case.l.base, &case.a[i]), case.l.label(), show_val(&case.r.base, &case.b[j]), case.r.label())
}

fn representable(v: &Val, from: &Base, to: &Base) -> bool {
    // exact types only: is the rational value of `v` a value of `to`?
    let Some(r) = rat_of(from, v) else { return true };
    let Some((lo, hi)) = to.n_range() else { return true };
    let t = to.scale();
    let us = r.u.to_string();
    // scale to `t`: exact iff the text comparison of floor equals the value
    let digits = us.trim_start_matches('-');
    if t >= r.s {
        // multiply by 10^(t-s): compare against the range through texts
        let mut scaled = digits.trim_start_matches('0').to_string();
        if !scaled.is_empty() {
            for _ in 0..(t - r.s) {
                scaled.push('0');
            }
        } else {
            scaled.push('0');
        }
        let text = if us.starts_with('-') && scaled != "0" { format!("-{scaled}") } else { scaled };
        cmp_exact(&text, 0, &lo.to_string(), 0) != std::cmp::Ordering::Less && cmp_exact(&text, 0, &hi.to_string(), 0) != std::cmp::Ordering::Greater
    } else {
        // needs (s-t) trailing zeros
        let z = (r.s - t) as usize;
        let trimmed = digits.trim_start_matches('0');
        if trimmed.is_empty() {
            return true;
        }
        if trimmed.len() <= z || !trimmed[trimmed.len() - z..].bytes().all(|b| b == b'0') {
            return false;
        }
        let cut = &trimmed[..trimmed.len() - z];
        let text = if us.starts_with('-') { format!("-{cut}") } else { cut.to_string() };
        cmp_exact(&text, 0, &lo.to_string(), 0) != std::cmp::Ordering::Less && cmp_exact(&text, 0, &hi.to_string(), 0) != std::cmp::Ordering::Greater
    }
}

fn or3(vals: impl Iterator<Item = Option<bool>>) -> Option<bool> {
    let mut any_null = false;
    for v in vals {
        match v {
            Some(true) => return Some(true),
            None => any_null = true,
            Some(false) => {}
        }
    }
    if any_null { None } else { Some(false) }
}

fn join_op(plan: &str) -> &'static str {
    if plan.contains("SortMergeJoin") {
        "SortMergeJoinExec"
    } else if plan.contains("NestedLoopJoinExec") {
        "NestedLoopJoinExec"
    } else if plan.contains("HashJoinExec: mode=Partitioned") {
        "HashJoinExec/Partitioned"
    } else if plan.contains("HashJoinExec") {
        "HashJoinExec/CollectLeft"
    } else if plan.contains("CrossJoinExec") {
        "CrossJoinExec"
    } else {
        "other-join"
    }
}

/// debugging aid: `VF_MIXED_BT=1` prints a backtrace for every panic (chained in front of the engine's hook)
pub fn maybe_backtrace_hook() {
    static ONCE: std::sync::Once = std::sync::Once::new();
    if std::env::var("VF_MIXED_BT").is_ok() {
        ONCE.call_once(|| {
            let prev = std::panic::take_hook();
            std::panic::set_hook(Box::new(move |info| {
                eprintln!("panic: {info}\n{}", std::backtrace::Backtrace::force_capture());
                prev(info);
            }));
        });
    }
}

pub fn evaluate(case: &Case) -> Eval {
    maybe_backtrace_hook();
    let mut ev = Eval { result: CaseResult::pass(), comparable: false, cells_ok: 0, cells_err: 0, cells_unknown: 0, queries: 0 };
    if case.a.is_empty() || case.b.is_empty() || case.a.len() > 40 || case.b.len() > 40 || case.a.iter().any(|v| !conforms(&case.l.base, v)) || case.b.iter().any(|v| !conforms(&case.r.base, v)) {
        ev.result = CaseResult::discard("malformed case (value outside its column type)");
        return ev;
    }
    let variant = Variant { target_partitions: case.tp.max(1) as usize, ..Variant::default() };
    let rt = match vf_df::build_runtime(&variant) {
        Ok(rt) => rt,
        Err(e) => {
            ev.result = CaseResult::inconclusive(format!("runtime: {e}"));
            return ev;
        }
    };
    let out = rt.block_on(async { tokio::time::timeout(Duration::from_secs(60), evaluate_async(case, &variant, &mut ev)).await });
    rt.shutdown_timeout(Duration::from_millis(200));
    match out {
        Err(_) => ev.result = CaseResult::inconclusive("timeout"),
        Ok(r) => ev.result = r,
    }
    let pair = format!("pair={}/{}", case.l.label(), case.r.label());
    let classes = format!("classes={}/{}", case.l.base.class(), case.r.base.class());
    ev.result = std::mem::replace(&mut ev.result, CaseResult::pass()).label(pair).label(classes);
    ev
}

async fn evaluate_async(case: &Case, variant: &Variant, ev: &mut Eval) -> CaseResult {
    let ctx = match vf_df::build_context(variant, |b| b) {
        Ok(c) => c,
        Err(e) => return CaseResult::inconclusive(format!("context: {e}")),
    };
    let mut r = Runner { case, cols: Cols { case }, ctx, queries: 0, bisect_budget: 40 };
    let res = body(&mut r, variant, ev).await;
    ev.queries = r.queries;
    match res {
        Ok(c) => c,
        Err(Fatal::Harness(m)) => panic!("harness: {m}"),
        Err(Fatal::Internal(m)) => CaseResult::inconclusive(format!("engine internal error: {m}")).label("internal-error"),
    }
}

async fn body(r: &mut Runner<'_>, variant: &Variant, ev: &mut Eval) -> Result<CaseResult, Fatal> {
    let case = r.case;
    let na = case.a.len();
    let nb = case.b.len();
    let all_a: Vec<usize> = (0..na).collect();
    let all_b: Vec<usize> = (0..nb).collect();
    let mut labels: Vec<String> = vec![];

    // ---- P: projection over the cross product
    let mut grid: BTreeMap<(usize, usize), CellState> = BTreeMap::new();
    match r.project(&all_a, &all_b).await? {
        Ok(m) => {
            for (k, c) in m {
                grid.insert(k, CellState::Ok(c));
            }
        }
        Err(e) if e.stage != Stage::Execute => {
            if e.class == ErrClass::Internal {
                return Err(Fatal::Internal(e.message));
            }
            if !e.is_rejection() {
                return Ok(CaseResult::inconclusive(format!("planning failed with a {:?} error: {}", e.class, e.message)).label("odd-planning-error"));
            }
            // not comparable — confirm that both orientations are refused
            let mut verdicts = vec![];
            for flip in [false, true] {
                let batch = r.cols.cross(&all_a[..1], &all_b[..1]).map_err(Fatal::Harness)?;
                let ex = if flip { col("b").eq(col("a")) } else { col("a").eq(col("b")) };
                r.queries += 1;
                let df = r.ctx.read_batch(batch).and_then(|d| d.select(vec![ex]));
                verdicts.push(match run_df(&r.ctx, df, false).await {
                    Ok(_) => true,
                    Err(e2) => e2.stage == Stage::Execute,
                });
            }
            let mut res = CaseResult::discard(format!("not comparable ({:?} at {:?})", e.class, e.stage)).label("not-comparable");
            if verdicts[0] != verdicts[1] {
                res = res.label("asymmetric-comparability");
            }
            return Ok(res);
        }
        Err(e) => {
            if e.class == ErrClass::Internal {
                return Err(Fatal::Internal(e.message));
            }
            labels.push("exec-error-in-batch".into());
            labels.push(format!("exec-error-class={:?}", e.class));
            for i in &all_a {
                for j in &all_b {
                    grid.insert((*i, *j), CellState::Unknown);
                }
            }
            // Cast errors are (almost always) a property of one value: probe every value against a NULL
            // partner, then evaluate the grid of the values that survive alone; bisect what still fails.
            // (Only cells of successfully executed queries are ever used, so this is a search heuristic.)
            let mut good_a = vec![];
            for i in &all_a {
                if matches!(case.a[*i], Val::Null) || r.probe_alone(Some(*i), None).await? {
                    good_a.push(*i);
                }
            }
            let mut good_b = vec![];
            for j in &all_b {
                if matches!(case.b[*j], Val::Null) || r.probe_alone(None, Some(*j)).await? {
                    good_b.push(*j);
                }
            }
            for i in &all_a {
                for j in &all_b {
                    if !good_a.contains(i) || !good_b.contains(j) {
                        grid.insert((*i, *j), CellState::Error("a value of the cell fails on its own".into()));
                    }
                }
            }
            if !good_a.is_empty() && !good_b.is_empty() {
                r.bisect(good_a, good_b, &mut grid).await?;
            }
        }
    }
    ev.comparable = true;

    // ---- oracle (1) metamorphic + (2) exact reference on P
    let exact = case.l.base.is_exact() && case.r.base.is_exact();
    for ((i, j), st) in &grid {
        match st {
            CellState::Ok(c) => {
                ev.cells_ok += 1;
                for (k, op) in OPS.iter().enumerate() {
                    if c[2 * k] != c[2 * k + 1] {
                        return Ok(CaseResult::violation(format!(
                            "projection: a {} b = {:?} but b {} a = {:?} for {}",
                            op_name(*op),
                            c[2 * k],
                            op_name(mirror(*op)),
                            c[2 * k + 1],
                            describe(case, *i, *j)
                        ))
                        .label("ctx=projection"));
                    }
                }
                let null_in = matches!(case.a[*i], Val::Null) || matches!(case.b[*j], Val::Null);
                if null_in {
                    if let Some(k) = c.iter().position(|x| x.is_some()) {
                        return Ok(CaseResult::violation(format!("projection: comparison #{k} with a NULL operand gave {:?} for {}", c[k], describe(case, *i, *j))).label("ctx=projection"));
                    }
                } else if exact {
                    let (Val::N(x), Val::N(y)) = (&case.a[*i], &case.b[*j]) else { continue };
                    let ord = cmp_exact(x, case.l.base.scale(), y, case.r.base.scale());
                    for (k, op) in OPS.iter().enumerate() {
                        let want = Some(expect_ord(*op, ord));
                        if c[2 * k] != want {
                            return Ok(CaseResult::violation(format!(
                                "projection: a {} b = {:?}, the exact comparison gives {:?} for {}",
                                op_name(*op),
                                c[2 * k],
                                want,
                                describe(case, *i, *j)
                            ))
                            .label("ctx=projection")
                            .label("oracle=exact"));
                        }
                    }
                }
            }
            CellState::Error(_) => ev.cells_err += 1,
            CellState::Unknown => ev.cells_unknown += 1,
        }
    }
    if ev.cells_err > 0 {
        labels.push("cells-with-exec-error".into());
    }
    if ev.cells_unknown > 0 {
        labels.push("cells-unlocated".into());
    }

    // ---- largest error-free sub-grid (greedy)
    let mut ai: Vec<usize> = all_a.clone();
    let mut bi: Vec<usize> = all_b.clone();
    loop {
        let bad = |i: usize, j: usize| !matches!(grid.get(&(i, j)), Some(CellState::Ok(_)));
        let mut worst: Option<(usize, bool, usize)> = None; // (count, is_b, index)
        for i in &ai {
            let n = bi.iter().filter(|j| bad(*i, **j)).count();
            if n > 0 && worst.map(|w| n > w.0).unwrap_or(true) {
                worst = Some((n, false, *i));
            }
        }
        for j in &bi {
            let n = ai.iter().filter(|i| bad(**i, *j)).count();
            if n > 0 && worst.map(|w| n > w.0).unwrap_or(true) {
                worst = Some((n, true, *j));
            }
        }
        match worst {
            None => break,
            Some((_, false, i)) => ai.retain(|x| *x != i),
            Some((_, true, j)) => bi.retain(|x| *x != j),
        }
    }
    let cell = |i: usize, j: usize| -> Cell {
        match grid.get(&(i, j)) {
            Some(CellState::Ok(c)) => *c,
            _ => [None; 12],
        }
    };

    if !ai.is_empty() && !bi.is_empty() {
        labels.push("contexts-run".into());
        // ---- F: filters over the cross product
        let cross = r.cols.cross(&ai, &bi).map_err(Fatal::Harness)?;
        for (k, op) in OPS.iter().enumerate() {
            for flip in [false, true] {
                let pred = if flip { binary_expr(col("b"), mirror(*op), col("a")) } else { binary_expr(col("a"), *op, col("b")) };
                r.queries += 1;
                let df = r.ctx.read_batch(cross.clone()).and_then(|d| d.filter(pred)).and_then(|d| d.select(vec![col("ia"), col("ib")]));
                match run_df(&r.ctx, df, false).await {
                    Err(e) => {
                        if e.class == ErrClass::Internal {
                            return Err(Fatal::Internal(e.message));
                        }
                        labels.push("ctx-error:filter".into());
                    }
                    Ok(out) => {
                        let mut got = BTreeSet::new();
                        for b in &out.batches {
                            for row in 0..b.num_rows() {
                                got.insert((i32_at(b.column(0), row).map_err(Fatal::Harness)?, i32_at(b.column(1), row).map_err(Fatal::Harness)?));
                            }
                        }
                        let mut want = BTreeSet::new();
                        for i in &ai {
                            for j in &bi {
                                if cell(*i, *j)[2 * k] == Some(true) {
                                    want.insert((*i, *j));
                                }
                            }
                        }
                        if got != want {
                            let d: Vec<_> = got.symmetric_difference(&want).take(3).collect();
                            let (i, j) = *d[0];
                            return Ok(CaseResult::violation(format!(
                                "filter WHERE {} keeps {} rows, the projection of the same comparison is true for {} rows; first differing row: {} (projection value {:?}, kept by the filter: {})",
                                if flip { format!("b {} a", op_name(mirror(*op))) } else { format!("a {} b", op_name(*op)) },
                                got.len(),
                                want.len(),
                                describe(case, i, j),
                                cell(i, j)[2 * k],
                                got.contains(&(i, j))
                            ))
                            .label("ctx=filter"));
                        }
                    }
                }
            }
        }

        // ---- L: column vs literal
        let left = r.cols.left(&ai).map_err(Fatal::Harness)?;
        let mut lits: Vec<(usize, ScalarValue)> = vec![];
        if case.lits {
            for j in &bi {
                if undisplayable_literal(case, *j) {
                    labels.push("skipped-undisplayable-literal".into());
                    continue;
                }
                lits.push((*j, literal_of(&case.r, &case.b[*j]).map_err(Fatal::Harness)?));
            }
            labels.push("literal-contexts".into());
        }
        for (n, (j, sv)) in lits.iter().enumerate() {
            let mut exprs = vec![col("ia")];
            exprs.extend(twelve(&col("a"), &lit(sv.clone())));
            r.queries += 1;
            let df = r.ctx.read_batch(left.clone()).and_then(|d| d.select(exprs));
            match run_df(&r.ctx, df, false).await {
                Err(e) => {
                    if e.class == ErrClass::Internal {
                        return Err(Fatal::Internal(e.message));
                    }
                    labels.push("ctx-error:literal".into());
                }
                Ok(out) => {
                    for b in &out.batches {
                        for row in 0..b.num_rows() {
                            let i = i32_at(b.column(0), row).map_err(Fatal::Harness)?;
                            let want = cell(i, *j);
                            for k in 0..12 {
                                let got = bool_at(b.column(1 + k), row).map_err(Fatal::Harness)?;
                                if got != want[k] {
                                    let op = OPS[k / 2];
                                    let text = if k % 2 == 0 { format!("a {} {sv:?}", op_name(op)) } else { format!("{sv:?} {} a", op_name(mirror(op))) };
                                    return Ok(CaseResult::violation(format!(
                                        "column-vs-literal: {text} = {got:?} but the column-vs-column comparison of the same values gives {:?}; {}",
                                        want[k],
                                        describe(case, i, *j)
                                    ))
                                    .label("ctx=literal"));
                                }
                            }
                        }
                    }
                }
            }
            // one filter per literal, operators and orientations rotating
            let k = n % 6;
            let op = OPS[k];
            let flip = (n / 6) % 2 == 1;
            let pred = if flip { binary_expr(lit(sv.clone()), mirror(op), col("a")) } else { binary_expr(col("a"), op, lit(sv.clone())) };
            r.queries += 1;
            let df = r.ctx.read_batch(left.clone()).and_then(|d| d.filter(pred)).and_then(|d| d.select(vec![col("ia")]));
            match run_df(&r.ctx, df, false).await {
                Err(e) => {
                    if e.class == ErrClass::Internal {
                        return Err(Fatal::Internal(e.message));
                    }
                    labels.push("ctx-error:literal-filter".into());
                }
                Ok(out) => {
                    let mut got = BTreeSet::new();
                    for b in &out.batches {
                        for row in 0..b.num_rows() {
                            got.insert(i32_at(b.column(0), row).map_err(Fatal::Harness)?);
                        }
                    }
                    let want: BTreeSet<usize> = ai.iter().copied().filter(|i| cell(*i, *j)[2 * k] == Some(true)).collect();
                    if got != want {
                        let i = *got.symmetric_difference(&want).next().unwrap();
                        return Ok(CaseResult::violation(format!(
                            "filter with a literal: WHERE {} keeps rows {:?}, the column-vs-column comparison is true for rows {:?}; e.g. {}",
                            if flip { format!("{sv:?} {} a", op_name(mirror(op))) } else { format!("a {} {sv:?}", op_name(op)) },
                            got,
                            want,
                            describe(case, i, *j)
                        ))
                        .label("ctx=literal-filter"));
                    }
                }
            }
        }

        // ---- I: IN lists
        let mut sizes = vec![1usize, 2, 3, lits.len()];
        sizes.retain(|s| *s >= 1 && *s <= lits.len());
        sizes.dedup();
        for sz in sizes {
            for rotate in [0usize, 1] {
                // two different sub-lists per size: a prefix and a suffix
                if rotate == 1 && sz == lits.len() {
                    continue;
                }
                let list: Vec<&(usize, ScalarValue)> = if rotate == 0 { lits.iter().take(sz).collect() } else { lits.iter().skip(lits.len() - sz).collect() };
                let items: Vec<Expr> = list.iter().map(|(_, sv)| lit(sv.clone())).collect();
                let exprs = vec![col("ia"), col("a").in_list(items.clone(), false).alias("p"), col("a").in_list(items, true).alias("n")];
                r.queries += 1;
                let df = r.ctx.read_batch(left.clone()).and_then(|d| d.select(exprs));
                match run_df(&r.ctx, df, false).await {
                    Err(e) => {
                        if e.class == ErrClass::Internal {
                            return Err(Fatal::Internal(e.message));
                        }
                        labels.push("ctx-error:in-list".into());
                    }
                    Ok(out) => {
                        for b in &out.batches {
                            for row in 0..b.num_rows() {
                                let i = i32_at(b.column(0), row).map_err(Fatal::Harness)?;
                                let want = or3(list.iter().map(|(j, _)| cell(i, *j)[0]));
                                let got = bool_at(b.column(1), row).map_err(Fatal::Harness)?;
                                let gotn = bool_at(b.column(2), row).map_err(Fatal::Harness)?;
                                if got != want || gotn != want.map(|x| !x) {
                                    return Ok(CaseResult::violation(format!(
                                        "IN list: a IN ({}) = {got:?}, a NOT IN (..) = {gotn:?}; the pairwise `=` results give IN = {want:?} for a[{i}]={} ({} vs {}-typed literals)",
                                        list.iter().map(|(_, sv)| format!("{sv:?}")).collect::<Vec<_>>().join(", "),
                                        show_val(&case.l.base, &case.a[i]),
                                        case.l.label(),
                                        case.r.label()
                                    ))
                                    .label("ctx=in-list"));
                                }
                            }
                        }
                        labels.push(format!("in-list-size={}", if sz > 3 { "4+".to_string() } else { sz.to_string() }));
                    }
                }
            }
        }
        // a IN (b) over the cross product
        if case.lits {
            r.queries += 1;
            let df = r.ctx.read_batch(cross.clone()).and_then(|d| d.select(vec![col("ia"), col("ib"), col("a").in_list(vec![col("b")], false).alias("p")]));
            match run_df(&r.ctx, df, false).await {
                Err(e) => {
                    if e.class == ErrClass::Internal {
                        return Err(Fatal::Internal(e.message));
                    }
                    labels.push("ctx-error:in-column".into());
                }
                Ok(out) => {
                    for b in &out.batches {
                        for row in 0..b.num_rows() {
                            let i = i32_at(b.column(0), row).map_err(Fatal::Harness)?;
                            let j = i32_at(b.column(1), row).map_err(Fatal::Harness)?;
                            let got = bool_at(b.column(2), row).map_err(Fatal::Harness)?;
                            if got != cell(i, j)[0] {
                                return Ok(CaseResult::violation(format!("a IN (b) = {got:?} but a = b is {:?} for {}", cell(i, j)[0], describe(case, i, j))).label("ctx=in-column"));
                            }
                        }
                    }
                }
            }
        }

        // ---- J: equi-joins
        let right = r.cols.right(&bi).map_err(Fatal::Harness)?;
        let mut want = BTreeSet::new();
        for i in &ai {
            for j in &bi {
                if cell(*i, *j)[0] == Some(true) {
                    want.insert((*i, *j));
                }
            }
        }
        let mut join_cfgs: Vec<(&str, Vec<(String, String)>, bool)> = vec![
            ("hash", vec![], false),
            ("smj", vec![("datafusion.optimizer.prefer_hash_join".into(), "false".into())], false),
            ("nlj", vec![], true),
        ];
        if variant.target_partitions > 1 {
            join_cfgs.push((
                "hash-partitioned",
                vec![
                    ("datafusion.optimizer.hash_join_single_partition_threshold".into(), "0".into()),
                    ("datafusion.optimizer.hash_join_single_partition_threshold_rows".into(), "0".into()),
                ],
                false,
            ));
        }
        for (name, opts, disj) in join_cfgs {
            let v2 = Variant { options: opts, ..variant.clone() };
            let jctx = match vf_df::build_context(&v2, |b| b) {
                Ok(c) => c,
                Err(e) => return Err(Fatal::Harness(format!("join context: {e}"))),
            };
            for flip in [false, true] {
                let mut on = if flip { col("b").eq(col("a")) } else { col("a").eq(col("b")) };
                if disj {
                    on = on.or(col("ia").lt(lit(0i32)).and(col("ib").lt(lit(0i32))));
                }
                r.queries += 1;
                let df = match (jctx.read_batch(left.clone()), jctx.read_batch(right.clone())) {
                    (Ok(l), Ok(rr)) => l.join_on(rr, JoinType::Inner, vec![on]).and_then(|d| d.select(vec![col("ia"), col("ib")])),
                    (Err(e), _) | (_, Err(e)) => Err(e),
                };
                match run_df(&jctx, df, true).await {
                    Err(e) => {
                        if e.class == ErrClass::Internal {
                            return Err(Fatal::Internal(e.message));
                        }
                        labels.push(format!("ctx-error:join-{name}"));
                    }
                    Ok(out) => {
                        let opn = join_op(&out.plan);
                        labels.push(format!("join={opn}"));
                        let mut got = BTreeSet::new();
                        let mut n = 0usize;
                        for b in &out.batches {
                            for row in 0..b.num_rows() {
                                n += 1;
                                got.insert((i32_at(b.column(0), row).map_err(Fatal::Harness)?, i32_at(b.column(1), row).map_err(Fatal::Harness)?));
                            }
                        }
                        if got != want || n != got.len() {
                            let d: Vec<_> = got.symmetric_difference(&want).take(1).collect();
                            let eg = d.first().map(|(i, j)| format!("{} (pairwise a = b: {:?}, in join output: {})", describe(case, *i, *j), cell(*i, *j)[0], got.contains(&(*i, *j)))).unwrap_or_else(|| "duplicate output rows".into());
                            return Ok(CaseResult::violation(format!(
                                "equi-join ({opn}, ON {}) returns {n} rows / {} distinct pairs, pairwise `=` is true for {} pairs; e.g. {eg}\nplan:\n{}",
                                if flip { "b = a" } else { "a = b" },
                                got.len(),
                                want.len(),
                                out.plan
                            ))
                            .label(format!("ctx=join-{name}")));
                        }
                    }
                }
            }
        }
    } else {
        labels.push("no-error-free-subgrid".into());
    }

    // ---- non-trivial?
    let differ = case.l != case.r;
    let nt = differ
        && ev.cells_ok > 0
        && if exact {
            case.l.base.scale() != case.r.base.scale() || case.a.iter().any(|v| !representable(v, &case.l.base, &case.r.base)) || case.b.iter().any(|v| !representable(v, &case.r.base, &case.l.base))
        } else {
            case.l.base != case.r.base || case.l.dict != case.r.dict
        };
    labels.sort();
    labels.dedup();
    if exact {
        labels.push("oracle=exact+metamorphic".into());
    } else {
        labels.push("oracle=metamorphic".into());
    }
    if case.a.iter().chain(case.b.iter()).any(|v| matches!(v, Val::Null)) {
        labels.push("has-null".into());
    }
    if case.l.dict != Key::Plain || case.r.dict != Key::Plain {
        labels.push("dictionary".into());
    }
    labels.push(format!("tp={}", case.tp));
    Ok(CaseResult::pass().nontrivial(nt).labels(labels))
}

// ---------------------------------------------------------------------------------------------
// known findings

/// The one open finding `unwrap-cast-timestamp-literal-truncation` only concerns cases that run the literal
/// contexts; the generator also produces `lits = false` cases so the other contexts of those pairs stay covered.
pub fn known_signature(case: &Case) -> Option<String> {
    // `VF_MIXED_IGNORE_KNOWN=1`: run everything (used to verify candidate repairs under mutrun)
    if !case.lits || std::env::var("VF_MIXED_IGNORE_KNOWN").is_ok() {
        return None;
    }
    // (the findings `inlist-float-zero-sign`, `unwrap-cast-negative-scale` and `unwrap-cast-int32-date64` are
    // repaired in /repo; their cases are plain regressions now and nothing is excluded for them)
    // `unwrap-cast-timestamp-literal-truncation`: `CAST(ts_col AS finer unit) op finer_literal` is rewritten
    // to `ts_col op literal / ratio` with a truncating division.
    if let Some(ratio) = ts_ratio(&case.l.base, &case.r.base) {
        if case.b.iter().any(|v| matches!(v, Val::N(s) if s.parse::<i128>().map(|n| n % ratio != 0).unwrap_or(false))) {
            return Some("unwrap-cast-timestamp-literal-truncation".into());
        }
    }
    // `dict-float-zero-sign`: the zero normalisation of `=` / IN (`normalize_float_zero{,_scalar}`) skips
    // dictionary-encoded floats: with a Dictionary(_, Float) operand `-0.0` and `+0.0` stay different in IN
    // lists (and in `=` between dictionary operands) while the plain-float comparison treats them as equal.
    let dict_float = |t: &Ty| t.dict != Key::Plain && t.base.is_float();
    if dict_float(&case.l) || dict_float(&case.r) {
        let za: Vec<bool> = case.a.iter().filter_map(zero_sign).collect();
        let zb: Vec<bool> = case.b.iter().filter_map(zero_sign).collect();
        if za.iter().any(|x| zb.iter().any(|y| x != y)) {
            return Some("dict-float-zero-sign".into());
        }
    }
    None
}

/// sign of a zero value (Some(true) = negative zero), None for anything that is not a zero
fn zero_sign(v: &Val) -> Option<bool> {
    match v {
        Val::F(bits) => {
            let f = f64::from_bits(*bits);
            if f == 0.0 { Some(f.is_sign_negative()) } else { None }
        }
        Val::N(s) => {
            if s.trim_start_matches('-').bytes().all(|b| b == b'0') { Some(false) } else { None }
        }
        Val::S(s) => match s.trim().parse::<f64>() {
            Ok(f) if f == 0.0 => Some(f.is_sign_negative()),
            _ => None,
        },
        Val::Null => None,
    }
}

/// A `Date64(i64::MIN)` literal cannot be rendered (`Display for ScalarValue` panics while the optimizer names
/// an expression) — judged out of scope for C47: such literals are simply not used in the literal contexts.
fn undisplayable_literal(case: &Case, j: usize) -> bool {
    let is_min = matches!(&case.b[j], Val::N(s) if s == "-9223372036854775808");
    is_min && (case.r.base == Base::Date64 || (case.l.base == Base::Date64 && case.r.base == Base::I64))
}

fn unit_scale(u: Unit) -> i128 {
    match u {
        Unit::S => 1,
        Unit::Ms => 1_000,
        Unit::Us => 1_000_000,
        Unit::Ns => 1_000_000_000,
    }
}

/// how many units of the literal type `r` make one unit of the timestamp column type `l` (None when
/// `r` is not finer than `l`)
fn ts_ratio(l: &Base, r: &Base) -> Option<i128> {
    let Base::Ts(ul, _) = l else { return None };
    let fine = match r {
        Base::Ts(ur, _) => unit_scale(*ur),
        Base::Date64 => 1_000,
        _ => return None,
    };
    let coarse = unit_scale(*ul);
    if fine > coarse { Some(fine / coarse) } else { None }
}

/// The case with the values that trigger an open finding removed (or, failing that, without the
/// literal contexts) — used by the exhaustive sweep, which does not go through the engine's exclusion.
fn degrade(mut c: Case, open: &BTreeSet<String>, log: &mut Vec<String>) -> Case {
    for _ in 0..6 {
        let Some(sig) = known_signature(&c) else { return c };
        if !open.contains(&sig) {
            return c;
        }
        let name = format!("{}/{}", c.l.label(), c.r.label());
        let before = (c.a.len(), c.b.len());
        match sig.as_str() {
            "dict-float-zero-sign" => {
                c.a.retain(|v| zero_sign(v) != Some(true));
                c.b.retain(|v| zero_sign(v) != Some(true));
            }
            "unwrap-cast-timestamp-literal-truncation" => {
                let ratio = ts_ratio(&c.l.base, &c.r.base).unwrap_or(1);
                c.b.retain(|v| !matches!(v, Val::N(s) if s.parse::<i128>().map(|n| n % ratio != 0).unwrap_or(false)));
            }
            _ => {}
        }
        if (c.a.len(), c.b.len()) != before && !c.a.is_empty() && !c.b.is_empty() {
            log.push(format!("{name} ({sig}: offending values removed)"));
        } else {
            c.lits = false;
            log.push(format!("{name} ({sig}: no literal contexts)"));
        }
    }
    c
}

// ---------------------------------------------------------------------------------------------
// generator

fn val_strategy(ty: Ty, other: Ty) -> BoxedStrategy<Val> {
    let pool = pair_pool(&ty, &other);
    let from_pool = prop::sample::select(pool.clone());
    // the head of the pool holds the pair-specific boundaries
    let head: Vec<Val> = pool.iter().take(10).cloned().collect();
    let from_head = prop::sample::select(head);
    let random: BoxedStrategy<Val> = match ty.base {
        b if b.n_range().is_some() => {
            let (lo, hi) = b.n_range().unwrap();
            (any::<bool>(), prop::collection::vec(0u8..10, 1..78))
                .prop_map(move |(neg, ds)| {
                    let neg = neg && lo.is_negative();
                    let mut t: String = ds.iter().map(|d| (b'0' + d) as char).collect();
                    // too long for the type: drop trailing digits (monotone, shrink friendly)
                    loop {
                        if let Some(n) = parse_n(&t) {
                            let n = if neg { n.wrapping_neg() } else { n };
                            if n >= lo && n <= hi {
                                return Val::N(n.to_string());
                            }
                        }
                        t.pop();
                        if t.is_empty() {
                            return Val::N("0".into());
                        }
                    }
                })
                .boxed()
        }
        Base::F32 => prop_oneof![any::<f32>().prop_map(|f| Val::F((f as f64).to_bits())), (-100_000i32..100_000).prop_map(|i| Val::F(((i as f32 / 100.0) as f64).to_bits()))].boxed(),
        Base::F64 => prop_oneof![any::<f64>().prop_map(|f| Val::F(f.to_bits())), (-10_000_000i64..10_000_000).prop_map(|i| Val::F((i as f64 / 100.0).to_bits()))].boxed(),
        _ => prop_oneof![
            (-1000i64..1000).prop_map(|i| Val::S(i.to_string())),
            (-100_000i64..100_000).prop_map(|i| Val::S(format!("{}.{:02}", i / 100, (i % 100).abs()))),
            "[0-9a-zA-Z .+-]{0,6}".prop_map(Val::S),
            (0i64..20000).prop_map(|d| {
                let date = chrono_free_date(d);
                Val::S(date)
            }),
        ]
        .boxed(),
    };
    prop_oneof![4 => from_head, 3 => from_pool, 2 => random, 1 => Just(Val::Null)].boxed()
}

/// `yyyy-mm-dd` of a day number since 1970-01-01 (civil-from-days, no chrono dependency)
fn chrono_free_date(days: i64) -> String {
    let z = days + 719_468;
    let era = z.div_euclid(146_097);
    let doe = z.rem_euclid(146_097);
    let yoe = (doe - doe / 1460 + doe / 36_524 - doe / 146_096) / 365;
    let y = yoe + era * 400;
    let doy = doe - (365 * yoe + yoe / 4 - yoe / 100);
    let mp = (5 * doy + 2) / 153;
    let d = doy - (153 * mp + 2) / 5 + 1;
    let m = if mp < 10 { mp + 3 } else { mp - 9 };
    let y = if m <= 2 { y + 1 } else { y };
    format!("{y:04}-{m:02}-{d:02}")
}

fn type_pair_strategy() -> BoxedStrategy<(Ty, Ty)> {
    let types = all_types();
    let n = types.len();
    let exact: Vec<Ty> = types.iter().copied().filter(|t| t.base.is_exact()).collect();
    let numeric: Vec<Ty> = types.iter().copied().filter(|t| t.base.is_exact() || t.base.is_float()).collect();
    let t2 = types.clone();
    let any_pair = (any::<u16>(), any::<u16>()).prop_map(move |(x, y)| (t2[pick_index(x, n)], t2[pick_index(y, n)]));
    let ne = exact.len();
    let exact_pair = (any::<u16>(), any::<u16>()).prop_map(move |(x, y)| (exact[pick_index(x, ne)], exact[pick_index(y, ne)]));
    let nn = numeric.len();
    let numeric_pair = (any::<u16>(), any::<u16>()).prop_map(move |(x, y)| (numeric[pick_index(x, nn)], numeric[pick_index(y, nn)]));
    prop_oneof![5 => any_pair, 3 => exact_pair, 2 => numeric_pair].boxed()
}

impl Property for C47 {
    type Case = Case;
    fn id(&self) -> &'static str {
        "C47"
    }
    fn sub(&self) -> &'static str {
        "c47"
    }
    fn strategy(&self, tier: Tier) -> BoxedStrategy<Case> {
        let max = tier.pick(6usize, 9usize);
        type_pair_strategy()
            .prop_flat_map(move |(l, r)| {
                (Just(l), Just(r), prop::collection::vec(val_strategy(l, r), 1..=max), prop::collection::vec(val_strategy(r, l), 1..=max), prop::bool::weighted(0.3), prop::bool::weighted(0.85))
            })
            .prop_map(|(l, r, a, b, multi, lits)| Case { l, r, a, b, tp: if multi { 3 } else { 1 }, lits })
            .boxed()
    }
    fn budget(&self, tier: Tier) -> Budget {
        Budget::new(tier.pick(1_600, 60_000), tier.pick(8, 16)).min_nontrivial(tier.pick(400, 10_000)).discard_cap(0.6).case_timeout(150).shrink(300, 60)
    }
    fn rule(&self) -> String {
        "ordered pair of column types from a 32-type matrix (ints, floats, Decimal128/256 with several scales, dates, timestamps, strings, dictionary forms) x <=6 values per side from pair-specific \
         boundary pools (own and the other type's MIN/MAX +-1 unit, 2^24/2^53/2^63/2^64, scale edges, -0.0, NaN, timestamp unit overflow points, awkward texts) and random in-range values; all 6 operators \
         in projection, filter, column-vs-literal, IN list and equi-join (hash CollectLeft/Partitioned, sort-merge, nested loop) contexts; non-trivial = the types differ, the engine compares them, at least \
         one cell evaluated without error, and a cast really matters (exact pairs: different scale or a value not representable in the other type); distinct by case JSON. The `exhaustive_*` keys come \
         from a deterministic sweep over ALL ordered type pairs x boundary pools."
            .into()
    }
    fn assumptions(&self) -> Vec<String> {
        vec![
            "a planning-stage rejection (plan/schema/not-implemented error, unsupported cast) of `a op b` means the engine does not allow the pair to be compared".into(),
            "cells whose evaluation raises an execution error (overflowing cast, unparsable number text) are outside the property ('evaluates without error'); they are located by bisection and excluded".into(),
            "a context query (filter / literal / IN / join) that raises an error where the projection did not is not a wrong answer and gives no verdict (label ctx-error:*)".into(),
            "the reference for integer/decimal pairs is computed on decimal texts, independent of arrow's i256 / decimal kernels".into(),
            "dictionary columns are built the ordinary way: de-duplicated values, NULLs in the keys".into(),
        ]
    }
    fn run(&self, case: &Case) -> CaseResult {
        evaluate(case).result
    }
    fn known_signature(&self, case: &Case) -> Option<String> {
        known_signature(case)
    }
    fn extra(&self, tier: Tier, _seed: u64) -> Result<serde_json::Value, (String, Case)> {
        exhaustive(tier)
    }
}

/// signatures of the open C47 entries of known_findings.json
fn open_signatures() -> BTreeSet<String> {
    let mut out = BTreeSet::new();
    let Ok(text) = std::fs::read_to_string(verif_root().join("known_findings.json")) else { return out };
    let Ok(v) = serde_json::from_str::<serde_json::Value>(&text) else { return out };
    for e in v.get("findings").and_then(|f| f.as_array()).cloned().unwrap_or_default() {
        if e.get("property").and_then(|x| x.as_str()) == Some("C47") && e.get("status").and_then(|x| x.as_str()) == Some("open") {
            if let Some(s) = e.get("signature").and_then(|x| x.as_str()) {
                out.insert(s.to_string());
            }
        }
    }
    out
}

/// Deterministic sweep: every ordered type pair × the head of the pair pools.
fn exhaustive(tier: Tier) -> Result<serde_json::Value, (String, Case)> {
    let types = all_types();
    let per_side = tier.pick(8usize, 16usize);
    let threads = tier.pick(8usize, 16usize);
    let mut cases: Vec<Case> = vec![];
    let open = open_signatures();
    let mut degraded: Vec<String> = vec![];
    for (x, l) in types.iter().enumerate() {
        for (y, r) in types.iter().enumerate() {
            let mut a: Vec<Val> = pair_pool(l, r).into_iter().take(per_side - 1).collect();
            let mut b: Vec<Val> = pair_pool(r, l).into_iter().take(per_side - 1).collect();
            a.push(Val::Null);
            b.push(Val::Null);
            let c = Case { l: *l, r: *r, a, b, tp: if (x + y) % 4 == 0 { 3 } else { 1 }, lits: true };
            let c = degrade(c, &open, &mut degraded);
            cases.push(c);
        }
    }
    let t0 = std::time::Instant::now();
    let next = std::sync::atomic::AtomicUsize::new(0);
    let results: std::sync::Mutex<Vec<(usize, Eval)>> = std::sync::Mutex::new(vec![]);
    std::thread::scope(|s| {
        for _ in 0..threads {
            s.spawn(|| {
                loop {
                    let k = next.fetch_add(1, std::sync::atomic::Ordering::SeqCst);
                    if k >= cases.len() {
                        break;
                    }
                    let ev = match std::panic::catch_unwind(std::panic::AssertUnwindSafe(|| evaluate(&cases[k]))) {
                        Ok(ev) => ev,
                        Err(_) => Eval { result: CaseResult::violation("panic while evaluating the pair (see stderr)"), comparable: true, cells_ok: 0, cells_err: 0, cells_unknown: 0, queries: 0 },
                    };
                    results.lock().unwrap().push((k, ev));
                }
            });
        }
    });
    let mut results = results.into_inner().unwrap();
    results.sort_by_key(|(k, _)| *k);
    eprintln!("c47 exhaustive sweep: {} pairs in {:.1}s", results.len(), t0.elapsed().as_secs_f64());
    let mut not_comparable = vec![];
    let mut per_pair = serde_json::Map::new();
    let (mut comparable, mut ok, mut err, mut unknown, mut queries, mut inconclusive) = (0u64, 0u64, 0u64, 0u64, 0u64, 0u64);
    let mut ctx_errors: BTreeMap<String, u64> = BTreeMap::new();
    let mut asym = vec![];
    let mut violations: Vec<(String, Case)> = vec![];
    for (k, ev) in &results {
        let c = &cases[*k];
        let name = format!("{}/{}", c.l.label(), c.r.label());
        queries += ev.queries;
        match &ev.result.outcome {
            Outcome::Violation(m) => violations.push((format!("pair {name}: {m}"), c.clone())),
            Outcome::Discard(_) => {
                not_comparable.push(name.clone());
                if ev.result.labels.iter().any(|l| l == "asymmetric-comparability") {
                    asym.push(name.clone());
                }
            }
            Outcome::Inconclusive(m) => {
                inconclusive += 1;
                per_pair.insert(name.clone(), json!(format!("inconclusive: {}", truncate(m, 160))));
            }
            Outcome::Pass => {
                comparable += 1;
                ok += ev.cells_ok;
                err += ev.cells_err;
                unknown += ev.cells_unknown;
                for l in &ev.result.labels {
                    if l.starts_with("ctx-error:") {
                        *ctx_errors.entry(l.clone()).or_default() += 1;
                    }
                }
                per_pair.insert(name, json!(format!("ok={} err={} unlocated={}", ev.cells_ok, ev.cells_err, ev.cells_unknown)));
            }
        }
    }
    if let Some((_, first)) = violations.first() {
        let first = first.clone();
        let all: Vec<String> = violations.iter().take(40).map(|(m, _)| truncate(m, 600)).collect();
        return Err((format!("exhaustive sweep: {} violating type pairs:\n  {}", violations.len(), all.join("\n  ")), first));
    }
    Ok(json!({
        "exhaustive_pairs_total": cases.len(),
        "exhaustive_pairs_comparable": comparable,
        "exhaustive_pairs_not_comparable": not_comparable.len(),
        "exhaustive_pairs_inconclusive": inconclusive,
        "exhaustive_values_per_side": per_side,
        "exhaustive_cells_evaluated": ok,
        "exhaustive_cells_exec_error": err,
        "exhaustive_cells_unlocated": unknown,
        "exhaustive_queries": queries,
        "exhaustive_context_errors": ctx_errors,
        "exhaustive_asymmetric_comparability": asym,
        "exhaustive_not_comparable": not_comparable,
        "exhaustive_degraded_because_of_open_findings": degraded,
        "exhaustive_per_pair": per_pair,
    }))
}
