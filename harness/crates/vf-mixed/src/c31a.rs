//! C31 (a, end-to-end) — dynamic filters never remove rows that contribute to the result.
//!
//! Case (plain data): two tables `b` ("build": 1–250 rows, keys in a narrow window) and `p` ("probe":
//! 100–2500 rows, keys spread over a wide domain), each described by a small `DataSpec` (row count, key
//! window, duplicates, NULL percentages, a seed for a splitmix-derived but fully deterministic row
//! content — all randomness still comes from the proptest strategy) and a `Storage`:
//!   * `Parquet{files, rg_rows, page_rows, bloom, clustered, delays}` — written per case into a temp
//!     dir as several files with several row groups and data pages (statistics + page index, optional
//!     bloom filters; `clustered` = rows sorted by key so that files / row groups / pages have disjoint
//!     key ranges and the dynamic filter can prune at file-open, row-group, page and — with
//!     `pushdown_filters` — row level), read as a listing table through `DelayStore`, an `ObjectStore`
//!     wrapper that delays every GET of file `i` by `delays[i]` `yield_now`s (build files vs. probe
//!     files, early vs. late files: the probe reads the filter before / during / after its updates);
//!   * `Mem{partitions, batch_rows}` — a partitioned MemTable.
//! Query kinds: `Join` (INNER / LEFT / RIGHT / FULL / LEFT|RIGHT SEMI / LEFT|RIGHT ANTI / mark join
//! through `EXISTS … OR …` / null-aware anti join through `NOT IN (subquery)`, optionally a null-equal first key, 1–3 equi keys (BIGINT, BIGINT, VARCHAR), either table on the left, optional
//! static predicate on either side), `TopK` (`ORDER BY v [DESC] [NULLS FIRST|LAST], id LIMIT k`),
//! `JoinTopK` (inner join + ORDER BY … LIMIT), `GroupTopK` (`SELECT k1, max|min(v) … GROUP BY k1 ORDER BY
//! 2 LIMIT k`, the TopK-aggregation path) and `AggMinMax` (`SELECT min(v), max(v), min(k1), max(k1)`,
//! the aggregate dynamic filter). Configuration: `target_partitions` 1–8, batch size, CollectLeft vs
//! Partitioned hash join (`hash_join_single_partition_threshold{,_rows}` = 0), IN-list / bounds-only /
//! hash-lookup dynamic filter variants via `hash_join_inlist_pushdown_max_{size,distinct_values}` ∈
//! {0, small, default}, `pushdown_filters` / `reorder_filters` on/off, page index and bloom filter
//! reading on/off, current-thread or multi-thread runtime.
//!
//! Oracle (metamorphic): the result with `enable_{,join_,topk_,aggregate_}dynamic_filter_pushdown` all
//! ON equals the result with all of them OFF — as a multiset for joins / aggregates, as a sequence for
//! the TopK kinds (the ORDER BY ends in the unique `id`s, so the order is total); for `GroupTopK`, whose
//! ties at the cut are legitimately arbitrary, the sequence of aggregate values must be equal and every
//! returned `(k1, agg)` pair must be a group of the full aggregate computed from the plain data.
//! Errors: the same clean rejection in both runs → discard; an error in only one run → violation when it
//! is the ON run that fails (the OFF run shows the query is answerable), inconclusive otherwise.
//!
//! Non-trivial: the executed ON plan contains a dynamic filter, the result is non-empty, and the scans /
//! filters of the ON run pruned more (Parquet pruning counters: file ranges, row groups by statistics,
//! row groups by dynamic filter, page index rows, row-filter rows) or emitted fewer rows than in the OFF run.
//! Labels name the pruning levels hit (`pruned=…`).
//!
//! Deviations from DESIGN.md: lives in vf-mixed (not vf-core); no `refsql` third opinion (the statement
//! is the ON = OFF equivalence; `GroupTopK` alone uses a plain-data aggregate to be tie-aware); scripted
//! `Pending` sources are replaced by the GET-delaying object store plus runtime flavour / partition count.
//!
//! Open findings (known_findings.json, cases under /verif/regressions/C31/c31a):
//!   * `agg-dynamic-filter-null-bound` — FIXED in /repo (case kept as a plain regression) — GENUINE C31 DEFECT (wrong result): `AggregateStream::
//!     build_dynamic_filter_from_accumulator_bounds` drops the disjunct of every min/max whose bound is still NULL
//!     instead of disabling the filter, and `scalar_min(Int64(None), x)` keeps the typed NULL forever: `SELECT
//!     min(v), max(v), min(k1), max(k1) FROM p WHERE k2 = 0` returns min(k1) = 210 with the filter ON, 5 with it
//!     OFF. Repair /verif/fixes/C31-aggregate-dynamic-filter-null-bound.diff (verified under mutrun: the case and
//!     the un-excluded quick run pass, probes/log-all-run1.txt).
//!   * `parquet-sparse-page-mask` — the C24 finding of the parquet 59.2 push decoder, reached through a static
//!     predicate + TopK / aggregate dynamic filter (ON fails with `Invalid offset in sparse column chunk data`, OFF succeeds);
//!     no repair here (dependency); the generator sets `max_predicate_cache_size = 0` in 3 of 4 cases and the rest
//!     (pushdown_filters + predicate cache over Parquet) is excluded.
//!
//! Sensitivity probes (env-gated patch probes/probes.diff under mutrun, `VF_MUT=<q> vf-mixed c31a quick`; log in
//! probes/log-all-run1.txt) — all caught:
//!   q1 partitioned hash join publishes its dynamic filter as soon as ONE partition has reported, pending
//!      partitions count as empty (completion barrier dropped): 3 VIOLATIONs within 42 cases;
//!   q2 bounds predicate `key < max` instead of `key <= max`: VIOLATION at case 10;
//!   q3 TopK publishes its threshold from a heap that is not yet full: VIOLATION at case 24.
//! Budgets: quick 320 cases (20–70 s on the loaded box, ~30 % non-trivial, every pruning level labelled);
//! thorough 12 000 cases (measured 10 min, 9 468 evaluations, 3 701 non-trivial — the first thorough run is
//! what found `agg-dynamic-filter-null-bound`).
use arrow::array::{ArrayRef, Int64Array, StringArray};
use arrow::datatypes::{DataType, Field, Schema, SchemaRef};
use arrow::record_batch::RecordBatch;
use async_trait::async_trait;
use datafusion::datasource::MemTable;
use datafusion::physical_plan::ExecutionPlan;
use datafusion::physical_plan::metrics::MetricValue;
use datafusion::prelude::{ParquetReadOptions, SessionContext};
use futures::stream::BoxStream;
use object_store::path::Path;
use object_store::{CopyOptions, GetOptions, GetResult, ListResult, MultipartUpload, ObjectMeta, ObjectStore, PutMultipartOptions, PutOptions, PutPayload, PutResult};
use proptest::prelude::*;
use serde::{Deserialize, Serialize};
use std::collections::{BTreeMap, BTreeSet};
use std::fmt::{Display, Formatter};
use std::sync::Arc;
use std::time::Duration;
use vf_df::refsql::Value;
use vf_df::refsql::cmp::{fmt_rows, multiset_diff, sequence_diff};
use vf_df::{ErrClass, Flavor, Variant};
use vf_kit::engine::*;

pub struct C31a;

#[derive(Clone, Debug, Serialize, Deserialize)]
pub struct DataSpec {
    pub rows: u32,
    /// keys are drawn from `[key_lo, key_lo + key_span)`
    pub key_lo: i32,
    pub key_span: u32,
    pub null_key_pct: u8,
    pub null_v_pct: u8,
    /// values `v` are drawn from `[0, v_span)`
    pub v_span: u32,
    pub seed: u32,
}

#[derive(Clone, Debug, Serialize, Deserialize)]
pub enum Storage {
    Parquet {
        files: u8,
        rg_rows: u16,
        page_rows: u16,
        bloom: bool,
        /// rows sorted by key before they are dealt to files (disjoint key ranges per file / row group)
        clustered: bool,
        /// `yield_now`s before every GET of file i (cyclic)
        delays: Vec<u8>,
    },
    Mem {
        partitions: u8,
        batch_rows: u16,
    },
}

#[derive(Clone, Copy, Debug, PartialEq, Eq, Serialize, Deserialize)]
pub enum JoinKind {
    Inner,
    Left,
    Right,
    Full,
    LeftSemi,
    RightSemi,
    LeftAnti,
    RightAnti,
    /// `WHERE l.v < c OR EXISTS (SELECT 1 FROM r WHERE r.k = l.k)` → mark join
    Mark,
    /// `WHERE l.k1 NOT IN (SELECT k1 FROM r)` → null-aware anti join (NULL probe keys must survive the filter)
    NotIn,
}

#[derive(Clone, Debug, Serialize, Deserialize)]
pub enum Kind {
    Join {
        jt: JoinKind,
        keys: u8,
        /// `p` is the left relation of the SQL text
        probe_left: bool,
        /// static predicates `b.v < c` / `p.v >= c`
        pred_b: Option<u32>,
        pred_p: Option<u32>,
        /// first key compared with `IS NOT DISTINCT FROM` (NULL keys match each other)
        #[serde(default)]
        null_eq: bool,
    },
    TopK {
        desc: bool,
        nulls_first: bool,
        k: u16,
        /// `WHERE k2 = c`
        pred: Option<u8>,
        /// `ORDER BY k2, v, id` (two-column threshold) instead of `ORDER BY v, id`
        #[serde(default)]
        by_k2: bool,
    },
    JoinTopK {
        keys: u8,
        desc: bool,
        k: u16,
    },
    GroupTopK {
        max: bool,
        k: u16,
    },
    AggMinMax {
        pred: Option<u8>,
    },
}

#[derive(Clone, Debug, Serialize, Deserialize)]
pub struct Cfg {
    pub target_partitions: u8,
    pub batch_size: u16,
    pub partitioned_join: bool,
    /// 0 = hash lookups only, 1 = small limits, 2 = engine defaults
    pub inlist_mode: u8,
    pub pushdown_filters: bool,
    pub reorder_filters: bool,
    pub page_index: bool,
    pub bloom_on_read: bool,
    /// 0 = current-thread runtime, n = multi-thread with n workers
    pub workers: u8,
    /// false = `max_predicate_cache_size = 0` (see the known finding `parquet-sparse-page-mask`)
    #[serde(default = "yes")]
    pub predicate_cache: bool,
}

fn yes() -> bool {
    true
}

#[derive(Clone, Debug, Serialize, Deserialize)]
pub struct Case {
    pub kind: Kind,
    pub b: DataSpec,
    pub b_store: Storage,
    pub p: DataSpec,
    pub p_store: Storage,
    pub cfg: Cfg,
}

// ---------------------------------------------------------------------------------------------
// data

#[derive(Clone, Debug)]
struct Row {
    k1: Option<i64>,
    k2: Option<i64>,
    k3: Option<String>,
    v: Option<i64>,
}

fn rows_of(spec: &DataSpec, clustered: bool) -> Vec<Row> {
    let mut rows = vec![];
    let span = spec.key_span.max(1) as u64;
    for i in 0..spec.rows.min(20_000) {
        let h = splitmix64(((spec.seed as u64) << 32) | i as u64);
        let k1 = if (h % 100) < spec.null_key_pct as u64 { None } else { Some(spec.key_lo as i64 + ((h >> 8) % span) as i64) };
        let h2 = splitmix64(h);
        // secondary keys are functions of k1 for most rows so that multi-key joins still match
        let base = k1.unwrap_or(0);
        let k2 = if (h2 % 100) < 3 { None } else if (h2 % 100) < 15 { Some(((h2 >> 9) % 5) as i64) } else { Some(base.rem_euclid(5)) };
        let k3 = if ((h2 >> 20) % 100) < 3 {
            None
        } else if ((h2 >> 20) % 100) < 12 {
            Some(format!("s{}", (h2 >> 30) % 4))
        } else {
            Some(format!("s{}", base.rem_euclid(4)))
        };
        let h3 = splitmix64(h2);
        let v = if (h3 % 100) < spec.null_v_pct as u64 { None } else { Some(((h3 >> 8) % spec.v_span.max(1) as u64) as i64) };
        rows.push(Row { k1, k2, k3, v });
    }
    if clustered {
        rows.sort_by(|a, b| match (a.k1, b.k1) {
            (Some(x), Some(y)) => x.cmp(&y),
            (Some(_), None) => std::cmp::Ordering::Less,
            (None, Some(_)) => std::cmp::Ordering::Greater,
            (None, None) => std::cmp::Ordering::Equal,
        });
    }
    rows
}

fn table_schema() -> SchemaRef {
    Arc::new(Schema::new(vec![
        Field::new("id", DataType::Int64, false),
        Field::new("k1", DataType::Int64, true),
        Field::new("k2", DataType::Int64, true),
        Field::new("k3", DataType::Utf8, true),
        Field::new("v", DataType::Int64, true),
    ]))
}

fn batch_of(rows: &[Row], first_id: usize) -> Result<RecordBatch, String> {
    let id: ArrayRef = Arc::new(Int64Array::from((0..rows.len()).map(|i| (first_id + i) as i64).collect::<Vec<_>>()));
    let k1: ArrayRef = Arc::new(Int64Array::from(rows.iter().map(|r| r.k1).collect::<Vec<_>>()));
    let k2: ArrayRef = Arc::new(Int64Array::from(rows.iter().map(|r| r.k2).collect::<Vec<_>>()));
    let k3: ArrayRef = Arc::new(StringArray::from(rows.iter().map(|r| r.k3.as_deref()).collect::<Vec<_>>()));
    let v: ArrayRef = Arc::new(Int64Array::from(rows.iter().map(|r| r.v).collect::<Vec<_>>()));
    RecordBatch::try_new(table_schema(), vec![id, k1, k2, k3, v]).map_err(|e| e.to_string())
}

/// contiguous split of `n` rows into `parts` nearly equal pieces (first pieces one longer)
fn split_points(n: usize, parts: usize) -> Vec<(usize, usize)> {
    let parts = parts.max(1);
    let mut out = vec![];
    let (q, r) = (n / parts, n % parts);
    let mut at = 0;
    for i in 0..parts {
        let len = q + if i < r { 1 } else { 0 };
        out.push((at, at + len));
        at += len;
    }
    out
}

// ---------------------------------------------------------------------------------------------
// the delaying object store

#[derive(Debug)]
struct DelayStore {
    inner: Arc<dyn ObjectStore>,
    /// path (as the store sees it) → number of yields before each GET
    delays: BTreeMap<String, u32>,
}

impl Display for DelayStore {
    fn fmt(&self, f: &mut Formatter<'_>) -> std::fmt::Result {
        write!(f, "DelayStore({})", self.inner)
    }
}

#[async_trait]
impl ObjectStore for DelayStore {
    async fn put_opts(&self, location: &Path, payload: PutPayload, opts: PutOptions) -> object_store::Result<PutResult> {
        self.inner.put_opts(location, payload, opts).await
    }
    async fn put_multipart_opts(&self, location: &Path, opts: PutMultipartOptions) -> object_store::Result<Box<dyn MultipartUpload>> {
        self.inner.put_multipart_opts(location, opts).await
    }
    async fn get_opts(&self, location: &Path, options: GetOptions) -> object_store::Result<GetResult> {
        if let Some(n) = self.delays.get(location.as_ref()) {
            for _ in 0..*n {
                tokio::task::yield_now().await;
            }
        }
        self.inner.get_opts(location, options).await
    }
    fn delete_stream(&self, locations: BoxStream<'static, object_store::Result<Path>>) -> BoxStream<'static, object_store::Result<Path>> {
        self.inner.delete_stream(locations)
    }
    fn list(&self, prefix: Option<&Path>) -> BoxStream<'static, object_store::Result<ObjectMeta>> {
        self.inner.list(prefix)
    }
    async fn list_with_delimiter(&self, prefix: Option<&Path>) -> object_store::Result<ListResult> {
        self.inner.list_with_delimiter(prefix).await
    }
    async fn copy_opts(&self, from: &Path, to: &Path, options: CopyOptions) -> object_store::Result<()> {
        self.inner.copy_opts(from, to, options).await
    }
}

// ---------------------------------------------------------------------------------------------
// SQL

fn sql_of(kind: &Kind) -> String {
    match kind {
        Kind::Join { jt, keys, probe_left, pred_b, pred_p, null_eq } => {
            let (l, r) = if *probe_left { ("p", "b") } else { ("b", "p") };
            let mut on = vec![if *null_eq { format!("({l}.k1 IS NOT DISTINCT FROM {r}.k1)") } else { format!("{l}.k1 = {r}.k1") }];
            if *keys >= 2 {
                on.push(format!("{l}.k2 = {r}.k2"));
            }
            if *keys >= 3 {
                on.push(format!("{l}.k3 = {r}.k3"));
            }
            let on = on.join(" AND ");
            let mut preds = vec![];
            let both = matches!(jt, JoinKind::Inner | JoinKind::Left | JoinKind::Right | JoinKind::Full);
            let left_only = matches!(jt, JoinKind::LeftSemi | JoinKind::LeftAnti | JoinKind::Mark | JoinKind::NotIn);
            let visible = |t: &str| both || (left_only && t == l) || (!both && !left_only && t == r);
            if let Some(c) = pred_b {
                if visible("b") {
                    preds.push(format!("b.v < {c}"));
                }
            }
            if let Some(c) = pred_p {
                if visible("p") {
                    preds.push(format!("p.v >= {c}"));
                }
            }
            let wh = if preds.is_empty() { String::new() } else { format!(" WHERE {}", preds.join(" AND ")) };
            match jt {
                JoinKind::Inner | JoinKind::Left | JoinKind::Right | JoinKind::Full => {
                    let j = match jt {
                        JoinKind::Inner => "JOIN",
                        JoinKind::Left => "LEFT JOIN",
                        JoinKind::Right => "RIGHT JOIN",
                        _ => "FULL JOIN",
                    };
                    format!("SELECT {l}.id AS lid, {r}.id AS rid, {l}.v AS lv, {r}.k3 AS rk3 FROM {l} {j} {r} ON {on}{wh}")
                }
                JoinKind::LeftSemi => format!("SELECT {l}.id AS lid, {l}.v AS lv FROM {l} LEFT SEMI JOIN {r} ON {on}{wh}"),
                JoinKind::LeftAnti => format!("SELECT {l}.id AS lid, {l}.v AS lv FROM {l} LEFT ANTI JOIN {r} ON {on}{wh}"),
                JoinKind::RightSemi => format!("SELECT {r}.id AS rid, {r}.v AS rv FROM {l} RIGHT SEMI JOIN {r} ON {on}{wh}"),
                JoinKind::RightAnti => format!("SELECT {r}.id AS rid, {r}.v AS rv FROM {l} RIGHT ANTI JOIN {r} ON {on}{wh}"),
                JoinKind::NotIn => {
                    let and = if preds.is_empty() { String::new() } else { format!(" AND {}", preds.join(" AND ")) };
                    format!("SELECT {l}.id AS lid, {l}.v AS lv FROM {l} WHERE {l}.k1 NOT IN (SELECT k1 FROM {r}){and}")
                }
                JoinKind::Mark => {
                    let c = pred_b.or(*pred_p).unwrap_or(3);
                    let corr = on.replace(" AND ", " AND ");
                    format!("SELECT {l}.id AS lid, {l}.v AS lv FROM {l} WHERE {l}.v < {c} OR EXISTS (SELECT 1 FROM {r} WHERE {corr})")
                }
            }
        }
        Kind::TopK { desc, nulls_first, k, pred, by_k2 } => {
            let wh = pred.map(|c| format!(" WHERE k2 = {c}")).unwrap_or_default();
            let lead = if *by_k2 { format!("k2 {}, ", if *desc { "ASC" } else { "DESC" }) } else { String::new() };
            format!("SELECT id, k1, k2, v FROM p{wh} ORDER BY {lead}v {} NULLS {}, id LIMIT {}", if *desc { "DESC" } else { "ASC" }, if *nulls_first { "FIRST" } else { "LAST" }, k)
        }
        Kind::JoinTopK { keys, desc, k } => {
            let mut on = vec!["b.k1 = p.k1".to_string()];
            if *keys >= 2 {
                on.push("b.k2 = p.k2".into());
            }
            if *keys >= 3 {
                on.push("b.k3 = p.k3".into());
            }
            format!("SELECT b.id AS bid, p.id AS pid, p.v AS pv FROM b JOIN p ON {} ORDER BY p.v {}, p.id, b.id LIMIT {}", on.join(" AND "), if *desc { "DESC" } else { "ASC" }, k)
        }
        Kind::GroupTopK { max, k } => {
            if *max {
                format!("SELECT k1, max(v) AS m FROM p GROUP BY k1 ORDER BY m DESC LIMIT {k}")
            } else {
                format!("SELECT k1, min(v) AS m FROM p GROUP BY k1 ORDER BY m ASC LIMIT {k}")
            }
        }
        Kind::AggMinMax { pred } => {
            // always a predicate: without one the answer comes from the file statistics and nothing is scanned
            let wh = pred.map(|c| format!(" WHERE k2 = {c}")).unwrap_or_else(|| " WHERE k3 <> 'zz'".to_string());
            format!("SELECT min(v) AS a, max(v) AS b, min(k1) AS c, max(k1) AS d FROM p{wh}")
        }
    }
}

fn kind_label(kind: &Kind) -> String {
    match kind {
        Kind::Join { jt, .. } => format!("kind=join/{jt:?}"),
        Kind::TopK { .. } => "kind=topk".into(),
        Kind::JoinTopK { .. } => "kind=join+topk".into(),
        Kind::GroupTopK { .. } => "kind=grouped-topk".into(),
        Kind::AggMinMax { .. } => "kind=agg-minmax".into(),
    }
}

// ---------------------------------------------------------------------------------------------
// running

fn options_of(cfg: &Cfg, dynamic: bool) -> Vec<(String, String)> {
    let b = |x: bool| x.to_string();
    let mut o: Vec<(String, String)> = vec![
        ("datafusion.optimizer.enable_dynamic_filter_pushdown".into(), b(dynamic)),
        ("datafusion.optimizer.enable_join_dynamic_filter_pushdown".into(), b(dynamic)),
        ("datafusion.optimizer.enable_topk_dynamic_filter_pushdown".into(), b(dynamic)),
        ("datafusion.optimizer.enable_aggregate_dynamic_filter_pushdown".into(), b(dynamic)),
        ("datafusion.execution.parquet.pushdown_filters".into(), b(cfg.pushdown_filters)),
        ("datafusion.execution.parquet.reorder_filters".into(), b(cfg.reorder_filters)),
        ("datafusion.execution.parquet.enable_page_index".into(), b(cfg.page_index)),
        ("datafusion.execution.parquet.bloom_filter_on_read".into(), b(cfg.bloom_on_read)),
    ];
    if !cfg.predicate_cache {
        o.push(("datafusion.execution.parquet.max_predicate_cache_size".into(), "0".into()));
    }
    if cfg.partitioned_join {
        o.push(("datafusion.optimizer.hash_join_single_partition_threshold".into(), "0".into()));
        o.push(("datafusion.optimizer.hash_join_single_partition_threshold_rows".into(), "0".into()));
    }
    match cfg.inlist_mode {
        0 => {
            o.push(("datafusion.optimizer.hash_join_inlist_pushdown_max_size".into(), "0".into()));
            o.push(("datafusion.optimizer.hash_join_inlist_pushdown_max_distinct_values".into(), "0".into()));
        }
        1 => {
            o.push(("datafusion.optimizer.hash_join_inlist_pushdown_max_size".into(), "4096".into()));
            o.push(("datafusion.optimizer.hash_join_inlist_pushdown_max_distinct_values".into(), "8".into()));
        }
        _ => {}
    }
    o
}

#[derive(Default, Debug, Clone)]
struct PlanStats {
    /// pruning counters summed over the leaves (and row counts of leaves / filters)
    counters: BTreeMap<String, u64>,
    leaf_rows: u64,
    filter_rows: u64,
    has_dynamic_filter: bool,
    ops: BTreeSet<String>,
}

fn collect_stats(plan: &Arc<dyn ExecutionPlan>, out: &mut PlanStats) {
    let name = plan.name().to_string();
    let is_leaf = plan.children().is_empty();
    if matches!(name.as_str(), "HashJoinExec" | "SortExec" | "AggregateExec" | "FilterExec" | "SortMergeJoinExec" | "NestedLoopJoinExec" | "RepartitionExec" | "CoalescePartitionsExec" | "SortPreservingMergeExec") {
        out.ops.insert(name.clone());
    }
    if let Some(ms) = plan.metrics() {
        for m in ms.iter() {
            match m.value() {
                MetricValue::PruningMetrics { name, pruning_metrics } if is_leaf => {
                    *out.counters.entry(name.to_string()).or_default() += pruning_metrics.pruned() as u64;
                }
                MetricValue::Count { name, count } if is_leaf => {
                    *out.counters.entry(name.to_string()).or_default() += count.value() as u64;
                }
                MetricValue::OutputRows(c) => {
                    if is_leaf {
                        out.leaf_rows += c.value() as u64;
                    } else if name == "FilterExec" {
                        out.filter_rows += c.value() as u64;
                    }
                }
                _ => {}
            }
        }
    }
    for c in plan.children() {
        collect_stats(c, out);
    }
}

const PRUNE_KEYS: [(&str, &str); 6] = [
    ("files_ranges_pruned_statistics", "file"),
    ("row_groups_pruned_statistics", "row-group-stats"),
    ("row_groups_pruned_dynamic_filter", "row-group-dynamic"),
    ("row_groups_pruned_bloom_filter", "bloom"),
    ("page_index_rows_pruned", "page"),
    ("pushdown_rows_pruned", "row-filter"),
];

struct Ran {
    rows: Vec<Vec<Value>>,
    stats: PlanStats,
    plan_text: String,
}

enum RunErr {
    Engine { class: ErrClass, stage: &'static str, message: String },
    Timeout,
    Harness(String),
}

struct Written {
    _dir: tempfile::TempDir,
    root: std::path::PathBuf,
    /// store path → yields
    delays: BTreeMap<String, u32>,
}

/// write the Parquet side(s) of the case once; both runs read the same files
fn write_files(case: &Case) -> Result<Written, String> {
    let dir = tempfile::tempdir().map_err(|e| e.to_string())?;
    let root = dir.path().to_path_buf();
    let mut delays = BTreeMap::new();
    for (name, spec, store) in [("b", &case.b, &case.b_store), ("p", &case.p, &case.p_store)] {
        if let Storage::Parquet { files, rg_rows, page_rows, bloom, clustered, delays: d } = store {
            let rows = rows_of(spec, *clustered);
            std::fs::create_dir_all(root.join(name)).map_err(|e| e.to_string())?;
            let nfiles = (*files).clamp(1, 16) as usize;
            let mut first_id = 0usize;
            for (fi, (lo, hi)) in split_points(rows.len(), nfiles).into_iter().enumerate() {
                let props = parquet::file::properties::WriterProperties::builder()
                    .set_max_row_group_size((*rg_rows).max(1) as usize)
                    .set_data_page_row_count_limit((*page_rows).max(1) as usize)
                    .set_write_batch_size((*page_rows).max(1) as usize)
                    .set_statistics_enabled(parquet::file::properties::EnabledStatistics::Page)
                    .set_bloom_filter_enabled(*bloom)
                    .build();
                let path = root.join(name).join(format!("part-{fi:02}.parquet"));
                let file = std::fs::File::create(&path).map_err(|e| e.to_string())?;
                let mut w = parquet::arrow::ArrowWriter::try_new(file, table_schema(), Some(props)).map_err(|e| e.to_string())?;
                // an empty slice still yields a (valid, empty) file: listing tables must cope with it
                let batch = batch_of(&rows[lo..hi], first_id)?;
                w.write(&batch).map_err(|e| e.to_string())?;
                w.close().map_err(|e| e.to_string())?;
                first_id += hi - lo;
                if !d.is_empty() {
                    let n = d[fi % d.len()] as u32;
                    if n > 0 {
                        delays.insert(format!("{name}/part-{fi:02}.parquet"), n);
                    }
                }
            }
        }
    }
    Ok(Written { _dir: dir, root, delays })
}

async fn register(ctx: &SessionContext, case: &Case, w: &Written) -> Result<(), RunErr> {
    let fs = object_store::local::LocalFileSystem::new_with_prefix(&w.root).map_err(|e| RunErr::Harness(e.to_string()))?;
    let store = Arc::new(DelayStore { inner: Arc::new(fs), delays: w.delays.clone() });
    let url = url::Url::parse("delay://c31").map_err(|e| RunErr::Harness(e.to_string()))?;
    ctx.register_object_store(&url, store);
    for (name, spec, st) in [("b", &case.b, &case.b_store), ("p", &case.p, &case.p_store)] {
        match st {
            Storage::Parquet { .. } => {
                ctx.register_parquet(name, format!("delay://c31/{name}/"), ParquetReadOptions::default()).await.map_err(|e| RunErr::Harness(format!("register_parquet({name}): {e}")))?;
            }
            Storage::Mem { partitions, batch_rows } => {
                let rows = rows_of(spec, false);
                let np = (*partitions).clamp(1, 8) as usize;
                let mut parts: Vec<Vec<RecordBatch>> = vec![vec![]; np];
                let step = (*batch_rows).max(1) as usize;
                let mut at = 0;
                let mut bi = 0;
                while at < rows.len() {
                    let end = (at + step).min(rows.len());
                    parts[bi % np].push(batch_of(&rows[at..end], at).map_err(RunErr::Harness)?);
                    at = end;
                    bi += 1;
                }
                let t = MemTable::try_new(table_schema(), parts).map_err(|e| RunErr::Harness(e.to_string()))?;
                ctx.register_table(name, Arc::new(t)).map_err(|e| RunErr::Harness(e.to_string()))?;
            }
        }
    }
    Ok(())
}

fn run_once(case: &Case, w: &Written, dynamic: bool) -> Result<Ran, RunErr> {
    let variant = Variant {
        options: options_of(&case.cfg, dynamic),
        target_partitions: case.cfg.target_partitions.clamp(1, 8) as usize,
        batch_size: Some(case.cfg.batch_size.max(1) as usize),
        flavor: if case.cfg.workers == 0 { Flavor::CurrentThread } else { Flavor::MultiThread(case.cfg.workers.min(4) as usize) },
        ..Variant::default()
    };
    let rt = vf_df::build_runtime(&variant).map_err(|e| RunErr::Harness(e.to_string()))?;
    let ctx = vf_df::build_context(&variant, |b| b).map_err(|e| RunErr::Harness(format!("context: {e}")))?;
    let sql = sql_of(&case.kind);
    let out = rt.block_on(async {
        tokio::time::timeout(Duration::from_secs(40), async {
            register(&ctx, case, w).await?;
            let eng = |stage: &'static str, e: datafusion::error::DataFusionError| RunErr::Engine { class: vf_df::classify_error(&e), stage, message: truncate(&e.strip_backtrace(), 800) };
            let df = ctx.sql(&sql).await.map_err(|e| eng("plan", e))?;
            let plan = df.create_physical_plan().await.map_err(|e| eng("physical", e))?;
            let batches = datafusion::physical_plan::collect(plan.clone(), ctx.task_ctx()).await.map_err(|e| eng("execute", e))?;
            let mut stats = PlanStats::default();
            collect_stats(&plan, &mut stats);
            // rendered after execution: shows the final state of the dynamic filters
            let plan_text = datafusion::physical_plan::displayable(plan.as_ref()).indent(false).to_string();
            stats.has_dynamic_filter = plan_text.contains("DynamicFilter");
            Ok(Ran { rows: vf_df::batches_to_rows(&batches), stats, plan_text })
        })
        .await
    });
    rt.shutdown_timeout(Duration::from_millis(300));
    match out {
        Err(_) => Err(RunErr::Timeout),
        Ok(r) => r,
    }
}

/// full `k1 → agg(v)` map of `p` from the plain data (tie-aware check of `GroupTopK`)
fn group_agg(case: &Case, max: bool) -> BTreeMap<Option<i64>, Option<i64>> {
    let clustered = matches!(case.p_store, Storage::Parquet { clustered: true, .. });
    let mut m: BTreeMap<Option<i64>, Option<i64>> = BTreeMap::new();
    for r in rows_of(&case.p, clustered) {
        let e = m.entry(r.k1).or_insert(None);
        if let Some(v) = r.v {
            *e = Some(match *e {
                None => v,
                Some(x) => {
                    if max {
                        x.max(v)
                    } else {
                        x.min(v)
                    }
                }
            });
        }
    }
    m
}

fn as_i64(v: &Value) -> Option<Option<i64>> {
    match v {
        Value::Null => Some(None),
        Value::Int(i) => Some(Some(*i)),
        _ => None,
    }
}

fn valid_case(c: &Case) -> bool {
    let ok_store = |s: &Storage| match s {
        Storage::Parquet { files, rg_rows, page_rows, delays, .. } => *files >= 1 && *files <= 16 && *rg_rows >= 1 && *page_rows >= 1 && delays.len() <= 16,
        Storage::Mem { partitions, batch_rows } => *partitions >= 1 && *partitions <= 8 && *batch_rows >= 1,
    };
    let ok_spec = |d: &DataSpec| d.rows <= 5000 && d.key_span >= 1 && d.null_key_pct <= 100 && d.null_v_pct <= 100 && d.v_span >= 1;
    ok_store(&c.b_store) && ok_store(&c.p_store) && ok_spec(&c.b) && ok_spec(&c.p) && c.cfg.target_partitions >= 1 && c.cfg.target_partitions <= 8 && c.cfg.batch_size >= 1
}

impl Property for C31a {
    type Case = Case;
    fn id(&self) -> &'static str {
        "C31"
    }
    fn sub(&self) -> &'static str {
        "c31a"
    }
    fn strategy(&self, tier: Tier) -> BoxedStrategy<Case> {
        strategy(tier)
    }
    fn budget(&self, tier: Tier) -> Budget {
        Budget::new(tier.pick(320, 12_000), tier.pick(8, 16)).min_nontrivial(tier.pick(40, 2_000)).case_timeout(150).shrink(200, 90)
    }
    fn rule(&self) -> String {
        "two tables (build: 1-250 rows in a narrow key window; probe: 100-2500 rows over a wide key domain; NULL keys/values, duplicates) stored as multi-file / multi-row-group / multi-page Parquet listing \
         tables (read through an object store that delays GETs per file) or partitioned MemTables; joins of every type (1-3 keys, either side left, CollectLeft/Partitioned, IN-list / bounds / hash-lookup filter \
         variants), TopK, join+TopK, grouped TopK and min/max aggregates; target_partitions 1-8, pushdown_filters / page index / bloom on-off, current- or multi-thread runtime. Oracle: result with all \
         dynamic-filter options ON = result with them OFF. non-trivial = the ON plan holds a dynamic filter, the result is non-empty and the ON run pruned more (Parquet pruning counters) or scanned/filtered fewer \
         rows than the OFF run; distinct by case JSON"
            .into()
    }
    fn assumptions(&self) -> Vec<String> {
        vec![
            "the OFF configuration (all four enable_*dynamic_filter_pushdown options false) is the reference".into(),
            "ORDER BY of the TopK kinds ends in unique ids (total order); GroupTopK ties at the cut are arbitrary: the aggregate-value sequence must match and every returned group must be a true group".into(),
            "yield-based GET delays and the runtime flavour only change timing, never the data".into(),
        ]
    }
    /// `parquet-sparse-page-mask` (the C24 finding `pushdown+mask+predicate-cache+small-batch`, a defect of
    /// the parquet 59.2 push decoder): with `pushdown_filters` and the predicate cache, a row filter of two
    /// or more conjuncts (here: a static predicate plus the dynamic filter) can fail with `Invalid offset in
    /// sparse column chunk data`. The generator turns the cache off (`max_predicate_cache_size = 0`) in
    /// three of four cases; the remaining exposure is excluded while that finding is open.
    /// (`agg-dynamic-filter-null-bound` is repaired in /repo; its case is a plain regression and AggMinMax over
    /// data with NULLs is no longer excluded.) The exclusion covers every query kind: the failing two-conjunct row
    /// filter is a static predicate plus a TopK *or* aggregate (or join) dynamic filter.
    fn known_signature(&self, case: &Case) -> Option<String> {
        let parquet = matches!(case.p_store, Storage::Parquet { .. }) || matches!(case.b_store, Storage::Parquet { .. });
        if case.cfg.pushdown_filters && case.cfg.predicate_cache && parquet { Some("parquet-sparse-page-mask".into()) } else { None }
    }
    fn run(&self, case: &Case) -> CaseResult {
        if !valid_case(case) {
            return CaseResult::discard("malformed case");
        }
        let sql = sql_of(&case.kind);
        let w = match write_files(case) {
            Ok(w) => w,
            Err(e) => panic!("harness: writing parquet files: {e}"),
        };
        let off = run_once(case, &w, false);
        let on = run_once(case, &w, true);
        let mut labels = vec![kind_label(&case.kind)];
        labels.push(format!("tp={}", case.cfg.target_partitions));
        labels.push(format!("probe={}", if matches!(case.p_store, Storage::Parquet { .. }) { "parquet" } else { "mem" }));
        labels.push(format!("build={}", if matches!(case.b_store, Storage::Parquet { .. }) { "parquet" } else { "mem" }));
        labels.push(format!("pushdown_filters={}", case.cfg.pushdown_filters));
        labels.push(format!("predicate_cache={}", case.cfg.predicate_cache));
        labels.push(format!("inlist_mode={}", case.cfg.inlist_mode));
        labels.push(format!("runtime={}", if case.cfg.workers == 0 { "current-thread" } else { "multi-thread" }));
        if matches!(case.kind, Kind::Join { null_eq: true, .. }) {
            labels.push("null-equal-key".into());
        }
        if let Kind::Join { keys, .. } | Kind::JoinTopK { keys, .. } = &case.kind {
            labels.push(format!("keys={keys}"));
            labels.push(format!("join-mode={}", if case.cfg.partitioned_join { "partitioned" } else { "default" }));
        }
        if w.delays.keys().any(|k| k.starts_with("b/")) {
            labels.push("delayed=build".into());
        }
        if w.delays.keys().any(|k| k.starts_with("p/")) {
            labels.push("delayed=probe".into());
        }
        let (off, on) = match (off, on) {
            (Err(RunErr::Harness(m)), _) | (_, Err(RunErr::Harness(m))) => panic!("harness: {m}"),
            (Err(RunErr::Timeout), _) | (_, Err(RunErr::Timeout)) => return CaseResult::inconclusive("timeout").labels(labels),
            (Err(RunErr::Engine { class, stage, message }), Err(RunErr::Engine { class: c2, .. })) => {
                return if class.is_clean_rejection() && c2.is_clean_rejection() {
                    CaseResult::discard(format!("rejected in both runs ({class:?} at {stage})")).labels(labels)
                } else {
                    CaseResult::inconclusive(format!("both runs fail ({class:?} at {stage}): {message}")).labels(labels)
                };
            }
            (Ok(_), Err(RunErr::Engine { class, stage, message })) => {
                return CaseResult::violation(format!("the query succeeds with dynamic filters OFF but fails with them ON ({class:?} at {stage}): {message}\n  sql: {sql}")).labels(labels);
            }
            (Err(RunErr::Engine { class, stage, message }), Ok(_)) => {
                return CaseResult::inconclusive(format!("the reference (OFF) run fails ({class:?} at {stage}): {message}")).labels(labels);
            }
            (Ok(a), Ok(b)) => (a, b),
        };
        // ---- compare
        let diff = match &case.kind {
            Kind::Join { .. } | Kind::AggMinMax { .. } => multiset_diff(&off.rows, &on.rows),
            Kind::TopK { .. } | Kind::JoinTopK { .. } => sequence_diff(&off.rows, &on.rows),
            Kind::GroupTopK { max, .. } => {
                let seq = |rows: &[Vec<Value>]| rows.iter().map(|r| vec![r.get(1).cloned().unwrap_or(Value::Null)]).collect::<Vec<_>>();
                let mut d = sequence_diff(&seq(&off.rows), &seq(&on.rows));
                if d.is_none() {
                    let full = group_agg(case, *max);
                    let mut seen = BTreeSet::new();
                    for r in &on.rows {
                        let (Some(k), Some(m)) = (r.first().and_then(as_i64), r.get(1).and_then(as_i64)) else {
                            d = Some(format!("unexpected row shape {r:?}"));
                            break;
                        };
                        if full.get(&k) != Some(&m) {
                            d = Some(format!("group k1={k:?} is returned with aggregate {m:?}, the data give {:?}", full.get(&k)));
                            break;
                        }
                        if !seen.insert(k) {
                            d = Some(format!("group k1={k:?} is returned twice"));
                            break;
                        }
                    }
                }
                d
            }
        };
        let on_pruned: u64 = PRUNE_KEYS.iter().map(|(k, _)| on.stats.counters.get(*k).copied().unwrap_or(0)).sum();
        let off_pruned: u64 = PRUNE_KEYS.iter().map(|(k, _)| off.stats.counters.get(*k).copied().unwrap_or(0)).sum();
        for (k, short) in PRUNE_KEYS {
            if on.stats.counters.get(k).copied().unwrap_or(0) > off.stats.counters.get(k).copied().unwrap_or(0) {
                labels.push(format!("pruned={short}"));
            }
        }
        if on.stats.leaf_rows < off.stats.leaf_rows {
            labels.push("fewer-scan-rows".into());
        }
        if on.stats.filter_rows < off.stats.filter_rows {
            labels.push("fewer-filter-rows".into());
        }
        if on.stats.has_dynamic_filter {
            labels.push("dynamic-filter-in-plan".into());
        }
        for o in &on.stats.ops {
            labels.push(format!("op={o}"));
        }
        if on.rows.is_empty() {
            labels.push("empty-result".into());
        }
        if let Some(d) = diff {
            return CaseResult::violation(format!(
                "result with dynamic filters ON differs from the result with them OFF: {d}\n  sql: {sql}\n  OFF rows ({}): {}\n  ON rows ({}): {}\n  ON counters: {:?}\n  ON plan:\n{}\n  OFF plan:\n{}",
                off.rows.len(),
                fmt_rows(&off.rows, 8),
                on.rows.len(),
                fmt_rows(&on.rows, 8),
                on.stats.counters,
                on.plan_text,
                off.plan_text
            ))
            .labels(labels)
            .nontrivial(true);
        }
        if std::env::var("VF_C31A_SHOW").is_ok() {
            eprintln!("sql: {sql}\nON plan:\n{}\nON counters: {:?} leaf_rows={} filter_rows={}\nOFF counters: {:?} leaf_rows={} filter_rows={}\nrows: {}", on.plan_text, on.stats.counters, on.stats.leaf_rows, on.stats.filter_rows, off.stats.counters, off.stats.leaf_rows, off.stats.filter_rows, on.rows.len());
        }
        let effective = on_pruned > off_pruned || on.stats.leaf_rows < off.stats.leaf_rows || on.stats.filter_rows < off.stats.filter_rows;
        let nt = on.stats.has_dynamic_filter && effective && !on.rows.is_empty();
        if nt {
            labels.push(format!("nontrivial:{}", kind_label(&case.kind)));
        }
        CaseResult::pass().nontrivial(nt).labels(labels)
    }
}

// ---------------------------------------------------------------------------------------------
// generator

fn storage_strategy(parquet_weight: u32, tier: Tier) -> BoxedStrategy<Storage> {
    let max_files = tier.pick(6u8, 12u8);
    let pq = (1..=max_files, prop::sample::select(vec![8u16, 20, 50, 128, 400]), prop::sample::select(vec![4u16, 10, 25, 100]), any::<bool>(), prop::bool::weighted(0.75), prop::collection::vec(prop_oneof![3 => Just(0u8), 2 => 1u8..6, 1 => 6u8..60], 0..6))
        .prop_map(|(files, rg_rows, page_rows, bloom, clustered, delays)| Storage::Parquet { files, rg_rows, page_rows, bloom, clustered, delays });
    let mem = (1u8..=4, prop::sample::select(vec![7u16, 64, 500])).prop_map(|(partitions, batch_rows)| Storage::Mem { partitions, batch_rows });
    prop_oneof![parquet_weight => pq, 1 => mem].boxed()
}

fn kind_strategy() -> BoxedStrategy<Kind> {
    let jt = prop::sample::select(vec![
        JoinKind::Inner,
        JoinKind::Inner,
        JoinKind::Left,
        JoinKind::Right,
        JoinKind::Full,
        JoinKind::LeftSemi,
        JoinKind::RightSemi,
        JoinKind::LeftAnti,
        JoinKind::RightAnti,
        JoinKind::Mark,
        JoinKind::NotIn,
    ]);
    let join = (jt, 1u8..=3, any::<bool>(), prop::option::weighted(0.25, 1u32..1000), prop::option::weighted(0.25, 0u32..900), prop::bool::weighted(0.15))
        .prop_map(|(jt, keys, probe_left, pred_b, pred_p, null_eq)| Kind::Join { jt, keys, probe_left, pred_b, pred_p, null_eq });
    let topk = (any::<bool>(), any::<bool>(), 1u16..40, prop::option::weighted(0.3, 0u8..5), prop::bool::weighted(0.3)).prop_map(|(desc, nulls_first, k, pred, by_k2)| Kind::TopK { desc, nulls_first, k, pred, by_k2 });
    let jtopk = (1u8..=3, any::<bool>(), 1u16..40).prop_map(|(keys, desc, k)| Kind::JoinTopK { keys, desc, k });
    let gtopk = (any::<bool>(), 1u16..12).prop_map(|(max, k)| Kind::GroupTopK { max, k });
    let agg = prop::option::weighted(0.4, 0u8..5).prop_map(|pred| Kind::AggMinMax { pred });
    prop_oneof![12 => join, 4 => topk, 2 => jtopk, 1 => gtopk, 3 => agg].boxed()
}

fn strategy(tier: Tier) -> BoxedStrategy<Case> {
    let max_p = tier.pick(1500u32, 4000u32);
    let p = (100u32..max_p, 0i32..50, prop::sample::select(vec![50u32, 300, 1000, 5000]), prop::sample::select(vec![0u8, 0, 3, 20]), prop::sample::select(vec![0u8, 5, 30]), prop::sample::select(vec![5u32, 100, 1000]), any::<u32>())
        .prop_map(|(rows, key_lo, key_span, null_key_pct, null_v_pct, v_span, seed)| DataSpec { rows, key_lo, key_span, null_key_pct, null_v_pct, v_span, seed });
    let b = (1u32..250, 0i32..1100, prop::sample::select(vec![1u32, 5, 30, 200, 2000]), prop::sample::select(vec![0u8, 0, 5, 50]), prop::sample::select(vec![0u8, 10]), prop::sample::select(vec![5u32, 1000]), any::<u32>())
        .prop_map(|(rows, key_lo, key_span, null_key_pct, null_v_pct, v_span, seed)| DataSpec { rows, key_lo, key_span, null_key_pct, null_v_pct, v_span, seed });
    let cfg = (
        1u8..=8,
        prop::sample::select(vec![16u16, 100, 1024, 8192]),
        any::<bool>(),
        0u8..3,
        any::<bool>(),
        any::<bool>(),
        prop::bool::weighted(0.8),
        prop::bool::weighted(0.8),
        prop_oneof![3 => Just(0u8), 1 => 2u8..=4],
        prop::bool::weighted(0.25),
    )
        .prop_map(|(target_partitions, batch_size, partitioned_join, inlist_mode, pushdown_filters, reorder_filters, page_index, bloom_on_read, workers, predicate_cache)| Cfg {
            target_partitions,
            batch_size,
            partitioned_join,
            inlist_mode,
            pushdown_filters,
            reorder_filters,
            page_index,
            bloom_on_read,
            workers,
            predicate_cache,
        });
    (kind_strategy(), b, storage_strategy(1, tier), p, storage_strategy(6, tier), cfg)
        .prop_map(|(kind, mut b, b_store, p, p_store, cfg)| {
            // `b.key_lo` was drawn as a per-mille position: place the build window inside (or just past the
            // end of) the probe key domain so that most joins have matches and bounds that can prune
            b.key_lo = p.key_lo - 2 + ((p.key_span as i64 * b.key_lo as i64) / 1000) as i32;
            Case { kind, b, b_store, p, p_store, cfg }
        })
        .boxed()
}
