//! Plain-data column types and values of the C47 type matrix, their Arrow construction, boundary
//! value pools and the exact (string based, engine independent) comparison of integers / decimals.
use arrow::array::*;
use arrow::datatypes::{DataType, Int8Type, Int16Type, Int32Type, TimeUnit, UInt8Type, i256};
use serde::{Deserialize, Serialize};
use std::cmp::Ordering;
use std::sync::Arc;

#[derive(Clone, Copy, Debug, PartialEq, Eq, Hash, PartialOrd, Ord, Serialize, Deserialize)]
pub enum Unit {
    S,
    Ms,
    Us,
    Ns,
}

#[derive(Clone, Copy, Debug, PartialEq, Eq, Hash, PartialOrd, Ord, Serialize, Deserialize)]
pub enum Base {
    I8,
    I16,
    I32,
    I64,
    U8,
    U16,
    U32,
    U64,
    F32,
    F64,
    /// Decimal128(precision, scale)
    D128(u8, i8),
    /// Decimal256(precision, scale)
    D256(u8, i8),
    Date32,
    Date64,
    /// Timestamp(unit, has "UTC" time zone)
    Ts(Unit, bool),
    Utf8,
    LargeUtf8,
    Utf8View,
}

#[derive(Clone, Copy, Debug, PartialEq, Eq, Hash, PartialOrd, Ord, Serialize, Deserialize)]
pub enum Key {
    /// not dictionary encoded
    Plain,
    I8,
    I16,
    I32,
    U8,
}

#[derive(Clone, Copy, Debug, PartialEq, Eq, Hash, PartialOrd, Ord, Serialize, Deserialize)]
pub struct Ty {
    pub base: Base,
    pub dict: Key,
}

/// One cell. `N` = decimal text of: the integer (int types), the unscaled integer (decimals), days
/// (Date32), milliseconds (Date64), the raw count (timestamps). `F` = bits of the f64 value (an F32
/// column holds `value as f32`). `S` = text.
#[derive(Clone, Debug, PartialEq, Eq, Hash, Serialize, Deserialize)]
pub enum Val {
    Null,
    N(String),
    F(u64),
    S(String),
}

pub const fn plain(base: Base) -> Ty {
    Ty { base, dict: Key::Plain }
}

/// The type matrix (31 column types → 961 ordered pairs).
pub fn all_types() -> Vec<Ty> {
    use Base::*;
    let mut v: Vec<Ty> = [
        I8,
        I16,
        I32,
        I64,
        U8,
        U16,
        U32,
        U64,
        F32,
        F64,
        D128(5, 2),
        D128(10, -2),
        D128(20, 0),
        D128(38, 0),
        D128(38, 10),
        D128(38, 37),
        D256(40, 20),
        D256(76, 0),
        Date32,
        Date64,
        Ts(Unit::S, false),
        Ts(Unit::Ms, false),
        Ts(Unit::Us, false),
        Ts(Unit::Ns, false),
        Ts(Unit::Ms, true),
        Utf8,
        LargeUtf8,
        Utf8View,
    ]
    .into_iter()
    .map(plain)
    .collect();
    v.push(Ty { base: Utf8, dict: Key::I32 });
    v.push(Ty { base: I64, dict: Key::I8 });
    v.push(Ty { base: D128(10, 2), dict: Key::I16 });
    v.push(Ty { base: F64, dict: Key::U8 });
    v
}

impl Base {
    pub fn label(&self) -> String {
        use Base::*;
        match self {
            I8 => "i8".into(),
            I16 => "i16".into(),
            I32 => "i32".into(),
            I64 => "i64".into(),
            U8 => "u8".into(),
            U16 => "u16".into(),
            U32 => "u32".into(),
            U64 => "u64".into(),
            F32 => "f32".into(),
            F64 => "f64".into(),
            D128(p, s) => format!("d128({p},{s})"),
            D256(p, s) => format!("d256({p},{s})"),
            Date32 => "date32".into(),
            Date64 => "date64".into(),
            Ts(u, tz) => format!(
                "ts_{}{}",
                match u {
                    Unit::S => "s",
                    Unit::Ms => "ms",
                    Unit::Us => "us",
                    Unit::Ns => "ns",
                },
                if *tz { "_utc" } else { "" }
            ),
            Utf8 => "utf8".into(),
            LargeUtf8 => "largeutf8".into(),
            Utf8View => "utf8view".into(),
        }
    }
    pub fn arrow(&self) -> DataType {
        use Base::*;
        match self {
            I8 => DataType::Int8,
            I16 => DataType::Int16,
            I32 => DataType::Int32,
            I64 => DataType::Int64,
            U8 => DataType::UInt8,
            U16 => DataType::UInt16,
            U32 => DataType::UInt32,
            U64 => DataType::UInt64,
            F32 => DataType::Float32,
            F64 => DataType::Float64,
            D128(p, s) => DataType::Decimal128(*p, *s),
            D256(p, s) => DataType::Decimal256(*p, *s),
            Date32 => DataType::Date32,
            Date64 => DataType::Date64,
            Ts(u, tz) => DataType::Timestamp(
                match u {
                    Unit::S => TimeUnit::Second,
                    Unit::Ms => TimeUnit::Millisecond,
                    Unit::Us => TimeUnit::Microsecond,
                    Unit::Ns => TimeUnit::Nanosecond,
                },
                if *tz { Some("UTC".into()) } else { None },
            ),
            Utf8 => DataType::Utf8,
            LargeUtf8 => DataType::LargeUtf8,
            Utf8View => DataType::Utf8View,
        }
    }
    pub fn is_int(&self) -> bool {
        use Base::*;
        matches!(self, I8 | I16 | I32 | I64 | U8 | U16 | U32 | U64)
    }
    pub fn is_decimal(&self) -> bool {
        matches!(self, Base::D128(..) | Base::D256(..))
    }
    /// integer or decimal: subject to the exact reference oracle
    pub fn is_exact(&self) -> bool {
        self.is_int() || self.is_decimal()
    }
    pub fn is_float(&self) -> bool {
        matches!(self, Base::F32 | Base::F64)
    }
    pub fn is_string(&self) -> bool {
        matches!(self, Base::Utf8 | Base::LargeUtf8 | Base::Utf8View)
    }
    pub fn is_temporal(&self) -> bool {
        matches!(self, Base::Date32 | Base::Date64 | Base::Ts(..))
    }
    pub fn class(&self) -> &'static str {
        if self.is_int() {
            "int"
        } else if self.is_decimal() {
            "decimal"
        } else if self.is_float() {
            "float"
        } else if self.is_string() {
            "string"
        } else {
            "temporal"
        }
    }
    /// scale of the `N` text (0 for integers and raw temporal counts)
    pub fn scale(&self) -> i32 {
        match self {
            Base::D128(_, s) | Base::D256(_, s) => *s as i32,
            _ => 0,
        }
    }
    /// inclusive range of the `N` integer of this type (None for float / string types)
    pub fn n_range(&self) -> Option<(i256, i256)> {
        use Base::*;
        let i = |v: i128| i256::from_i128(v);
        Some(match self {
            I8 => (i(i8::MIN as i128), i(i8::MAX as i128)),
            I16 => (i(i16::MIN as i128), i(i16::MAX as i128)),
            I32 | Date32 => (i(i32::MIN as i128), i(i32::MAX as i128)),
            I64 | Date64 | Ts(..) => (i(i64::MIN as i128), i(i64::MAX as i128)),
            U8 => (i(0), i(u8::MAX as i128)),
            U16 => (i(0), i(u16::MAX as i128)),
            U32 => (i(0), i(u32::MAX as i128)),
            U64 => (i(0), i(u64::MAX as i128)),
            D128(p, _) | D256(p, _) => {
                let m = p10(*p as u32)?.checked_sub(i(1))?;
                (m.checked_neg()?, m)
            }
            _ => return None,
        })
    }
}

impl Ty {
    pub fn label(&self) -> String {
        match self.dict {
            Key::Plain => self.base.label(),
            Key::I8 => format!("dict<i8,{}>", self.base.label()),
            Key::I16 => format!("dict<i16,{}>", self.base.label()),
            Key::I32 => format!("dict<i32,{}>", self.base.label()),
            Key::U8 => format!("dict<u8,{}>", self.base.label()),
        }
    }
    pub fn arrow(&self) -> DataType {
        let v = self.base.arrow();
        let k = match self.dict {
            Key::Plain => return v,
            Key::I8 => DataType::Int8,
            Key::I16 => DataType::Int16,
            Key::I32 => DataType::Int32,
            Key::U8 => DataType::UInt8,
        };
        DataType::Dictionary(Box::new(k), Box::new(v))
    }
}

pub fn p10(n: u32) -> Option<i256> {
    i256::from_i128(10).checked_pow(n)
}

pub fn parse_n(s: &str) -> Option<i256> {
    if s.is_empty() || s == "-" || !s.trim_start_matches('-').bytes().all(|b| b.is_ascii_digit()) || s[1..].contains('-') {
        return None;
    }
    i256::from_string(s)
}

/// does the value conform to the type (right variant, in range)?
pub fn conforms(base: &Base, v: &Val) -> bool {
    match (v, base) {
        (Val::Null, _) => true,
        (Val::N(s), b) => match (parse_n(s), b.n_range()) {
            (Some(n), Some((lo, hi))) => n >= lo && n <= hi,
            _ => false,
        },
        (Val::F(bits), Base::F64) => {
            let _ = bits;
            true
        }
        (Val::F(bits), Base::F32) => {
            let f = f64::from_bits(*bits);
            f.is_nan() || ((f as f32) as f64).to_bits() == *bits
        }
        (Val::S(_), b) => b.is_string(),
        _ => false,
    }
}

pub fn show_val(base: &Base, v: &Val) -> String {
    match v {
        Val::Null => "NULL".into(),
        Val::N(s) => {
            let sc = base.scale();
            if sc == 0 { s.clone() } else { format!("{s}e{}", -sc) }
        }
        Val::F(b) => format!("{:?}", f64::from_bits(*b)),
        Val::S(s) => format!("{s:?}"),
    }
}

// ---------------------------------------------------------------------------------------------
// Arrow construction

fn base_array(base: &Base, vals: &[&Val]) -> Result<ArrayRef, String> {
    use Base::*;
    macro_rules! ints {
        ($arr:ty, $t:ty) => {{
            let mut out: Vec<Option<$t>> = vec![];
            for v in vals {
                out.push(match v {
                    Val::Null => None,
                    Val::N(s) => Some(s.parse::<$t>().map_err(|e| format!("{s} is not a {}: {e}", stringify!($t)))?),
                    o => return Err(format!("{o:?} in a {} column", base.label())),
                });
            }
            Arc::new(<$arr>::from(out)) as ArrayRef
        }};
    }
    let floats = || -> Result<Vec<Option<f64>>, String> {
        vals.iter()
            .map(|v| match v {
                Val::Null => Ok(None),
                Val::F(b) => Ok(Some(f64::from_bits(*b))),
                o => Err(format!("{o:?} in a float column")),
            })
            .collect()
    };
    let strs = || -> Result<Vec<Option<&str>>, String> {
        vals.iter()
            .map(|v| match v {
                Val::Null => Ok(None),
                Val::S(s) => Ok(Some(s.as_str())),
                o => Err(format!("{o:?} in a string column")),
            })
            .collect()
    };
    Ok(match base {
        I8 => ints!(Int8Array, i8),
        I16 => ints!(Int16Array, i16),
        I32 => ints!(Int32Array, i32),
        I64 => ints!(Int64Array, i64),
        U8 => ints!(UInt8Array, u8),
        U16 => ints!(UInt16Array, u16),
        U32 => ints!(UInt32Array, u32),
        U64 => ints!(UInt64Array, u64),
        Date32 => ints!(Date32Array, i32),
        Date64 => ints!(Date64Array, i64),
        Ts(u, tz) => {
            let tz: Option<Arc<str>> = if *tz { Some("UTC".into()) } else { None };
            match u {
                Unit::S => {
                    let a = ints!(TimestampSecondArray, i64);
                    Arc::new(a.as_any().downcast_ref::<TimestampSecondArray>().unwrap().clone().with_timezone_opt(tz))
                }
                Unit::Ms => {
                    let a = ints!(TimestampMillisecondArray, i64);
                    Arc::new(a.as_any().downcast_ref::<TimestampMillisecondArray>().unwrap().clone().with_timezone_opt(tz))
                }
                Unit::Us => {
                    let a = ints!(TimestampMicrosecondArray, i64);
                    Arc::new(a.as_any().downcast_ref::<TimestampMicrosecondArray>().unwrap().clone().with_timezone_opt(tz))
                }
                Unit::Ns => {
                    let a = ints!(TimestampNanosecondArray, i64);
                    Arc::new(a.as_any().downcast_ref::<TimestampNanosecondArray>().unwrap().clone().with_timezone_opt(tz))
                }
            }
        }
        F32 => Arc::new(Float32Array::from(floats()?.into_iter().map(|o| o.map(|f| f as f32)).collect::<Vec<_>>())),
        F64 => Arc::new(Float64Array::from(floats()?)),
        D128(p, s) => {
            let mut out: Vec<Option<i128>> = vec![];
            for v in vals {
                out.push(match v {
                    Val::Null => None,
                    Val::N(t) => Some(t.parse::<i128>().map_err(|e| format!("{t}: {e}"))?),
                    o => return Err(format!("{o:?} in a decimal column")),
                });
            }
            Arc::new(Decimal128Array::from(out).with_precision_and_scale(*p, *s).map_err(|e| e.to_string())?)
        }
        D256(p, s) => {
            let mut out: Vec<Option<i256>> = vec![];
            for v in vals {
                out.push(match v {
                    Val::Null => None,
                    Val::N(t) => Some(parse_n(t).ok_or_else(|| format!("{t}: not an integer"))?),
                    o => return Err(format!("{o:?} in a decimal column")),
                });
            }
            Arc::new(Decimal256Array::from(out).with_precision_and_scale(*p, *s).map_err(|e| e.to_string())?)
        }
        Utf8 => Arc::new(StringArray::from(strs()?)),
        LargeUtf8 => Arc::new(LargeStringArray::from(strs()?)),
        Utf8View => Arc::new(StringViewArray::from(strs()?)),
    })
}

/// Column of the given type. Dictionary columns get a de-duplicated value array (first occurrence
/// order) and NULLs in the keys — the ordinary shape real writers produce.
pub fn build_array(ty: &Ty, vals: &[&Val]) -> Result<ArrayRef, String> {
    for v in vals {
        if !conforms(&ty.base, v) {
            return Err(format!("value {v:?} does not conform to {}", ty.label()));
        }
    }
    if ty.dict == Key::Plain {
        return base_array(&ty.base, vals);
    }
    let mut distinct: Vec<&Val> = vec![];
    let mut keys: Vec<Option<usize>> = vec![];
    for v in vals {
        if matches!(v, Val::Null) {
            keys.push(None);
            continue;
        }
        let k = match distinct.iter().position(|d| d == v) {
            Some(k) => k,
            None => {
                distinct.push(v);
                distinct.len() - 1
            }
        };
        keys.push(Some(k));
    }
    if distinct.len() > 100 {
        return Err("too many distinct values for a small-key dictionary".into());
    }
    let values = base_array(&ty.base, &distinct)?;
    macro_rules! dict {
        ($kt:ty, $ka:ty, $n:ty) => {{
            let ks: $ka = keys.iter().map(|k| k.map(|k| k as $n)).collect();
            Arc::new(DictionaryArray::<$kt>::try_new(ks, values).map_err(|e| e.to_string())?) as ArrayRef
        }};
    }
    Ok(match ty.dict {
        Key::I8 => dict!(Int8Type, Int8Array, i8),
        Key::I16 => dict!(Int16Type, Int16Array, i16),
        Key::I32 => dict!(Int32Type, Int32Array, i32),
        Key::U8 => dict!(UInt8Type, UInt8Array, u8),
        Key::Plain => unreachable!(),
    })
}

// ---------------------------------------------------------------------------------------------
// exact comparison of (unscaled integer text, scale) pairs — text arithmetic only

fn split_sign(s: &str) -> (bool, &str) {
    match s.strip_prefix('-') {
        Some(m) => (true, m),
        None => (false, s),
    }
}

/// compare `a·10^-sa` with `b·10^-sb`
pub fn cmp_exact(a: &str, sa: i32, b: &str, sb: i32) -> Ordering {
    let (na, ma) = split_sign(a);
    let (nb, mb) = split_sign(b);
    let s = sa.max(sb);
    let norm = |m: &str, sc: i32| -> String {
        let mut t = m.trim_start_matches('0').to_string();
        if !t.is_empty() {
            for _ in 0..(s - sc) {
                t.push('0');
            }
        }
        t
    };
    let ma = norm(ma, sa);
    let mb = norm(mb, sb);
    let za = ma.is_empty();
    let zb = mb.is_empty();
    let mag = |x: &str, y: &str| x.len().cmp(&y.len()).then_with(|| x.cmp(y));
    match (za, zb) {
        (true, true) => Ordering::Equal,
        (true, false) => {
            if nb {
                Ordering::Greater
            } else {
                Ordering::Less
            }
        }
        (false, true) => {
            if na {
                Ordering::Less
            } else {
                Ordering::Greater
            }
        }
        (false, false) => match (na, nb) {
            (false, false) => mag(&ma, &mb),
            (true, true) => mag(&mb, &ma),
            (true, false) => Ordering::Less,
            (false, true) => Ordering::Greater,
        },
    }
}

// ---------------------------------------------------------------------------------------------
// value pools

/// exact rational `u·10^-s`
#[derive(Clone, Copy, Debug)]
pub struct Rat {
    pub u: i256,
    pub s: i32,
}

fn rat(u: i128, s: i32) -> Rat {
    Rat { u: i256::from_i128(u), s }
}

/// `floor(r · 10^t)` as an integer (None on overflow of 256 bits)
fn floor_to_scale(r: Rat, t: i32) -> Option<i256> {
    if t >= r.s {
        r.u.checked_mul(p10((t - r.s) as u32)?)
    } else {
        let d = p10((r.s - t) as u32)?;
        let q = r.u.checked_div(d)?;
        let rem = r.u.checked_rem(d)?;
        if rem.is_negative() { q.checked_sub(i256::from_i128(1)) } else { Some(q) }
    }
}

/// the rational value of a conforming `N` cell of an integer / decimal type
pub fn rat_of(base: &Base, v: &Val) -> Option<Rat> {
    match v {
        Val::N(s) if base.is_exact() => Some(Rat { u: parse_n(s)?, s: base.scale() }),
        _ => None,
    }
}

fn landmarks() -> Vec<Rat> {
    let mut v = vec![];
    for x in [
        0i128,
        1,
        -1,
        127,
        128,
        -128,
        -129,
        255,
        256,
        32767,
        32768,
        -32768,
        -32769,
        65535,
        65536,
        (1 << 24) - 1,
        1 << 24,
        (1 << 24) + 1,
        i32::MAX as i128,
        i32::MAX as i128 + 1,
        i32::MIN as i128,
        i32::MIN as i128 - 1,
        u32::MAX as i128,
        u32::MAX as i128 + 1,
        (1 << 53) - 1,
        1 << 53,
        (1 << 53) + 1,
        -(1i128 << 53) - 1,
        i64::MAX as i128,
        i64::MAX as i128 + 1,
        i64::MIN as i128,
        i64::MIN as i128 - 1,
        u64::MAX as i128,
        u64::MAX as i128 + 1,
        99_999,
        100_000,
    ] {
        v.push(rat(x, 0));
    }
    // fractions: 0.1, 0.10, 0.5, 999.99, 1e-10, 1e-20, 1e-37, 9.99…
    v.extend([rat(1, 1), rat(10, 2), rat(-1, 1), rat(5, 1), rat(99_999, 2), rat(-99_999, 2), rat(1, 2), rat(1, 10), rat(1, 20), rat(1, 37), rat(-1, 37)]);
    // large powers of ten (decimal precision edges), scale -2 steps
    for e in [9u32, 10, 11, 12, 18, 19, 20, 27, 28, 37, 38, 39, 40, 55, 56, 75] {
        if let Some(p) = p10(e) {
            v.push(Rat { u: p, s: 0 });
            v.push(Rat { u: p.checked_sub(i256::from_i128(1)).unwrap(), s: 0 });
            v.push(Rat { u: p.checked_neg().unwrap(), s: 0 });
        }
    }
    v.push(rat(100, 0));
    v.push(rat(150, 0));
    v.push(rat(-100, 0));
    v
}

fn in_range(base: &Base, n: i256) -> bool {
    matches!(base.n_range(), Some((lo, hi)) if n >= lo && n <= hi)
}

/// cells of an exact type at and next to the rational `r` (floor and the unscaled neighbours)
fn near(base: &Base, r: Rat) -> Vec<Val> {
    let mut out = vec![];
    if let Some(f) = floor_to_scale(r, base.scale()) {
        for d in [0i128, 1, -1] {
            if let Some(n) = f.checked_add(i256::from_i128(d)) {
                if in_range(base, n) {
                    out.push(Val::N(n.to_string()));
                }
            }
        }
    }
    out
}

fn extremes(base: &Base) -> Vec<Rat> {
    match base.n_range() {
        Some((lo, hi)) if base.is_exact() => vec![Rat { u: lo, s: base.scale() }, Rat { u: hi, s: base.scale() }],
        _ => match base {
            Base::F32 => vec![rat(1 << 24, 0), rat(-(1 << 24), 0)],
            Base::F64 => vec![rat(1 << 53, 0), rat(-(1 << 53), 0)],
            _ => vec![],
        },
    }
}

fn rat_f64(r: Rat) -> f64 {
    format!("{}e{}", r.u, -r.s).parse::<f64>().unwrap_or(0.0)
}

fn rat_text(r: Rat) -> String {
    // plain decimal text with `s` fraction digits (s > 0) or trailing zeros (s < 0)
    let neg = r.u.is_negative();
    let mut digits = r.u.to_string().trim_start_matches('-').to_string();
    if r.s <= 0 {
        if digits != "0" {
            for _ in 0..(-r.s) {
                digits.push('0');
            }
        }
    } else {
        let s = r.s as usize;
        while digits.len() <= s {
            digits.insert(0, '0');
        }
        digits.insert(digits.len() - s, '.');
    }
    if neg { format!("-{digits}") } else { digits }
}

fn f(v: f64) -> Val {
    Val::F(v.to_bits())
}

fn push_unique(out: &mut Vec<Val>, v: Val) {
    if !out.contains(&v) {
        out.push(v);
    }
}

const TEMPORAL_I64: [i64; 26] = [
    0,
    1,
    -1,
    86_400,
    86_400_000,
    86_399_999,
    86_400_000_000,
    86_400_000_000_000,
    1_609_459_200,
    1_609_459_200_000,
    1_609_459_200_000_000,
    1_609_459_200_000_000_000,
    1_609_459_200_001,
    i64::MAX,
    i64::MIN,
    i64::MAX / 1_000,
    i64::MAX / 1_000 + 1,
    i64::MAX / 1_000_000,
    i64::MAX / 1_000_000 + 1,
    i64::MAX / 1_000_000_000,
    i64::MAX / 1_000_000_000 + 1,
    i64::MIN / 1_000_000_000,
    i64::MIN / 1_000_000_000 - 1,
    -86_400_000,
    1_000,
    -1_000_000_000,
];

const DATE32: [i32; 12] = [0, 1, -1, 18_628, 18_629, 106_751, 106_752, -106_752, -106_753, i32::MAX, i32::MIN, 24_855];

const STRINGS: [&str; 30] = [
    "", "0", "1", "-1", "1.0", "0.1", "0.10", "10", "9", "a", "A", "abc", " 1", "1e3", "+1", "01", "-0", "NaN", "inf", "é", "9223372036854775808", "18446744073709551615", "1970-01-01", "2021-01-01",
    "2021-01-01T00:00:00", "2021-01-01 00:00:00.001", "1970-01-02", "00:00:01", "true", "1.50",
];

/// Boundary pool of `ty` for a comparison against `other`, most important values first.
/// Deterministic; every value conforms to `ty`.
pub fn pair_pool(ty: &Ty, other: &Ty) -> Vec<Val> {
    let b = &ty.base;
    let o = &other.base;
    let mut out: Vec<Val> = vec![];
    if b.is_exact() {
        let (lo, hi) = b.n_range().unwrap();
        for n in [hi, lo] {
            push_unique(&mut out, Val::N(n.to_string()));
        }
        push_unique(&mut out, Val::N("0".into()));
        // the other type's extremes seen from here
        for e in extremes(o) {
            for v in near(b, e) {
                push_unique(&mut out, v);
            }
        }
        // one unit of this type and of the other type
        for v in near(b, Rat { u: i256::from_i128(1), s: o.scale() }) {
            push_unique(&mut out, v);
        }
        push_unique(&mut out, Val::N("1".into()));
        if in_range(b, i256::from_i128(-1)) {
            push_unique(&mut out, Val::N("-1".into()));
        }
        for n in [hi.checked_sub(i256::from_i128(1)).unwrap(), lo.checked_add(i256::from_i128(1)).unwrap()] {
            if in_range(b, n) {
                push_unique(&mut out, Val::N(n.to_string()));
            }
        }
        for l in landmarks() {
            // exact representation only (plus neighbours for the 2^53 / 2^63 family)
            if let Some(fl) = floor_to_scale(l, b.scale()) {
                if in_range(b, fl) && cmp_exact(&fl.to_string(), b.scale(), &l.u.to_string(), l.s) == Ordering::Equal {
                    push_unique(&mut out, Val::N(fl.to_string()));
                }
            }
        }
    } else if b.is_float() {
        let f32ty = matches!(b, Base::F32);
        let mut add = |out: &mut Vec<Val>, v: f64| {
            let v = if f32ty { (v as f32) as f64 } else { v };
            push_unique(out, f(v));
        };
        for v in [0.0, -0.0, 1.0, -1.0, 0.1, 0.5, f64::NAN, f64::INFINITY, f64::NEG_INFINITY] {
            add(&mut out, v);
        }
        for e in extremes(o) {
            let x = rat_f64(e);
            add(&mut out, x);
            add(&mut out, x.next_up());
            add(&mut out, x.next_down());
            if f32ty {
                add(&mut out, ((x as f32).next_up()) as f64);
                add(&mut out, ((x as f32).next_down()) as f64);
            }
        }
        for v in [
            16777216.0,
            16777217.0,
            16777215.0,
            9007199254740992.0,
            9007199254740993.0,
            9007199254740991.0,
            9223372036854775807.0,
            18446744073709551615.0,
            -9223372036854775808.0,
            if f32ty { f32::MAX as f64 } else { f64::MAX },
            if f32ty { f32::MIN_POSITIVE as f64 } else { f64::MIN_POSITIVE },
            if f32ty { f32::MIN as f64 } else { f64::MIN },
            0.10000000149011612,
            999.99,
            1e-10,
            100.0,
            127.0,
            128.0,
            255.5,
            1e38,
            1e76,
            4294967296.0,
            2147483648.0,
        ] {
            add(&mut out, v);
        }
    } else if b.is_string() {
        // texts of the other side's extremes first
        for e in extremes(o) {
            if o.is_exact() {
                push_unique(&mut out, Val::S(rat_text(e)));
            }
        }
        for s in STRINGS {
            push_unique(&mut out, Val::S(s.to_string()));
        }
    } else {
        match b {
            Base::Date32 => {
                for d in DATE32 {
                    push_unique(&mut out, Val::N(d.to_string()));
                }
            }
            _ => {
                for t in TEMPORAL_I64 {
                    push_unique(&mut out, Val::N(t.to_string()));
                }
            }
        }
        // integer extremes of the other side that fit
        for e in extremes(o) {
            if let Some(n) = floor_to_scale(e, 0) {
                if in_range(b, n) {
                    push_unique(&mut out, Val::N(n.to_string()));
                }
            }
        }
    }
    out
}

#[cfg(test)]
mod tests {
    use super::*;
    #[test]
    fn exact_cmp() {
        assert_eq!(cmp_exact("10", 2, "1", 1), Ordering::Equal);
        assert_eq!(cmp_exact("-10", 2, "1", 1), Ordering::Less);
        assert_eq!(cmp_exact("9223372036854775808", 0, "9223372036854775807", 0), Ordering::Greater);
        assert_eq!(cmp_exact("5", -2, "500", 0), Ordering::Equal);
        assert_eq!(cmp_exact("5", -2, "501", 0), Ordering::Less);
        assert_eq!(cmp_exact("0", 3, "-0", 0), Ordering::Equal);
        assert_eq!(cmp_exact("-3", 0, "-30", 1), Ordering::Equal);
        assert_eq!(cmp_exact("-3", 0, "-31", 1), Ordering::Greater);
        assert_eq!(cmp_exact("1", 37, "0", 0), Ordering::Greater);
    }
    #[test]
    fn pools_conform() {
        let ts = all_types();
        for a in &ts {
            for b in &ts {
                let p = pair_pool(a, b);
                assert!(p.len() >= 8, "{} vs {}: {}", a.label(), b.label(), p.len());
                for v in &p {
                    assert!(conforms(&a.base, v), "{} pool has {v:?}", a.label());
                }
                let refs: Vec<&Val> = p.iter().collect();
                build_array(a, &refs).unwrap();
            }
        }
    }
}
