mod c47;
mod types;

fn main() {
    vf_kit::dispatch! {
        "c47" => c47::C47,
    }
}
