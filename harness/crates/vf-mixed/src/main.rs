mod c31a;
mod c47;
mod types;

fn main() {
    vf_kit::dispatch! {
        "c47" => c47::C47,
        "c31a" => c31a::C31a,
    }
}
