mod build;
mod c19;
mod c50;
mod env;
mod scripted;

fn main() {
    vf_kit::dispatch! {
        "c19" => c19::C19,
        "c50" => c50::C50,
    }
}
