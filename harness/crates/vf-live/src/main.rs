mod build;
mod c19;
#[cfg(feature = "c50dev")]
mod c50;
mod env;
mod scripted;

#[cfg(not(feature = "c50dev"))]
fn main() {
    vf_kit::dispatch! {
        "c19" => c19::C19,
    }
}

#[cfg(feature = "c50dev")]
fn main() {
    vf_kit::dispatch! {
        "c19" => c19::C19,
        "c50" => c50::C50,
    }
}
