mod build;
mod c19;
mod env;
mod scripted;

fn main() {
    vf_kit::dispatch! {
        "c19" => c19::C19,
    }
}
