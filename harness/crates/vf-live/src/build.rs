//! Plan construction shared by C19 (and partly C50): turns plain-data input specs into scripted
//! sources and builds the physical plan of a shape — directly for exchange-like operators, through
//! SQL (so that the optimizer inserts the repartitions a real query gets) for joins, aggregates and
//! windows.
use crate::env::{Env, make_env};
use crate::scripted::{End, Item, Monitor, Part, Script, ScriptedExec, ScriptedPartition, ScriptedTable, TailGen, parts};
use arrow::array::{ArrayRef, Int64Array, RecordBatch, StringArray};
use arrow::compute::SortOptions;
use arrow::datatypes::{DataType, Field, Schema, SchemaRef};
use datafusion::catalog::streaming::StreamingTable;
use datafusion::common::DataFusionError;
use datafusion::config::ConfigOptions;
use datafusion::execution::TaskContext;
use datafusion::logical_expr::col;
use datafusion::physical_expr::expressions::Column;
use datafusion::physical_expr::{LexOrdering, Partitioning, PhysicalSortExpr};
use datafusion::physical_optimizer::PhysicalOptimizerRule;
use datafusion::physical_optimizer::ensure_coop::EnsureCooperative;
use datafusion::physical_plan::ExecutionPlan;
use datafusion::physical_plan::coalesce_partitions::CoalescePartitionsExec;
use datafusion::physical_plan::repartition::RepartitionExec;
use datafusion::physical_plan::sorts::sort::SortExec;
use datafusion::physical_plan::sorts::sort_preserving_merge::SortPreservingMergeExec;
use datafusion::physical_plan::streaming::{PartitionStream, StreamingTableExec};
use datafusion::physical_plan::union::{InterleaveExec, UnionExec};
use datafusion::prelude::SessionConfig;
use serde::{Deserialize, Serialize};
use std::sync::Arc;

/// one row: key, increment of the monotone `ts` column (0..=2), value
pub type RowSpec = (u8, u8, i8);

#[derive(Clone, Debug, Serialize, Deserialize, PartialEq)]
pub enum StepSpec {
    Rows(Vec<RowSpec>),
    Pending(u8),
    Error,
}

#[derive(Clone, Debug, Serialize, Deserialize, PartialEq)]
pub struct PartSpec {
    pub steps: Vec<StepSpec>,
}

pub const JOIN_TYPES: [&str; 8] = ["INNER", "LEFT", "RIGHT", "FULL", "LEFT SEMI", "LEFT ANTI", "RIGHT SEMI", "RIGHT ANTI"];

#[derive(Clone, Debug, Serialize, Deserialize, PartialEq)]
pub enum Shape {
    // ---- built directly as physical plans
    RepartHash { n: u8 },
    RepartRoundRobin { n: u8 },
    /// order-preserving repartition of an ordered multi-partition input
    RepartOrdered { n: u8, hash: bool },
    Coalesce,
    /// SortPreservingMergeExec over ordered partitions
    Spm,
    Union,
    /// InterleaveExec over two hash-repartitioned inputs
    Interleave { n: u8 },
    /// SortExec (external sort under a memory limit); per_partition → + SortPreservingMergeExec
    Sort { per_partition: bool, fetch: Option<u8> },
    /// `RecordBatchReceiverStreamBuilder` with one forwarding task per source partition
    Receiver { cap: u8 },
    // ---- through SQL
    HashJoin { jt: u8, collect_left: bool },
    SortMergeJoin { jt: u8 },
    NestedLoopJoin { jt: u8 },
    SymmetricHashJoin { jt: u8 },
    AggGroup,
    AggAll,
    AggDistinct,
    /// streaming aggregation on the ordered key
    AggOrdered,
    WindowBounded,
    WindowFull,
    SortSql,
    TopK,
    UnionSql,
    UnionDistinct,
    FilterNone,
    Limit,
}

impl Shape {
    pub fn name(&self) -> String {
        let s = format!("{self:?}");
        s.split([' ', '{', '(']).next().unwrap_or("?").to_string()
    }
    pub fn is_sql(&self) -> bool {
        self.sql().is_some()
    }
    pub fn needs_order(&self) -> bool {
        matches!(self, Shape::RepartOrdered { .. } | Shape::Spm | Shape::SymmetricHashJoin { .. } | Shape::AggOrdered)
    }
    pub fn declared_unbounded(&self) -> bool {
        matches!(self, Shape::SymmetricHashJoin { .. })
    }
    pub fn uses_b(&self) -> bool {
        matches!(
            self,
            Shape::Union
                | Shape::Interleave { .. }
                | Shape::HashJoin { .. }
                | Shape::SortMergeJoin { .. }
                | Shape::NestedLoopJoin { .. }
                | Shape::SymmetricHashJoin { .. }
                | Shape::UnionSql
                | Shape::UnionDistinct
        )
    }
    pub fn sql(&self) -> Option<String> {
        fn join(jt: u8, on: &str) -> String {
            let jt = JOIN_TYPES[(jt as usize).min(JOIN_TYPES.len() - 1)];
            let cols = if jt.starts_with("LEFT SEMI") || jt.starts_with("LEFT ANTI") {
                "a.k, a.v"
            } else if jt.starts_with("RIGHT SEMI") || jt.starts_with("RIGHT ANTI") {
                "b.k, b.v"
            } else {
                "a.k, a.v, b.v AS bv"
            };
            format!("SELECT {cols} FROM a {jt} JOIN b ON {on}")
        }
        Some(match self {
            Shape::HashJoin { jt, .. } | Shape::SortMergeJoin { jt } => join(*jt, "a.k = b.k"),
            Shape::NestedLoopJoin { jt } => join(*jt, "a.v < b.v"),
            Shape::SymmetricHashJoin { jt } => join(*jt, "a.k = b.k AND a.ts > b.ts - 3 AND a.ts < b.ts + 3"),
            Shape::AggGroup => "SELECT k, count(*) AS c, sum(v) AS s, min(pad) AS p FROM a GROUP BY k".into(),
            Shape::AggAll => "SELECT count(*) AS c, sum(v) AS s FROM a".into(),
            Shape::AggDistinct => "SELECT k, count(DISTINCT v) AS d FROM a GROUP BY k".into(),
            Shape::AggOrdered => "SELECT ts, count(*) AS c, sum(v) AS s FROM a GROUP BY ts".into(),
            Shape::WindowBounded => "SELECT k, ts, sum(v) OVER (PARTITION BY k ORDER BY ts ROWS BETWEEN 2 PRECEDING AND CURRENT ROW) AS w FROM a".into(),
            Shape::WindowFull => "SELECT k, ts, sum(v) OVER (PARTITION BY k ORDER BY ts ROWS BETWEEN UNBOUNDED PRECEDING AND UNBOUNDED FOLLOWING) AS w FROM a".into(),
            Shape::SortSql => "SELECT k, ts, v, pad FROM a ORDER BY v, k".into(),
            Shape::TopK => "SELECT k, ts, v FROM a ORDER BY v DESC, k LIMIT 3".into(),
            Shape::UnionSql => "SELECT k, v FROM a UNION ALL SELECT k, v FROM b".into(),
            Shape::UnionDistinct => "SELECT k, v FROM a UNION SELECT k, v FROM b".into(),
            Shape::FilterNone => "SELECT k, v FROM a WHERE v > 1000".into(),
            Shape::Limit => "SELECT k, v FROM a LIMIT 5".into(),
            _ => return None,
        })
    }
}

#[derive(Clone, Debug, Serialize, Deserialize, PartialEq)]
pub struct PlanSpec {
    pub shape: Shape,
    pub a: Vec<PartSpec>,
    pub b: Vec<PartSpec>,
    pub target_partitions: u8,
    pub batch_size: u16,
    /// memory limit in KiB (None = unbounded pool) and pool kind
    pub mem_kb: Option<u16>,
    pub fair: bool,
    /// length of the payload string column
    pub pad: u16,
    /// StreamingTable / StreamingTableExec (cooperative by itself) instead of the harness leaf
    pub streaming_provider: bool,
}

pub fn schema() -> SchemaRef {
    Arc::new(Schema::new(vec![
        Field::new("k", DataType::Int64, false),
        Field::new("ts", DataType::Int64, false),
        Field::new("v", DataType::Int64, false),
        Field::new("pad", DataType::Utf8, false),
    ]))
}

pub fn make_batch(rows: &[(i64, i64, i64)], pad: usize) -> RecordBatch {
    let k: ArrayRef = Arc::new(Int64Array::from_iter_values(rows.iter().map(|r| r.0)));
    let ts: ArrayRef = Arc::new(Int64Array::from_iter_values(rows.iter().map(|r| r.1)));
    let v: ArrayRef = Arc::new(Int64Array::from_iter_values(rows.iter().map(|r| r.2)));
    let p: ArrayRef = Arc::new(StringArray::from_iter_values(rows.iter().map(|r| {
        let mut s = format!("{:04}", (r.0 * 31 + r.2).rem_euclid(10_000));
        while s.len() < pad {
            s.push('x');
        }
        s
    })));
    RecordBatch::try_new(schema(), vec![k, ts, v, p]).expect("harness batch is well-formed")
}

/// Finite script of one partition; returns the script and the last `ts` used.
pub fn script_of(spec: &PartSpec, pad: usize, ts0: i64) -> (Vec<Item>, i64, usize) {
    let mut ts = ts0;
    let mut items = vec![];
    let mut rows_total = 0;
    for st in &spec.steps {
        match st {
            StepSpec::Rows(rows) => {
                let rs: Vec<(i64, i64, i64)> = rows
                    .iter()
                    .map(|(k, inc, v)| {
                        ts += (*inc).min(2) as i64;
                        ((*k % 6) as i64, ts, *v as i64)
                    })
                    .collect();
                rows_total += rs.len();
                items.push(Item::Batch(make_batch(&rs, pad)));
            }
            StepSpec::Pending(n) => items.push(Item::Pending(*n as u32)),
            StepSpec::Error => items.push(Item::Error("vf-live injected source error".into())),
        }
    }
    (items, ts, rows_total)
}

/// Endless tail of partition `p`: batch n has two rows whose `ts` keeps increasing.
pub fn tail_gen(p: usize, ts0: i64) -> TailGen {
    tail_gen_keys(p, ts0, 6)
}

/// `nkeys` distinct key values (1 = every row has key 0: fully skewed hash partitioning)
pub fn tail_gen_keys(p: usize, ts0: i64, nkeys: u8) -> TailGen {
    let nk = nkeys.clamp(1, 6) as i64;
    Arc::new(move |n: u64| {
        let n = n as i64;
        let t = ts0 + 1 + n;
        make_batch(&[((n + p as i64) % nk, t, n % 7), ((n + 3) % nk, t, (n + p as i64) % 5)], 0)
    })
}

pub struct Built {
    pub env: Env,
    pub monitor: Monitor,
    /// None for the `Receiver` shape (a stream builder, not a plan)
    pub plan: Option<Arc<dyn ExecutionPlan>>,
    pub task_ctx: Arc<TaskContext>,
    /// source leaves of the Receiver shape
    pub receiver_sources: Vec<Arc<dyn ExecutionPlan>>,
    pub input_rows: usize,
}

pub enum BuildError {
    /// the engine rejected the combination cleanly
    Rejected(String),
    Harness(String),
}

fn ts_ordering() -> Option<LexOrdering> {
    LexOrdering::new(vec![PhysicalSortExpr::new(Arc::new(Column::new("ts", 1)), SortOptions { descending: false, nulls_first: false })])
}

fn key_exprs() -> Vec<Arc<dyn datafusion::physical_expr::PhysicalExpr>> {
    vec![Arc::new(Column::new("k", 0))]
}

fn leaf(spec: &PlanSpec, parts: Vec<Part>, ordered: bool, unbounded: bool) -> Result<Arc<dyn ExecutionPlan>, DataFusionError> {
    let ordering = if ordered { ts_ordering() } else { None };
    if spec.streaming_provider {
        let ps: Vec<Arc<dyn PartitionStream>> = parts.into_iter().map(|part| Arc::new(ScriptedPartition { schema: schema(), part }) as Arc<dyn PartitionStream>).collect();
        Ok(Arc::new(StreamingTableExec::try_new(schema(), ps, None, ordering, unbounded, None)?))
    } else {
        Ok(Arc::new(ScriptedExec::new(schema(), None, parts, ordering, unbounded)?))
    }
}

fn provider(spec: &PlanSpec, parts: Vec<Part>, ordered: bool, unbounded: bool) -> Result<Arc<dyn datafusion::catalog::TableProvider>, DataFusionError> {
    if spec.streaming_provider {
        let ps: Vec<Arc<dyn PartitionStream>> = parts.into_iter().map(|part| Arc::new(ScriptedPartition { schema: schema(), part }) as Arc<dyn PartitionStream>).collect();
        let mut t = StreamingTable::try_new(schema(), ps)?.with_infinite_table(unbounded);
        if ordered {
            t = t.with_sort_order(vec![col("ts").sort(true, false)]);
        }
        Ok(Arc::new(t))
    } else {
        Ok(Arc::new(ScriptedTable { schema: schema(), parts, order_by: if ordered { vec![(1, false)] } else { vec![] }, unbounded }))
    }
}

/// How every source partition continues after its scripted items.
#[derive(Clone, Copy, Debug, PartialEq, Eq)]
pub enum Ending {
    Finish,
    /// endless always-ready tail, capped at this many batches
    Tail(u64),
    /// same, with this many distinct key values in the tail (1 = fully skewed)
    TailKeys(u64, u8),
    HangParked,
    HangBusy,
}

pub async fn build(spec: &PlanSpec, ending: Ending, force_coop: bool) -> Result<Built, BuildError> {
    let shape = &spec.shape;
    let tp = spec.target_partitions.clamp(1, 4) as usize;
    let mut config = SessionConfig::new()
        .with_target_partitions(tp)
        .with_batch_size(spec.batch_size.max(1) as usize)
        .with_sort_spill_reservation_bytes(0)
        .with_sort_in_place_threshold_bytes(0);
    config.options_mut().optimizer.prefer_hash_join = !matches!(shape, Shape::SortMergeJoin { .. });
    if let Shape::HashJoin { collect_left: true, .. } = shape {
        config.options_mut().optimizer.repartition_joins = false;
    }
    if matches!(shape, Shape::AggOrdered) {
        config.options_mut().optimizer.prefer_existing_sort = true;
    }
    let env = make_env(config, spec.mem_kb.map(|kb| ((kb as usize).max(1) * 1024, spec.fair))).map_err(BuildError::Harness)?;
    let monitor = Monitor::new();
    let pad = spec.pad as usize;
    let ordered = shape.needs_order();
    let unbounded = shape.declared_unbounded();
    let mut input_rows = 0;
    let mut mk = |specs: &[PartSpec], side: usize| -> Vec<Part> {
        let scripts: Vec<Script> = specs
            .iter()
            .enumerate()
            .map(|(p, ps)| {
                let (items, last_ts, rows) = script_of(ps, pad, 0);
                input_rows += rows;
                match ending {
                    Ending::Finish => Script::finite(items),
                    Ending::Tail(cap) => Script { items, tail: Some(tail_gen(p + 3 * side, last_ts)), tail_cap: cap, tail_pending_every: 0, end: End::Finish },
                    Ending::TailKeys(cap, nkeys) => Script { items, tail: Some(tail_gen_keys(p + 3 * side, last_ts, nkeys)), tail_cap: cap, tail_pending_every: 0, end: End::Finish },
                    Ending::HangParked => Script { end: End::HangParked, ..Script::finite(items) },
                    Ending::HangBusy => Script { end: End::HangBusy, ..Script::finite(items) },
                }
            })
            .collect();
        parts(&monitor, scripts)
    };
    let a_parts = mk(&spec.a, 0);
    let b_parts = if shape.uses_b() { mk(&spec.b, 1) } else { vec![] };
    let task_ctx = env.ctx.task_ctx();
    let rej = |e: DataFusionError| BuildError::Rejected(e.to_string());

    if let Some(sql) = shape.sql() {
        env.ctx.register_table("a", provider(spec, a_parts, ordered, unbounded).map_err(rej)?).map_err(rej)?;
        if shape.uses_b() {
            env.ctx.register_table("b", provider(spec, b_parts, ordered, unbounded).map_err(rej)?).map_err(rej)?;
        }
        let df = env.ctx.sql(&sql).await.map_err(rej)?;
        let plan = df.create_physical_plan().await.map_err(rej)?;
        return Ok(Built { env, monitor, plan: Some(plan), task_ctx, receiver_sources: vec![], input_rows });
    }

    let a = leaf(spec, a_parts, ordered, unbounded).map_err(rej)?;
    let n_of = |n: u8| (n.clamp(1, 4)) as usize;
    let plan: Arc<dyn ExecutionPlan> = match shape {
        Shape::RepartHash { n } => Arc::new(RepartitionExec::try_new(a, Partitioning::Hash(key_exprs(), n_of(*n))).map_err(rej)?),
        Shape::RepartRoundRobin { n } => Arc::new(RepartitionExec::try_new(a, Partitioning::RoundRobinBatch(n_of(*n))).map_err(rej)?),
        Shape::RepartOrdered { n, hash } => {
            let p = if *hash { Partitioning::Hash(key_exprs(), n_of(*n)) } else { Partitioning::RoundRobinBatch(n_of(*n)) };
            let r: Arc<dyn ExecutionPlan> = Arc::new(RepartitionExec::try_new(a, p).map_err(rej)?.with_preserve_order());
            match ts_ordering() {
                Some(o) => Arc::new(SortPreservingMergeExec::new(o, r)),
                None => r,
            }
        }
        Shape::Coalesce => Arc::new(CoalescePartitionsExec::new(a)),
        Shape::Spm => match ts_ordering() {
            Some(o) => Arc::new(SortPreservingMergeExec::new(o, a)),
            None => a,
        },
        Shape::Union => {
            let b = leaf(spec, b_parts, ordered, unbounded).map_err(rej)?;
            UnionExec::try_new(vec![a, b]).map_err(rej)?
        }
        Shape::Interleave { n } => {
            let b = leaf(spec, b_parts, ordered, unbounded).map_err(rej)?;
            let ra: Arc<dyn ExecutionPlan> = Arc::new(RepartitionExec::try_new(a, Partitioning::Hash(key_exprs(), n_of(*n))).map_err(rej)?);
            let rb: Arc<dyn ExecutionPlan> = Arc::new(RepartitionExec::try_new(b, Partitioning::Hash(key_exprs(), n_of(*n))).map_err(rej)?);
            Arc::new(InterleaveExec::try_new(vec![ra, rb]).map_err(rej)?)
        }
        Shape::Sort { per_partition, fetch } => {
            let Some(order) = LexOrdering::new(vec![
                PhysicalSortExpr::new(Arc::new(Column::new("v", 2)), SortOptions { descending: false, nulls_first: false }),
                PhysicalSortExpr::new(Arc::new(Column::new("pad", 3)), SortOptions { descending: true, nulls_first: false }),
            ]) else {
                return Err(BuildError::Harness("empty ordering".into()));
            };
            let fetch = fetch.map(|f| f.max(1) as usize);
            if *per_partition {
                let s = SortExec::new(order.clone(), a).with_preserve_partitioning(true).with_fetch(fetch);
                Arc::new(SortPreservingMergeExec::new(order, Arc::new(s)).with_fetch(fetch))
            } else {
                let c: Arc<dyn ExecutionPlan> = Arc::new(CoalescePartitionsExec::new(a));
                Arc::new(SortExec::new(order, c).with_fetch(fetch))
            }
        }
        Shape::Receiver { .. } => {
            let a = if force_coop { EnsureCooperative::new().optimize(a, &ConfigOptions::new()).map_err(rej)? } else { a };
            return Ok(Built { env, monitor, plan: None, task_ctx, receiver_sources: vec![a], input_rows });
        }
        _ => return Err(BuildError::Harness(format!("shape {shape:?} has no builder"))),
    };
    // what the default physical optimizer does last for every plan: make sure leaves and exchanges yield
    let plan = if force_coop { EnsureCooperative::new().optimize(plan, &ConfigOptions::new()).map_err(rej)? } else { plan };
    Ok(Built { env, monitor, plan: Some(plan), task_ctx, receiver_sources: vec![], input_rows })
}

/// operator names of a plan (pre-order)
pub fn plan_ops(plan: &Arc<dyn ExecutionPlan>, out: &mut Vec<String>) {
    let mut name = plan.name().to_string();
    if let Some(r) = plan.downcast_ref::<RepartitionExec>() {
        let kind = match r.partitioning() {
            Partitioning::Hash(..) => "hash",
            Partitioning::RoundRobinBatch(_) => "rr",
            _ => "other",
        };
        name = format!("RepartitionExec({kind}{})", if r.preserve_order() { ",ordered" } else { "" });
    }
    if let Some(h) = plan.downcast_ref::<datafusion::physical_plan::joins::HashJoinExec>() {
        name = format!("HashJoinExec({:?})", h.partition_mode());
    }
    if let Some(a) = plan.downcast_ref::<datafusion::physical_plan::aggregates::AggregateExec>() {
        name = format!("AggregateExec({:?},{:?})", a.mode(), a.input_order_mode());
    }
    out.push(name);
    for c in plan.children() {
        plan_ops(c, out);
    }
}

pub fn spill_count(plan: &Arc<dyn ExecutionPlan>) -> usize {
    let mut total = plan.metrics().and_then(|m| m.spill_count()).unwrap_or(0);
    for c in plan.children() {
        total += spill_count(c);
    }
    total
}
