//! C19 — dropping a query stream releases resources and stops background work; running queries
//! keep yielding to the runtime. Level: fault_enumeration (the "fault" is the drop point).
//!
//! Domain. A case = plan shape × scripted inputs (1–3 partitions per input, 0–4 steps each:
//! `Rows | Pending | Error`) × runtime flavour (current-thread / multi-thread with 2 workers) ×
//! knobs (target_partitions, batch_size, memory limit + pool kind, payload width, harness leaf vs
//! `StreamingTable`). Shapes built directly as physical plans: RepartitionExec hash / round-robin /
//! order-preserving, CoalescePartitionsExec, SortPreservingMergeExec, UnionExec, InterleaveExec,
//! SortExec (external sort, with and without per-partition sort + merge, with fetch),
//! `RecordBatchReceiverStreamBuilder`. Shapes built through SQL (the optimizer adds the
//! repartitions / merges a real query gets): hash join (Partitioned / CollectLeft), sort-merge
//! join, nested-loop join, symmetric hash join (inputs declared unbounded + ordered), grouped /
//! global / distinct / ordered aggregation, bounded and full-frame windows, ORDER BY, TopK,
//! UNION ALL, UNION, an all-rejecting filter, LIMIT. Labels `op=…` record the operators actually
//! present in the executed plan.
//!
//! Kind `Drop`: one full run determines the number N of output items; then **every** drop point
//! k = 0 (stream created, never polled), 1..N (after the k-th item, which may be the injected
//! error or a ResourcesExhausted error), and completion is executed on a fresh plan inside the
//! same `run` (N > 16: 17 evenly spaced points). Oracle after `drop(stream)` + `drop(plan)`:
//! within ≤ 10 000 `yield_now`s (current-thread) / ≤ 10 000 sleeps of 1 ms (multi-thread; the only
//! wall-clock bound) — no source stream is alive (Weak tokens), `pool.reserved()==0`,
//! `used_disk_space()==0`, no file below the spill directory, and the runtime has no alive task
//! left (`RuntimeMetrics::num_alive_tasks`; nothing else runs on the per-case runtime).
//! Grounding: rustdoc of `execute_stream` ("Dropping the stream will abort the execution of the
//! query, and free up any allocated resources"), `SpawnedTask` ("aborting on Drop").
//!
//! Hanging sources (`hang` = Parked | Busy, half of the Drop cases): after its script every source
//! partition stays `Pending` forever — without waking anybody (a source waiting for data that
//! never comes) or waking its task every time (busy polling). The query then never completes; the
//! drop points are k = 0..N plus "at quiescence" (stream pending, no source progress for 64
//! scheduler rounds / 25 ms), where blocking operators sit on all their buffered input, parked
//! tasks, reservations and spill files. Only cancellation can release those, so this is where a
//! missing abort-on-drop shows (with finite sources the tasks simply run to their end).
//!
//! Kind `Coop`: every source partition continues with an endless always-ready tail (declared
//! bounded so that the planner accepts blocking shapes; capped at 30 000 batches as a harness
//! safety net), the plan went through `EnsureCooperative` (SQL: default optimizer; direct plans: the
//! rule is applied explicitly, as the default optimizer would). On a current-thread runtime the
//! query runs as a task next to a watcher task that records the source-batch counter every time it
//! is scheduled: the largest gap must be ≤ 8 192 source batches. (DESIGN.md says 4 096; the sound
//! bound is tokio's: a task that yielded is rescheduled after at most `event_interval` = 61 other
//! task polls, each limited to a budget of 128 source batches by the cooperative wrappers, i.e.
//! 7 808. Observed maximum on the unchanged tree: < 4 096; a non-yielding plan shows 30 000+.) Mode `Abort`: the watcher aborts the query task at its n-th scheduling (count based, no
//! clock) — the join handle must report cancellation and the release oracle above must hold.
//! Mode `Timeout`: `tokio::time::timeout(3 ms, collect)` must return `Elapsed` (then the release
//! oracle) — reaching the source cap first is accepted only if the watcher was never starved.
//!
//! Kind `PartialDrop` (1 case in 6; added after seeded defect C19-a was missed): exchange shapes
//! (hash / round-robin / order-preserving RepartitionExec, InterleaveExec; 2–4 output partitions)
//! over endless never-Pending sources whose tail has 1, 2 or 6 distinct keys (1 = every row goes to
//! one "hot" output), one stream per output partition on the multi-thread runtime. After `take`
//! batches the streams that received data and those that did not are dropped in a generated order
//! (hot first / cold first / together) with a generated amount of source progress in between, then
//! the plan; then the release oracle (10 000 x 1 ms). A task that no longer yields cannot be aborted
//! and keeps its source alive → violation (the harness then stops the sources via a flag).
//! Seeded defect C19-a (`pull_from_input` counts only batches sent to a connected receiver towards
//! its periodic yield): detected — `tools/mutrun seeded/C19-a/patch.diff -- ./check C19 quick` →
//! VIOLATION (RepartHash, tail-keys=1, HotFirst).
//!
//! Non-trivial: (Drop) at some drop point 0 < k < completion something was held at the moment of
//! the drop (live source stream, alive task, reservation, spill file); (Coop) the query was still running when cancelled.
//!
//! Deviations from DESIGN.md: Parquet scan is not part of the shapes (no scripted liveness token
//! inside a file scan; C24/C26 own file scans). Multi-partition outputs are consumed through
//! `execute_stream` (CoalescePartitionsExec on top) or, case flag `coalesce=false`, as one stream per
//! output partition polled round-robin and dropped together.
//!
//! Genuine defect found (open in known_findings.json, signature
//! `ensure-coop-skips-leaf-under-coop-exchange`, case regressions/C19/c19/…, proposed repair
//! fixes/C19-ensure-coop-eager-ancestor-resets-context.diff): `EnsureCooperative` does not wrap a
//! NonCooperative leaf when its nearest cooperative-or-eager ancestor is an exchange that is both
//! Cooperative and Eager (CoalescePartitionsExec, RepartitionExec, SortPreservingMergeExec): the
//! exchange polls the subtree from its own tasks, so e.g. `AggregateExec(Partial)` / `SortExec`
//! over an always-ready custom source never yields and abort / timeout cannot take effect.
//! `known_signature` builds the plan of a Coop case and matches when a harness leaf is left without
//! a `CooperativeExec` parent; those cases are excluded (counted in `known_excluded`), everything
//! else (StreamingTable sources, wrapped leaves, all Drop cases) continues.
//!
//! Sensitivity probes (tools/mutrun … ./check C19 quick):
//!  1. common-runtime/src/common.rs: `SpawnedTask::drop` no longer aborts → VIOLATION (hang=Parked,
//!     RepartitionExec: "still held after 10000 scheduler steps: live_streams 1, tasks 2").
//!  2. physical-plan/src/repartition/mod.rs: `abort_helper` Arc leaked (`mem::forget` of a clone)
//!     → VIOLATION (same shape). Before hanging sources were added this probe stayed green: with
//!     finite inputs the un-aborted tasks simply run to their end within the settle bound.
//!  3. physical-plan/src/streaming.rs: `StreamingTableExec::execute` without `make_cooperative`
//!     → VIOLATION "query does not yield: … watcher … not scheduled for 30000 consecutive source
//!     batches" (Coop kind, provider=streaming-table, CoalescePartitionsExec / SHJ / aggregates).
use crate::build::*;
use crate::env::Held;
use datafusion::common::DataFusionError;
use datafusion::execution::SendableRecordBatchStream;
use datafusion::physical_plan::stream::RecordBatchReceiverStreamBuilder;
use datafusion::physical_plan::{ExecutionPlanProperties, execute_stream};
use futures::StreamExt;
use futures::stream::SelectAll;
use proptest::prelude::*;
use serde::{Deserialize, Serialize};
use serde_json::json;
use std::sync::Arc;
use std::sync::atomic::{AtomicBool, AtomicU64, Ordering};
use std::time::Duration;
use vf_kit::engine::*;

pub struct C19;

#[derive(Clone, Copy, Debug, Serialize, Deserialize, PartialEq)]
pub enum Hang {
    /// sources end after their script
    No,
    /// sources stay `Pending` forever after their script without waking anybody
    Parked,
    /// sources stay `Pending` forever after their script, waking their task every time
    Busy,
}

#[derive(Clone, Debug, Serialize, Deserialize, PartialEq)]
pub enum Kind {
    Drop,
    /// watcher aborts the query task at its n-th scheduling
    CoopAbort {
        after: u8,
    },
    CoopTimeout,
    /// Exchange shape over endless never-Pending sources, one stream per output partition, the
    /// streams dropped in a generated order (multi-thread runtime)
    PartialDrop {
        order: DropOrder,
        /// distinct key values in the endless tail (1 = every row goes to one output partition)
        nkeys: u8,
        /// output batches to take before the first drop
        take: u8,
        /// source batches (x16) to let pass between the first and the second drop
        gap: u8,
    },
}

#[derive(Clone, Copy, Debug, Serialize, Deserialize, PartialEq)]
pub enum DropOrder {
    /// first the output streams that received data, later the ones that received none
    HotFirst,
    ColdFirst,
    Together,
}

#[derive(Clone, Debug, Serialize, Deserialize)]
pub struct Case {
    pub kind: Kind,
    pub plan: PlanSpec,
    /// multi-thread runtime with 2 workers (Drop kind only)
    pub mt: bool,
    /// consume multi-partition outputs through CoalescePartitionsExec (else one stream per partition)
    pub coalesce: bool,
    /// Drop kind: what the sources do after their script
    pub hang: Hang,
}

const TAIL_CAP: u64 = 30_000;
const MAX_GAP: u64 = 8_192;
const SETTLE_STEPS: usize = 10_000;
pub const SIG_UNWRAPPED_LEAF: &str = "ensure-coop-skips-leaf-under-coop-exchange";

/// a harness leaf (NonCooperative) that EnsureCooperative did not wrap
fn has_unwrapped_leaf(plan: &Arc<dyn datafusion::physical_plan::ExecutionPlan>, parent_is_coop_wrapper: bool) -> bool {
    if plan.name() == "ScriptedExec" {
        return !parent_is_coop_wrapper;
    }
    let me = plan.name() == "CooperativeExec";
    plan.children().iter().any(|c| has_unwrapped_leaf(c, me))
}

// ---------------------------------------------------------------------------------------------
// generator

fn rows_strategy(max_rows: usize) -> impl Strategy<Value = Vec<RowSpec>> {
    prop::collection::vec((0u8..6, 0u8..3, -9i8..10), 1..=max_rows)
}

fn part_strategy(max_steps: usize, max_rows: usize, errors: bool) -> impl Strategy<Value = PartSpec> {
    let step = if errors {
        prop_oneof![8 => rows_strategy(max_rows).prop_map(StepSpec::Rows), 2 => (1u8..4).prop_map(StepSpec::Pending), 1 => Just(StepSpec::Error)].boxed()
    } else {
        prop_oneof![8 => rows_strategy(max_rows).prop_map(StepSpec::Rows), 2 => (1u8..4).prop_map(StepSpec::Pending)].boxed()
    };
    prop::collection::vec(step, 0..=max_steps).prop_map(|steps| PartSpec { steps })
}

fn input_strategy(tier: Tier, errors: bool) -> impl Strategy<Value = Vec<PartSpec>> {
    let (steps, rows) = tier.pick((5, 8), (7, 14));
    prop::collection::vec(part_strategy(steps, rows, errors), 1..=3)
}

fn shape_strategy() -> BoxedStrategy<Shape> {
    let n = 1u8..=4;
    let jt = 0u8..8;
    prop_oneof![
        2 => n.clone().prop_map(|n| Shape::RepartHash { n }),
        2 => n.clone().prop_map(|n| Shape::RepartRoundRobin { n }),
        2 => (n.clone(), any::<bool>()).prop_map(|(n, hash)| Shape::RepartOrdered { n, hash }),
        2 => Just(Shape::Coalesce),
        2 => Just(Shape::Spm),
        2 => Just(Shape::Union),
        2 => n.clone().prop_map(|n| Shape::Interleave { n }),
        3 => (any::<bool>(), prop::option::weighted(0.3, 1u8..6)).prop_map(|(per_partition, fetch)| Shape::Sort { per_partition, fetch }),
        2 => (1u8..4).prop_map(|cap| Shape::Receiver { cap }),
        3 => (jt.clone(), any::<bool>()).prop_map(|(jt, collect_left)| Shape::HashJoin { jt, collect_left }),
        2 => jt.clone().prop_map(|jt| Shape::SortMergeJoin { jt }),
        2 => jt.clone().prop_map(|jt| Shape::NestedLoopJoin { jt }),
        2 => jt.clone().prop_map(|jt| Shape::SymmetricHashJoin { jt }),
        3 => Just(Shape::AggGroup),
        1 => Just(Shape::AggAll),
        1 => Just(Shape::AggDistinct),
        1 => Just(Shape::AggOrdered),
        2 => Just(Shape::WindowBounded),
        1 => Just(Shape::WindowFull),
        2 => Just(Shape::SortSql),
        1 => Just(Shape::TopK),
        1 => Just(Shape::UnionSql),
        1 => Just(Shape::UnionDistinct),
        1 => Just(Shape::FilterNone),
        1 => Just(Shape::Limit),
    ]
    .boxed()
}

fn spills(shape: &Shape) -> bool {
    matches!(shape, Shape::Sort { .. } | Shape::SortSql | Shape::AggGroup | Shape::AggDistinct | Shape::SortMergeJoin { .. } | Shape::HashJoin { .. } | Shape::NestedLoopJoin { .. } | Shape::WindowFull)
}

fn partial_strategy(tier: Tier) -> BoxedStrategy<Case> {
    let n = 2u8..=4;
    let shape = prop_oneof![
        4 => n.clone().prop_map(|n| Shape::RepartHash { n }),
        2 => n.clone().prop_map(|n| Shape::RepartRoundRobin { n }),
        2 => (n.clone(), any::<bool>()).prop_map(|(n, hash)| Shape::RepartOrdered { n, hash }),
        2 => n.clone().prop_map(|n| Shape::Interleave { n }),
    ];
    let order = prop_oneof![Just(DropOrder::HotFirst), Just(DropOrder::ColdFirst), Just(DropOrder::Together)];
    let nkeys = prop_oneof![3 => Just(1u8), 1 => Just(2u8), 1 => Just(6u8)];
    (shape, order, nkeys, 0u8..4, 0u8..8, input_strategy(tier, false), input_strategy(tier, false), prop_oneof![Just(2u16), Just(8192u16)], prop::bool::weighted(0.2))
        .prop_map(|(shape, order, nkeys, take, gap, a, b, batch_size, streaming_provider)| {
            let b = if shape.uses_b() { b } else { vec![] };
            Case {
                kind: Kind::PartialDrop { order, nkeys, take, gap },
                plan: PlanSpec { shape, a, b, target_partitions: 2, batch_size, mem_kb: None, fair: false, pad: 0, streaming_provider },
                mt: true,
                coalesce: false,
                hang: Hang::No,
            }
        })
        .boxed()
}

fn case_strategy(tier: Tier) -> BoxedStrategy<Case> {
    prop_oneof![5 => main_strategy(tier), 1 => partial_strategy(tier)].boxed()
}

fn main_strategy(tier: Tier) -> BoxedStrategy<Case> {
    let kind = prop_oneof![8 => Just(Kind::Drop), 1 => (1u8..6).prop_map(|after| Kind::CoopAbort { after }), 1 => Just(Kind::CoopTimeout)];
    (kind, shape_strategy(), prop::bool::weighted(0.3))
        .prop_flat_map(move |(kind, shape, errors)| {
            let drop = kind == Kind::Drop;
            let errors = drop && errors;
            let mem = if drop && spills(&shape) {
                prop_oneof![1 => Just(None), 3 => prop_oneof![Just(4u16), Just(8u16), Just(16u16), Just(32u16), Just(64u16)].prop_map(Some)].boxed()
            } else {
                Just(None).boxed()
            };
            let pad = if drop && spills(&shape) { prop_oneof![Just(0u16), Just(40u16), Just(200u16), Just(600u16)].boxed() } else { Just(0u16).boxed() };
            (
                Just(kind),
                Just(shape),
                input_strategy(tier, errors),
                input_strategy(tier, errors),
                1u8..=4,
                prop_oneof![Just(2u16), Just(5u16), Just(8192u16)],
                mem,
                any::<bool>(),
                pad,
                any::<bool>(),
                (prop::bool::weighted(0.3), prop::bool::weighted(0.75), prop_oneof![2 => Just(Hang::No), 1 => Just(Hang::Parked), 1 => Just(Hang::Busy)]),
            )
        })
        .prop_map(|(kind, shape, a, b, target_partitions, batch_size, mem_kb, fair, pad, streaming_provider, (mt, coalesce, hang))| {
            let hang = if kind == Kind::Drop { hang } else { Hang::No };
            let b = if shape.uses_b() { b } else { vec![] };
            let mt = mt && kind == Kind::Drop;
            Case { kind, plan: PlanSpec { shape, a, b, target_partitions, batch_size, mem_kb, fair, pad, streaming_provider }, mt, coalesce, hang }
        })
        .boxed()
}

// ---------------------------------------------------------------------------------------------
// execution

/// The thing being dropped: one or several output streams (+ nothing else).
struct Running {
    streams: SelectAll<SendableRecordBatchStream>,
}

fn open(built: &Built, case: &Case) -> Result<Running, DataFusionError> {
    let mut streams = SelectAll::new();
    if let Shape::Receiver { cap } = &case.plan.shape {
        let mut builder = RecordBatchReceiverStreamBuilder::new(schema(), (*cap).max(1) as usize);
        for src in &built.receiver_sources {
            for p in 0..src.output_partitioning().partition_count() {
                let mut input = src.execute(p, built.task_ctx.clone())?;
                let tx = builder.tx();
                builder.spawn(async move {
                    while let Some(item) = input.next().await {
                        let is_err = item.is_err();
                        if tx.send(item).await.is_err() || is_err {
                            break;
                        }
                    }
                    Ok(())
                });
            }
        }
        streams.push(builder.build());
        return Ok(Running { streams });
    }
    let Some(plan) = &built.plan else {
        return Err(DataFusionError::Internal("no plan".into()));
    };
    let n = plan.output_partitioning().partition_count();
    if case.coalesce || n <= 1 {
        streams.push(execute_stream(plan.clone(), built.task_ctx.clone())?);
    } else {
        for p in 0..n {
            streams.push(plan.execute(p, built.task_ctx.clone())?);
        }
    }
    Ok(Running { streams })
}

#[derive(Debug, Default)]
struct Point {
    items: usize,
    rows: usize,
    errored: Option<String>,
    completed: bool,
    /// hang mode: nothing moved any more although the stream is still pending
    quiescent: bool,
    live_at_drop: usize,
    tasks_at_drop: usize,
    /// what was held at the moment of the drop
    at_drop: Held,
    held: Held,
    settle_steps: usize,
    ops: Vec<String>,
    spills: usize,
    streams_created: usize,
    source_batches: u64,
}

async fn settle(built: &Built, mt: bool) -> (Held, usize) {
    let mut h = built.env.held(&built.monitor, 0);
    for i in 0..SETTLE_STEPS {
        if h.clean() {
            return (h, i);
        }
        if mt {
            tokio::time::sleep(Duration::from_millis(1)).await;
        } else {
            tokio::task::yield_now().await;
        }
        h = built.env.held(&built.monitor, 0);
    }
    (h, SETTLE_STEPS)
}

fn ending_of(case: &Case) -> Ending {
    match case.hang {
        Hang::No => Ending::Finish,
        Hang::Parked => Ending::HangParked,
        Hang::Busy => Ending::HangBusy,
    }
}

/// Next output item, or `Some(None)` once the query is quiescent: the stream is `Pending` and the
/// sources have not handed out anything for 64 scheduler rounds (current-thread) / 25 ms
/// (multi-thread). Only decides *where* the drop happens, never the verdict.
async fn next_or_quiescent(running: &mut Running, monitor: &crate::scripted::Monitor, mt: bool) -> Option<Option<Result<arrow::array::RecordBatch, DataFusionError>>> {
    let mut idle = 0;
    let mut seen = (monitor.batches(), monitor.errors());
    loop {
        if let std::task::Poll::Ready(item) = futures::poll!(running.streams.next()) {
            return item.map(Some);
        }
        if mt {
            tokio::time::sleep(Duration::from_millis(1)).await;
        } else {
            tokio::task::yield_now().await;
        }
        let now = (monitor.batches(), monitor.errors());
        if now == seen {
            idle += 1;
            if idle >= if mt { 25 } else { 64 } {
                return Some(None);
            }
        } else {
            seen = now;
            idle = 0;
        }
    }
}

enum PointError {
    Rejected(String),
    Harness(String),
}

/// Execute a fresh copy of the plan, take `k` items (or run to completion), drop, settle.
async fn run_point(case: &Case, k: usize) -> Result<Point, PointError> {
    let mut built = match build(&case.plan, ending_of(case), false).await {
        Ok(b) => b,
        Err(BuildError::Rejected(m)) => return Err(PointError::Rejected(m)),
        Err(BuildError::Harness(m)) => return Err(PointError::Harness(m)),
    };
    let mut pt = Point::default();
    if let Some(p) = &built.plan {
        plan_ops(p, &mut pt.ops);
    } else {
        pt.ops.push("RecordBatchReceiverStream".into());
    }
    let mut running = match open(&built, case) {
        Ok(r) => r,
        Err(e) => return Err(PointError::Rejected(format!("execute: {e}"))),
    };
    while pt.items < k {
        let next = if case.hang == Hang::No { running.streams.next().await.map(Some) } else { next_or_quiescent(&mut running, &built.monitor, case.mt).await };
        match next {
            None => {
                pt.completed = true;
                break;
            }
            Some(None) => {
                pt.quiescent = true;
                break;
            }
            Some(Some(Ok(b))) => {
                pt.items += 1;
                pt.rows += b.num_rows();
            }
            Some(Some(Err(e))) => {
                pt.items += 1;
                pt.errored = Some(e.to_string());
                break;
            }
        }
    }
    pt.live_at_drop = built.monitor.live_streams();
    pt.tasks_at_drop = tokio::runtime::Handle::current().metrics().num_alive_tasks();
    pt.at_drop = built.env.held(&built.monitor, 0);
    if let Some(p) = &built.plan {
        pt.spills = spill_count(p);
    }
    drop(running);
    built.plan = None;
    built.receiver_sources.clear();
    let (held, steps) = settle(&built, case.mt).await;
    pt.held = held;
    pt.settle_steps = steps;
    pt.streams_created = built.monitor.streams_created();
    pt.source_batches = built.monitor.batches();
    Ok(pt)
}

fn runtime(mt: bool) -> std::io::Result<tokio::runtime::Runtime> {
    if mt { tokio::runtime::Builder::new_multi_thread().worker_threads(2).enable_all().build() } else { tokio::runtime::Builder::new_current_thread().enable_all().build() }
}

fn drop_points(n: usize) -> Vec<usize> {
    // k = 0..=n exhaustively for small n; "completion" (k = MAX) is the full run
    if n <= 16 {
        (0..=n).collect()
    } else {
        let mut v: Vec<usize> = (0..=16).map(|i| i * n / 16).collect();
        v.dedup();
        v
    }
}

fn base_labels(case: &Case) -> Vec<String> {
    let p = &case.plan;
    let mut l = vec![
        format!("kind={}", match case.kind {
            Kind::Drop => "drop",
            Kind::CoopAbort { .. } => "coop-abort",
            Kind::CoopTimeout => "coop-timeout",
            Kind::PartialDrop { .. } => "partial-drop",
        }),
        format!("shape={}", p.shape.name()),
        format!("rt={}", if case.mt { "multi" } else { "current" }),
        format!("hang={:?}", case.hang),
        format!("provider={}", if p.streaming_provider { "streaming-table" } else { "scripted-exec" }),
    ];
    if p.mem_kb.is_some() {
        l.push("mem-limit".into());
    }
    if !case.coalesce {
        l.push("per-partition-streams".into());
    }
    match &p.shape {
        Shape::HashJoin { jt, .. } | Shape::SortMergeJoin { jt } | Shape::NestedLoopJoin { jt } | Shape::SymmetricHashJoin { jt } => l.push(format!("jt={}", JOIN_TYPES[(*jt as usize).min(7)])),
        _ => {}
    }
    l
}

fn run_drop(case: &Case) -> CaseResult {
    let rt = match runtime(case.mt) {
        Ok(rt) => rt,
        Err(e) => return CaseResult::inconclusive(format!("runtime: {e}")),
    };
    let mut labels = base_labels(case);
    let res = rt.block_on(async {
        let full = match run_point(case, usize::MAX).await {
            Ok(p) => p,
            Err(PointError::Rejected(m)) => return CaseResult::discard(format!("rejected: {}", truncate(&m, 50))),
            Err(PointError::Harness(m)) => return CaseResult::inconclusive(format!("harness: {m}")),
        };
        if std::env::var_os("VF_LIVE_DEBUG").is_some() {
            eprintln!("full run: {full:?}");
        }
        for op in &full.ops {
            let l = format!("op={op}");
            if !labels.contains(&l) {
                labels.push(l);
            }
        }
        if full.spills > 0 {
            labels.push("spilled".into());
        }
        match &full.errored {
            Some(m) if m.contains("injected") => labels.push("full-run:injected-error".into()),
            Some(m) if m.contains("Resources exhausted") => labels.push("full-run:resources-exhausted".into()),
            Some(_) => labels.push("full-run:other-error".into()),
            None => labels.push("full-run:ok".into()),
        }
        if !full.held.clean() {
            return CaseResult::violation(format!(
                "after running to {} and dropping stream + plan, still held after {} scheduler steps: {:?} (ops {:?})",
                if full.errored.is_some() { "the error" } else if full.quiescent { "quiescence (sources hang)" } else { "completion" },
                full.settle_steps,
                full.held,
                full.ops
            ));
        }
        let n = full.items;
        let mut nontrivial = false;
        let mut points = 0u32;
        let mut max_settle = full.settle_steps;
        let mut spilled_at_drop = false;
        let mut live_tasks = false;
        let mut quiescent_drop = false;
        let mut reserved_at_drop = false;
        let mut error_drop = full.errored.is_some();
        // the full run is itself a drop point (completion / error / quiescence); then k = 0..=n
        let mut pts: Vec<(Option<usize>, Point)> = vec![(None, full)];
        for k in drop_points(n) {
            let p = match run_point(case, k).await {
                Ok(p) => p,
                Err(PointError::Rejected(m)) => return CaseResult::inconclusive(format!("plan rejected on re-build: {}", truncate(&m, 60))),
                Err(PointError::Harness(m)) => return CaseResult::inconclusive(format!("harness: {m}")),
            };
            pts.push((Some(k), p));
        }
        for (k, p) in &pts {
            points += 1;
            max_settle = max_settle.max(p.settle_steps);
            if !p.held.clean() {
                return CaseResult::violation(format!(
                    "drop after {} of {} output items (requested k={k:?}; error seen: {:?}; completed: {}; quiescent: {}): still held after {} scheduler steps: {:?}; at the drop {} source streams were alive and {} tasks; ops {:?}",
                    p.items, n, p.errored, p.completed, p.quiescent, p.settle_steps, p.held, p.live_at_drop, p.tasks_at_drop, p.ops
                ))
                .labels(labels.clone());
            }
            if p.errored.is_some() {
                error_drop = true;
            }
            if (p.items > 0 || p.quiescent) && !p.completed && p.errored.is_none() && !p.at_drop.clean() {
                if p.quiescent {
                    quiescent_drop = true;
                }
                nontrivial = true;
                if p.live_at_drop > 0 && p.tasks_at_drop > 0 {
                    live_tasks = true;
                }
                if p.at_drop.files > 0 {
                    spilled_at_drop = true;
                }
                if p.at_drop.reserved > 0 {
                    reserved_at_drop = true;
                }
            }
        }
        labels.push(format!("points={}", if points <= 2 { "1-2" } else if points <= 5 { "3-5" } else if points <= 10 { "6-10" } else { "11+" }));
        labels.push(format!("settle={}", if max_settle == 0 { "0" } else if max_settle <= 2 { "1-2" } else if max_settle <= 10 { "3-10" } else { "11+" }));
        if spilled_at_drop {
            labels.push("mid-stream-drop-with-spill-files".into());
        }
        if reserved_at_drop {
            labels.push("mid-stream-drop-with-reservation".into());
        }
        if quiescent_drop {
            labels.push("drop-at-quiescence-with-something-held".into());
        }
        if live_tasks {
            labels.push("mid-stream-drop-with-live-sources-and-tasks".into());
        }
        if error_drop {
            labels.push("drop-after-error".into());
        }
        if nontrivial {
            labels.push("mid-stream-drop-with-something-held".into());
        }
        CaseResult::pass().nontrivial(nontrivial)
    });
    drop(rt);
    let mut res = res;
    for l in labels {
        if !res.labels.contains(&l) {
            res.labels.push(l);
        }
    }
    res
}

/// Exchange over endless never-Pending sources; one stream per output partition; the streams are
/// dropped in two groups (those that received data / those that did not) in the generated order,
/// then the plan; afterwards the usual release oracle with the multi-thread bound. A background
/// task that stopped yielding cannot be aborted: its source token stays alive → violation; the
/// harness then raises the sources' stop flag so that the runtime can wind down.
/// Multi-thread release bound (10 000 x 1 ms) without relying on tokio's timer: tasks that spin
/// without yielding can pin every worker thread, and then no timer fires.
fn settle_blocking(built: &Built) -> (Held, usize) {
    let mut h = built.env.held(&built.monitor, 0);
    for i in 0..SETTLE_STEPS {
        if h.clean() {
            return (h, i);
        }
        std::thread::sleep(Duration::from_millis(1));
        h = built.env.held(&built.monitor, 0);
    }
    (h, SETTLE_STEPS)
}

fn run_partial(case: &Case, order: DropOrder, nkeys: u8, take: u8, gap: u8) -> CaseResult {
    let rt = match runtime(true) {
        Ok(rt) => rt,
        Err(e) => return CaseResult::inconclusive(format!("runtime: {e}")),
    };
    let mut labels = base_labels(case);
    labels.push(format!("order={order:?}"));
    labels.push(format!("tail-keys={nkeys}"));
    let res = rt.block_on(async {
        let mut built = match build(&case.plan, Ending::TailKeys(u64::MAX / 4, nkeys), false).await {
            Ok(b) => b,
            Err(BuildError::Rejected(m)) => return CaseResult::discard(format!("rejected: {}", truncate(&m, 50))),
            Err(BuildError::Harness(m)) => return CaseResult::inconclusive(format!("harness: {m}")),
        };
        let Some(plan) = built.plan.clone() else { return CaseResult::inconclusive("harness: no plan") };
        let mut ops = vec![];
        plan_ops(&plan, &mut ops);
        for op in &ops {
            let l = format!("op={op}");
            if !labels.contains(&l) {
                labels.push(l);
            }
        }
        let n = plan.output_partitioning().partition_count();
        let mut streams: Vec<Option<SendableRecordBatchStream>> = vec![];
        for p in 0..n {
            match plan.execute(p, built.task_ctx.clone()) {
                Ok(s) => streams.push(Some(s)),
                Err(e) => {
                    built.monitor.stop_all();
                    return CaseResult::discard(format!("rejected: execute: {}", truncate(&e.to_string(), 40)));
                }
            }
        }
        drop(plan);
        // phase 1: poll all output streams round-robin until `take` batches arrived (at least one
        // round, so that the exchange starts), at most 60 rounds of 2 ms per stream
        let mut counts = vec![0usize; n];
        let mut total = 0usize;
        'phase1: for _round in 0..60 {
            for (i, slot) in streams.iter_mut().enumerate() {
                let Some(s) = slot else { continue };
                match tokio::time::timeout(Duration::from_millis(2), s.next()).await {
                    Ok(Some(Ok(_))) => {
                        counts[i] += 1;
                        total += 1;
                    }
                    Ok(Some(Err(_))) | Ok(None) => *slot = None,
                    Err(_) => {}
                }
            }
            if total >= take.max(1) as usize {
                break 'phase1;
            }
        }
        let hot: Vec<usize> = (0..n).filter(|i| counts[*i] > 0).collect();
        let cold: Vec<usize> = (0..n).filter(|i| counts[*i] == 0).collect();
        labels.push(format!("hot={} cold={}", hot.len().min(3), cold.len().min(3)));
        let (first, second): (Vec<usize>, Vec<usize>) = match order {
            DropOrder::HotFirst => (hot.clone(), cold.clone()),
            DropOrder::ColdFirst => (cold.clone(), hot.clone()),
            DropOrder::Together => ((0..n).collect(), vec![]),
        };
        let live_at_first_drop = built.monitor.live_streams();
        for i in &first {
            streams[*i] = None;
        }
        // phase 2: let the sources advance while only the second group is still connected
        if !second.is_empty() {
            let start = built.monitor.batches();
            for _ in 0..40 {
                if built.monitor.batches() >= start + 16 * gap as u64 {
                    break;
                }
                // std sleep on purpose: spinning tasks may pin every worker, and then nobody drives
                // tokio's timer; this thread (block_on) is not a worker
                std::thread::sleep(Duration::from_millis(1));
            }
        }
        let advanced = built.monitor.batches();
        drop(streams);
        built.plan = None;
        let (held, steps) = settle_blocking(&built);
        built.monitor.stop_all();
        if !held.clean() {
            // give the stopped sources a moment so that the runtime can shut down
            for _ in 0..200 {
                if built.env.held(&built.monitor, 0).tasks == 0 {
                    break;
                }
                std::thread::sleep(Duration::from_millis(5));
            }
            return CaseResult::violation(format!(
                "output streams dropped in order {order:?} (first group {first:?}, then {second:?}; {total} batches taken, per stream {counts:?}; tail keys {nkeys}), then the plan: still held after {steps} x 1 ms: {held:?} — a background task keeps its endless input alive (does it still yield?); {advanced} source batches had been produced at the last drop; ops {ops:?}"
            ));
        }
        labels.push(format!("settle={}", if steps == 0 { "0" } else if steps <= 2 { "1-2" } else if steps <= 10 { "3-10" } else { "11+" }));
        let nontrivial = live_at_first_drop > 0 && total > 0;
        if !first.is_empty() && !second.is_empty() {
            labels.push("two-phase-drop".into());
        }
        CaseResult::pass().nontrivial(nontrivial)
    });
    drop(rt);
    let mut res = res;
    for l in labels {
        if !res.labels.contains(&l) {
            res.labels.push(l);
        }
    }
    res
}

fn run_coop(case: &Case) -> CaseResult {
    let rt = match runtime(false) {
        Ok(rt) => rt,
        Err(e) => return CaseResult::inconclusive(format!("runtime: {e}")),
    };
    let mut labels = base_labels(case);
    let res = rt.block_on(async {
        let mut built = match build(&case.plan, Ending::Tail(TAIL_CAP), true).await {
            Ok(b) => b,
            Err(BuildError::Rejected(m)) => return CaseResult::discard(format!("rejected: {}", truncate(&m, 50))),
            Err(BuildError::Harness(m)) => return CaseResult::inconclusive(format!("harness: {m}")),
        };
        let mut ops = vec![];
        if let Some(p) = &built.plan {
            plan_ops(p, &mut ops);
        }
        for op in &ops {
            let l = format!("op={op}");
            if !labels.contains(&l) {
                labels.push(l);
            }
        }
        let mut running = match open(&built, case) {
            Ok(r) => r,
            Err(e) => return CaseResult::discard(format!("rejected: execute: {}", truncate(&e.to_string(), 40))),
        };
        built.plan = None;
        built.receiver_sources.clear();
        let monitor = built.monitor.clone();

        // watcher: records how many source batches were produced between two of its schedulings
        let last_seen = Arc::new(AtomicU64::new(0));
        let max_gap = Arc::new(AtomicU64::new(0));
        let scheduled = Arc::new(AtomicU64::new(0));
        let stop = Arc::new(AtomicBool::new(false));
        let abort_slot: Arc<parking_lot::Mutex<Option<tokio::task::AbortHandle>>> = Arc::new(parking_lot::Mutex::new(None));
        let abort_after = match case.kind {
            Kind::CoopAbort { after } => Some(after.max(1) as u64),
            _ => None,
        };
        let watcher = {
            let (monitor, last_seen, max_gap, scheduled, stop, abort_slot) = (monitor.clone(), last_seen.clone(), max_gap.clone(), scheduled.clone(), stop.clone(), abort_slot.clone());
            tokio::spawn(async move {
                loop {
                    let now = monitor.batches();
                    let gap = now - last_seen.swap(now, Ordering::SeqCst);
                    max_gap.fetch_max(gap, Ordering::SeqCst);
                    let n = scheduled.fetch_add(1, Ordering::SeqCst) + 1;
                    if Some(n) == abort_after {
                        if let Some(h) = abort_slot.lock().as_ref() {
                            h.abort();
                        }
                    }
                    if stop.load(Ordering::SeqCst) {
                        return;
                    }
                    tokio::task::yield_now().await;
                }
            })
        };

        #[derive(Debug)]
        enum End {
            Cancelled,
            Elapsed,
            Finished(usize),
            Failed(String),
        }
        let drain = async move {
            let mut rows = 0usize;
            while let Some(item) = running.streams.next().await {
                match item {
                    Ok(b) => rows += b.num_rows(),
                    Err(e) => return Err(e.to_string()),
                }
            }
            Ok(rows)
        };
        let end = match case.kind {
            Kind::CoopTimeout => match tokio::time::timeout(Duration::from_millis(3), drain).await {
                Err(_) => End::Elapsed,
                Ok(Ok(n)) => End::Finished(n),
                Ok(Err(m)) => End::Failed(m),
            },
            _ => {
                let q = tokio::spawn(drain);
                *abort_slot.lock() = Some(q.abort_handle());
                match q.await {
                    Err(e) if e.is_cancelled() => End::Cancelled,
                    Err(e) => End::Failed(format!("query task panicked: {e}")),
                    Ok(Ok(n)) => End::Finished(n),
                    Ok(Err(m)) => End::Failed(m),
                }
            }
        };
        // the interval between the watcher's last scheduling and the end of the query counts too
        let total = monitor.batches();
        let final_gap = total - last_seen.load(Ordering::SeqCst);
        stop.store(true, Ordering::SeqCst);
        let _ = watcher.await;
        let gap = max_gap.load(Ordering::SeqCst).max(final_gap);
        let sched = scheduled.load(Ordering::SeqCst);
        if gap > MAX_GAP {
            return CaseResult::violation(format!(
                "query does not yield: a ready watcher task on the same current-thread runtime was not scheduled for {gap} consecutive source batches (bound {MAX_GAP}; {total} source batches in total, watcher scheduled {sched} times, query ended as {end:?}); ops {ops:?}"
            ));
        }
        let (held, steps) = settle(&built, false).await;
        if !held.clean() {
            return CaseResult::violation(format!("after {end:?} the query still holds {held:?} after {steps} yields; ops {ops:?}"));
        }
        let capped = monitor.capped() > 0;
        let nontrivial = match &end {
            End::Cancelled => {
                labels.push("end=cancelled".into());
                true
            }
            End::Elapsed => {
                labels.push("end=elapsed".into());
                true
            }
            End::Finished(_) => {
                labels.push("end=finished-by-itself".into());
                false
            }
            End::Failed(m) if capped && m.contains("safety cap") => {
                // the source cap was reached before the cancellation could act: fine as long as the
                // watcher was never starved (checked above)
                labels.push("end=source-cap-first".into());
                false
            }
            End::Failed(m) => {
                labels.push("end=failed".into());
                return CaseResult::inconclusive(format!("query failed: {}", truncate(m, 60)));
            }
        };
        labels.push(format!("gap={}", if gap <= 128 { "<=128" } else if gap <= 512 { "129-512" } else if gap <= 1024 { "513-1024" } else if gap <= 4096 { "1025-4096" } else { "4097-8192" }));
        CaseResult::pass().nontrivial(nontrivial && total > 0)
    });
    drop(rt);
    let mut res = res;
    for l in labels {
        if !res.labels.contains(&l) {
            res.labels.push(l);
        }
    }
    res
}

impl Property for C19 {
    type Case = Case;
    fn id(&self) -> &'static str {
        "C19"
    }
    fn sub(&self) -> &'static str {
        "c19"
    }
    fn level(&self) -> &'static str {
        "fault_enumeration"
    }
    fn strategy(&self, tier: Tier) -> BoxedStrategy<Case> {
        case_strategy(tier)
    }
    fn budget(&self, tier: Tier) -> Budget {
        Budget::new(tier.pick(800, 20_000), tier.pick(8, 16)).min_nontrivial(tier.pick(200, 5_000)).case_timeout(180)
    }
    fn rule(&self) -> String {
        "case = plan shape (9 direct physical shapes, 16 SQL shapes) x scripted inputs (1-3 partitions, Rows/Pending/Error steps) x runtime flavour x knobs; \
         Drop cases execute every drop point k=0..N plus completion on a fresh plan; Coop cases run over endless sources with a watcher task. \
         non-trivial = at a drop point strictly inside the stream something (source stream, task, reservation, spill file) was held at the drop (Drop) / the query was still running when cancelled (Coop); \
         distinct by case JSON"
            .into()
    }
    fn assumptions(&self) -> Vec<String> {
        vec![
            "nothing but the query and the harness watcher runs on the per-case tokio runtime, so RuntimeMetrics::num_alive_tasks()==0 means every background task stopped".into(),
            "multi-thread runtime: release is awaited for at most 10 000 x 1 ms (the only wall-clock bound)".into(),
            "Coop cases: sources are declared bounded although endless (capped at 30 000 batches per partition) so that blocking shapes plan".into(),
        ]
    }
    fn known_signature(&self, case: &Case) -> Option<String> {
        // finding "ensure-coop-skips-leaf-under-coop-exchange": EnsureCooperative leaves a
        // non-cooperative leaf unwrapped when a Cooperative *and Eager* exchange sits above it
        if !matches!(case.kind, Kind::CoopAbort { .. } | Kind::CoopTimeout) || case.plan.streaming_provider {
            return None;
        }
        let rt = runtime(false).ok()?;
        rt.block_on(async {
            let built = build(&case.plan, Ending::Tail(1), true).await.ok()?;
            let plan = built.plan.as_ref().or(built.receiver_sources.first())?;
            if has_unwrapped_leaf(plan, false) { Some(SIG_UNWRAPPED_LEAF.to_string()) } else { None }
        })
    }
    fn run(&self, case: &Case) -> CaseResult {
        if std::env::var_os("VF_LIVE_DEBUG").is_some() {
            if let Ok(rt) = runtime(false) {
                rt.block_on(async {
                    if let Ok(b) = build(&case.plan, if case.kind == Kind::Drop { Ending::Finish } else { Ending::Tail(1) }, case.kind != Kind::Drop).await {
                        if let Some(p) = &b.plan {
                            eprintln!("{}", datafusion::physical_plan::displayable(p.as_ref()).indent(true));
                        }
                    }
                });
            }
        }
        match case.kind {
            Kind::Drop => run_drop(case),
            Kind::PartialDrop { order, nkeys, take, gap } => run_partial(case, order, nkeys, take, gap),
            _ => run_coop(case),
        }
    }
    fn extra(&self, _tier: Tier, _seed: u64) -> Result<serde_json::Value, (String, Case)> {
        Ok(json!({"drop_points": "exhaustive for N<=16 output items, 17 evenly spaced points above", "coop_gap_bound_batches": MAX_GAP, "tail_cap_batches": TAIL_CAP}))
    }
}
