//! C50 — queries accepted over unbounded inputs keep producing results.
//!
//! Domain. Tables `t` (and `u`) are `StreamingTable`s declared infinite and ordered on `ts`
//! (1–3 partitions) over scripted sources: a generated finite *prefix* (0–4 batches of 1–6 rows per
//! partition, `ts` non-decreasing per partition — strictly increasing and unique across partitions
//! for the window shapes) followed by an endless tail whose `ts` keeps increasing (starting 10
//! above the largest prefix `ts`, 4 rows per batch, keys ≥ 100 so that tail rows never join or
//! group with prefix rows; window shapes: same keys as the prefix, see below). Query shapes (SQL, default optimizer, generated
//! `target_partitions` and `batch_size`): filter + projection, UNION ALL, ORDER BY ts
//! (sort-preserving merge), symmetric hash join with a range condition on `ts` (INNER / LEFT /
//! RIGHT / FULL) and without one (INNER), bounded window functions (ROWS and RANGE frames,
//! PARTITION BY k ORDER BY ts), ordered aggregation GROUP BY ts and GROUP BY ts, k, LIMIT — and
//! shapes that can only answer at end of input (full sort on an unordered key, ORDER BY ts DESC,
//! hash aggregation on an unordered key, DISTINCT, window frame UNBOUNDED FOLLOWING).
//!
//! Oracle. Planning fails → "rejected" (fine, trivial). Otherwise the stream is consumed on a
//! current-thread runtime until every source partition has produced D tail batches, D = max(B =
//! 2 000 (B/16 for the join without pruning, whose cost is quadratic in the input seen),
//! 4 x batch_size x target_partitions / 4 rows per tail batch) — order-preserving merges
//! only emit once batch_size merged rows are available, so the bound has to grow with batch_size
//! (a source parks at 4·D so that slower partitions catch up; if the query stalls on a parked input
//! before the slowest partition reached D, safety is judged as usual and liveness only if it already
//! holds — otherwise the case is inconclusive). Two reference sets are computed per shape by a small model over the prefix:
//! `may` = every row of the final answer whose `ts` lies in the prefix; `must` ⊆ `may` = the rows
//! whose delivery is demanded (all of `may`, because the tail pushes `ts` past every prefix value /
//! frame end; nothing for LIMIT and the end-of-input-only shapes). Window shapes: the tail reuses
//! the prefix's keys, so that every window partition continues and every frame closes
//! (BoundedWindowAggExec in Linear mode emits in input order and finalises a ROWS frame only when
//! f + 1 later rows of the same window partition exist — with disjoint tail keys the last rows of
//! each key would block everything behind them forever, legitimately); the model input is the
//! prefix plus the first 6 (deterministic) tail batches per partition.
//!  (a) liveness: `must` ⊆ delivered (multiset) at the deadline — counted in source batches;
//!  (b) safety: delivered rows with a prefix `ts` ⊆ `may` (multiset: no wrong row, no duplicate,
//!      no early emission of a partial group / window / unmatched outer row); ORDER BY output is
//!      sorted; LIMIT n: the stream ends by itself after exactly n rows;
//!  (c) an accepted query of an "end of input only" shape that delivers nothing although the
//!      input is non-empty and the sources advanced B batches is a violation.
//! A per-case timeout (150 s) makes the case inconclusive.
//!
//! Non-trivial: accepted, `must` non-empty, and not all of `must` had been delivered before the
//! first tail batch was produced (the tail was needed to close it).
//!
//! Deviations from DESIGN.md: the reference is a per-shape model in this file, not `refsql`;
//! "hash join with unbounded build side" is not a reject shape in this tree (two unbounded inputs
//! are planned as a symmetric hash join without pruning, which streams its matches — generated as
//! `ShjNoRange`, liveness demanded for the INNER matches).
//!
//! Genuine defect found (now FIXED in /repo; nothing is excluded any more and the case is a plain
//! regression; known_findings.json signature
//! `filter-coalescer-holds-rows:later-input-never-passes`, case regressions/C50/c50/…, proposed
//! repair fixes/C50-filter-no-coalescing-over-unbounded-input.diff): `FilterExec` keeps rows that
//! passed the predicate in its output coalescer until `batch_size` of them have accumulated, also
//! over an unbounded input; when later rows do not pass, the buffered rows are never delivered
//! (RepartitionExec deliberately switches its coalescer off for unbounded inputs). Excluded
//! sub-shape: UNION ALL whose second branch filter `v <= c2` has c2 < 0 (tail values are 0..6);
//! all generated filters otherwise pass at least 4 of 7 tail rows, which the bound D covers.
//!
//! Things that looked like failures and were oracle errors (fixed in the model, not loosened):
//! order-preserving merges emit only when batch_size merged rows are available → the bound D grows
//! with batch_size; BoundedWindowAggExec (Linear) emits in input order and closes a ROWS frame only
//! with f + 1 later rows of the same window partition → the tail continues the window partitions.
//!
//! Sensitivity probes (tools/mutrun … ./check C50 quick; all three detected):
//!  1. physical-optimizer/src/sanity_checker.rs: `check_finiteness_requirements` no longer rejects
//!     `EmissionType::Final` over unbounded inputs → VIOLATION "accepted query delivers nothing while
//!     the sources advance" (`SELECT k, count(*) FROM t GROUP BY k`, AggregateExec(Single,Linear)).
//!  2. physical-plan/src/aggregates/order/full.rs: `GroupOrderingFull::emit_to` never emits before
//!     the end → VIOLATION "accepted query delivered nothing at all" (AggOrdered).
//!  3. physical-plan/src/joins/symmetric_hash_join.rs: prune length forced to 0 → VIOLATION "row
//!     determined by the prefix not delivered" (LEFT JOIN: unmatched prefix row never emitted).
use crate::build::{make_batch, plan_ops, schema};
use crate::env::make_env;
use crate::scripted::{CAP_ERROR, End, Item, Monitor, Script, ScriptedPartition, TailGen, parts};
use arrow::array::{Array, Int64Array, RecordBatch};
use datafusion::catalog::streaming::StreamingTable;
use datafusion::logical_expr::col;
use datafusion::physical_plan::execute_stream;
use datafusion::physical_plan::streaming::PartitionStream;
use datafusion::prelude::SessionConfig;
use futures::StreamExt;
use proptest::prelude::*;
use serde::{Deserialize, Serialize};
use std::collections::BTreeMap;
use std::sync::Arc;
use std::time::Duration;
use vf_kit::engine::*;

pub struct C50;

const B: u64 = 2_000;
const TAIL_GAP: i64 = 10;
/// rows per tail batch
const TAIL_ROWS: i64 = 4;

/// Deadline in tail batches per source partition. Order-preserving merges (SortPreservingMergeExec,
/// order-preserving RepartitionExec) emit only once `batch_size` merged rows are available, per
/// output partition and per stage; the bound therefore grows with batch_size x target_partitions
/// (4 such buffers' worth of rows from every source partition), and is never below B.
fn deadline(case: &Case) -> u64 {
    let need_rows = 4 * case.batch_size.max(1) as u64 * case.target_partitions.clamp(1, 3) as u64;
    // a symmetric hash join without pruning re-copies its ever-growing buffers for every input
    // batch (quadratic): its inner matches are emitted on arrival, B/16 is plenty
    let floor = if matches!(case.shape, QShape::ShjNoRange) { B / 16 } else { B };
    floor.max(need_rows.div_ceil(TAIL_ROWS as u64))
}

#[derive(Clone, Copy, Debug, Serialize, Deserialize, PartialEq)]
pub enum Jt {
    Inner,
    Left,
    Right,
    Full,
}

#[derive(Clone, Debug, Serialize, Deserialize, PartialEq)]
pub enum QShape {
    FilterProject,
    UnionAll,
    Merge,
    ShjRange { jt: Jt, d: u8 },
    ShjNoRange,
    WindowRows { p: u8, f: u8 },
    WindowRange { p: u8, f: u8 },
    AggOrdered,
    AggOrderedPartial,
    Limit { n: u8 },
    // ---- can only answer at end of input
    FullSort,
    SortDesc,
    HashAgg,
    Distinct,
    WindowUnboundedFollowing,
}

/// Threshold of the second UNION ALL branch (`u WHERE v <= c2`). Tail values cycle through 0..6:
/// for c >= 0 at least 4 of 7 tail rows pass (so a FilterExec output coalescer of batch_size rows
/// fills within the bound D); for c < 0 no tail row ever passes — the known-finding sub-shape.
/// In-between selectivities are not generated: the coalescer would need up to 7 x batch_size rows.
fn union_c2(c: i8) -> i64 {
    if c >= 0 { c as i64 + 3 } else { c as i64 }
}

/// one prefix row: key (0..6), ts increment, value
type RowSpec = (u8, u8, i8);

#[derive(Clone, Debug, Serialize, Deserialize)]
pub struct Case {
    pub shape: QShape,
    /// partitions → batches → rows
    pub t: Vec<Vec<Vec<RowSpec>>>,
    pub u: Vec<Vec<Vec<RowSpec>>>,
    pub target_partitions: u8,
    pub batch_size: u16,
    /// filter constant
    pub c: i8,
    pub prefer_existing_sort: bool,
}

impl QShape {
    fn name(&self) -> String {
        let s = format!("{self:?}");
        s.split([' ', '{', '(']).next().unwrap_or("?").to_string()
    }
    fn uses_u(&self) -> bool {
        matches!(self, QShape::UnionAll | QShape::ShjRange { .. } | QShape::ShjNoRange)
    }
    fn unique_ts(&self) -> bool {
        matches!(self, QShape::WindowRows { .. } | QShape::WindowRange { .. } | QShape::WindowUnboundedFollowing)
    }
    fn end_of_input_only(&self) -> bool {
        matches!(self, QShape::FullSort | QShape::SortDesc | QShape::HashAgg | QShape::Distinct | QShape::WindowUnboundedFollowing)
    }
    /// indexes of the output columns that carry a `ts`
    fn ts_cols(&self) -> Vec<usize> {
        match self {
            QShape::ShjRange { .. } | QShape::ShjNoRange => vec![1, 4],
            QShape::AggOrdered | QShape::AggOrderedPartial => vec![0],
            QShape::HashAgg | QShape::Distinct => vec![],
            _ => vec![1],
        }
    }
    fn sql(&self, c: i8) -> String {
        let frame = |unit: &str, p: u8, f: u8| {
            let end = if f == 0 { "CURRENT ROW".to_string() } else { format!("{f} FOLLOWING") };
            format!("PARTITION BY k ORDER BY ts {unit} BETWEEN {p} PRECEDING AND {end}")
        };
        match self {
            QShape::FilterProject => format!("SELECT k, ts, v * 2 AS w FROM t WHERE v >= {c}"),
            QShape::UnionAll => format!("SELECT k, ts, v FROM t WHERE v >= {c} UNION ALL SELECT k, ts, v FROM u WHERE v <= {}", union_c2(c)),
            QShape::Merge => "SELECT k, ts, v FROM t ORDER BY ts".into(),
            QShape::ShjRange { jt, d } => {
                let j = match jt {
                    Jt::Inner => "INNER",
                    Jt::Left => "LEFT",
                    Jt::Right => "RIGHT",
                    Jt::Full => "FULL",
                };
                format!("SELECT t.k, t.ts, t.v, u.k AS uk, u.ts AS uts, u.v AS uv FROM t {j} JOIN u ON t.k = u.k AND t.ts >= u.ts - {d} AND t.ts <= u.ts + {d}")
            }
            QShape::ShjNoRange => "SELECT t.k, t.ts, t.v, u.k AS uk, u.ts AS uts, u.v AS uv FROM t INNER JOIN u ON t.k = u.k".into(),
            QShape::WindowRows { p, f } => {
                let w = frame("ROWS", *p, *f);
                format!("SELECT k, ts, v, sum(v) OVER ({w}) AS w, count(*) OVER ({w}) AS n FROM t")
            }
            QShape::WindowRange { p, f } => {
                let w = frame("RANGE", *p, *f);
                format!("SELECT k, ts, v, sum(v) OVER ({w}) AS w, count(*) OVER ({w}) AS n FROM t")
            }
            QShape::AggOrdered => "SELECT ts, count(*) AS n, sum(v) AS s, min(k) AS m FROM t GROUP BY ts".into(),
            QShape::AggOrderedPartial => "SELECT ts, k, count(*) AS n, sum(v) AS s FROM t GROUP BY ts, k".into(),
            QShape::Limit { n } => format!("SELECT k, ts, v FROM t WHERE v >= {c} LIMIT {}", (*n).max(1)),
            QShape::FullSort => "SELECT k, ts, v FROM t ORDER BY v".into(),
            QShape::SortDesc => "SELECT k, ts, v FROM t ORDER BY ts DESC".into(),
            QShape::HashAgg => "SELECT k, count(*) AS n FROM t GROUP BY k".into(),
            QShape::Distinct => "SELECT DISTINCT k FROM t".into(),
            QShape::WindowUnboundedFollowing => "SELECT k, ts, v, sum(v) OVER (PARTITION BY k ORDER BY ts ROWS BETWEEN 1 PRECEDING AND UNBOUNDED FOLLOWING) AS w FROM t".into(),
        }
    }
}

// ---------------------------------------------------------------------------------------------
// generator

fn table_strategy(tier: Tier) -> impl Strategy<Value = Vec<Vec<Vec<RowSpec>>>> {
    let (batches, rows) = tier.pick((4, 6), (8, 16));
    let row = (0u8..6, 0u8..3, -9i8..10);
    prop::collection::vec(prop::collection::vec(prop::collection::vec(row, 1..=rows), 0..=batches), 1..=3)
}

fn shape_strategy() -> BoxedStrategy<QShape> {
    let jt = prop_oneof![Just(Jt::Inner), Just(Jt::Left), Just(Jt::Right), Just(Jt::Full)];
    prop_oneof![
        2 => Just(QShape::FilterProject),
        2 => Just(QShape::UnionAll),
        3 => Just(QShape::Merge),
        6 => (jt, 0u8..5).prop_map(|(jt, d)| QShape::ShjRange { jt, d }),
        1 => Just(QShape::ShjNoRange),
        4 => (0u8..3, 0u8..3).prop_map(|(p, f)| QShape::WindowRows { p, f }),
        4 => (0u8..5, 0u8..4).prop_map(|(p, f)| QShape::WindowRange { p, f }),
        3 => Just(QShape::AggOrdered),
        3 => Just(QShape::AggOrderedPartial),
        2 => (1u8..12).prop_map(|n| QShape::Limit { n }),
        1 => Just(QShape::FullSort),
        1 => Just(QShape::SortDesc),
        1 => Just(QShape::HashAgg),
        1 => Just(QShape::Distinct),
        1 => Just(QShape::WindowUnboundedFollowing),
    ]
    .boxed()
}

fn case_strategy(tier: Tier) -> BoxedStrategy<Case> {
    // batch_size 8192 needs a 6x longer tail (see `deadline`): thorough tier only
    let batch = match tier {
        Tier::Quick => prop_oneof![Just(2u16), Just(7u16), Just(64u16), Just(1024u16)].boxed(),
        Tier::Thorough => prop_oneof![3 => Just(2u16), 3 => Just(7u16), 3 => Just(64u16), 3 => Just(1024u16), 1 => Just(8192u16)].boxed(),
    };
    (shape_strategy(), table_strategy(tier), table_strategy(tier), 1u8..=3, batch, -9i8..=3, any::<bool>())
        .prop_map(|(shape, t, u, target_partitions, batch_size, c, prefer_existing_sort)| {
            let u = if shape.uses_u() { u } else { vec![] };
            Case { shape, t, u, target_partitions, batch_size, c, prefer_existing_sort }
        })
        .boxed()
}

// ---------------------------------------------------------------------------------------------
// data

#[derive(Clone, Copy, Debug, PartialEq, Eq, PartialOrd, Ord)]
struct R {
    k: i64,
    ts: i64,
    v: i64,
}

/// rows of the prefix per partition per batch, with `ts` assigned
fn materialise(spec: &[Vec<Vec<RowSpec>>], unique: bool) -> Vec<Vec<Vec<R>>> {
    let np = spec.len().max(1) as i64;
    spec.iter()
        .enumerate()
        .map(|(p, batches)| {
            let mut c: i64 = 0;
            batches
                .iter()
                .map(|rows| {
                    rows.iter()
                        .map(|(k, inc, v)| {
                            let inc = (*inc).min(2) as i64;
                            let ts = if unique {
                                c += 1 + inc;
                                c * np + p as i64
                            } else {
                                c += inc;
                                c
                            };
                            R { k: (*k % 6) as i64, ts, v: *v as i64 }
                        })
                        .collect()
                })
                .collect()
        })
        .collect()
}

/// Rows of tail batch `n` of partition `p` (of `np`): `ts` strictly increasing, unique across
/// partitions, starting TAIL_GAP above `t0`. `same_keys`: keys from the prefix domain 0..6 (window
/// shapes: the tail continues the prefix's window partitions so that their frames close);
/// otherwise keys 100..164 (table t) / 200..264 (table u): disjoint from the prefix and from
/// each other, so tail rows never join.
fn tail_rows(p: usize, np: usize, t0: i64, same_keys: bool, side: usize, n: u64) -> Vec<(i64, i64, i64)> {
    let n = n as i64;
    (0..TAIL_ROWS)
        .map(|r| {
            let i = TAIL_ROWS * n + r;
            let k = if same_keys { (i + p as i64) % 6 } else { 100 * (1 + side as i64) + (i + p as i64) % 64 };
            (k, t0 + TAIL_GAP + i * np as i64 + p as i64, (n + r) % 7)
        })
        .collect()
}

fn tail_gen(p: usize, np: usize, t0: i64, same_keys: bool, side: usize) -> TailGen {
    Arc::new(move |n: u64| make_batch(&tail_rows(p, np, t0, same_keys, side, n), 0))
}

type Row = Vec<Option<i64>>;
type Bag = BTreeMap<Row, usize>;

fn bag(rows: impl IntoIterator<Item = Row>) -> Bag {
    let mut b = Bag::new();
    for r in rows {
        *b.entry(r).or_default() += 1;
    }
    b
}

/// first row of `a` whose multiplicity exceeds the one in `b`
fn not_contained(a: &Bag, b: &Bag) -> Option<(Row, usize, usize)> {
    for (r, n) in a {
        let m = b.get(r).copied().unwrap_or(0);
        if *n > m {
            return Some((r.clone(), *n, m));
        }
    }
    None
}

fn some(v: i64) -> Option<i64> {
    Some(v)
}

struct Reference {
    may: Bag,
    must: Bag,
}

/// Window shapes: the tail continues the prefix's window partitions (same keys), so every prefix
/// row's frame eventually closes; ROWS frames of the last prefix rows of a key reach into the tail,
/// whose first rows are therefore part of the model input (`rows` = prefix ++ first tail batches).
/// RANGE frames never reach the tail (TAIL_GAP > largest FOLLOWING offset).
fn window_ref(rows: &[R], t0: i64, rows_frame: bool, p: i64, f: i64) -> Reference {
    let mut by_k: BTreeMap<i64, Vec<R>> = BTreeMap::new();
    for r in rows {
        by_k.entry(r.k).or_default().push(*r);
    }
    let mut all = vec![];
    for part in by_k.values_mut() {
        part.sort_by_key(|r| r.ts);
        for (i, r) in part.iter().enumerate() {
            if r.ts > t0 {
                continue;
            }
            let in_frame: Vec<&R> = part
                .iter()
                .enumerate()
                .filter(|(j, x)| if rows_frame { (*j as i64) >= i as i64 - p && (*j as i64) <= i as i64 + f } else { x.ts >= r.ts - p && x.ts <= r.ts + f })
                .map(|(_, x)| x)
                .collect();
            all.push(vec![some(r.k), some(r.ts), some(r.v), some(in_frame.iter().map(|x| x.v).sum()), some(in_frame.len() as i64)]);
        }
    }
    let b = bag(all);
    Reference { may: b.clone(), must: b }
}

fn reference(case: &Case, t: &[R], u: &[R], t0: i64) -> Reference {
    let c = case.c as i64;
    let all = |rows: Vec<Row>| {
        let b = bag(rows);
        Reference { may: b.clone(), must: b }
    };
    match &case.shape {
        QShape::FilterProject => all(t.iter().filter(|r| r.v >= c).map(|r| vec![some(r.k), some(r.ts), some(r.v * 2)]).collect()),
        QShape::UnionAll => all(t.iter().filter(|r| r.v >= c).chain(u.iter().filter(|r| r.v <= union_c2(case.c))).map(|r| vec![some(r.k), some(r.ts), some(r.v)]).collect()),
        QShape::Merge => all(t.iter().map(|r| vec![some(r.k), some(r.ts), some(r.v)]).collect()),
        QShape::ShjRange { .. } | QShape::ShjNoRange => {
            let (jt, d) = match &case.shape {
                QShape::ShjRange { jt, d } => (*jt, Some(*d as i64)),
                _ => (Jt::Inner, None),
            };
            let cond = |a: &R, b: &R| a.k == b.k && d.map(|d| a.ts >= b.ts - d && a.ts <= b.ts + d).unwrap_or(true);
            let mut rows = vec![];
            for a in t {
                let mut matched = false;
                for b in u {
                    if cond(a, b) {
                        matched = true;
                        rows.push(vec![some(a.k), some(a.ts), some(a.v), some(b.k), some(b.ts), some(b.v)]);
                    }
                }
                if !matched && matches!(jt, Jt::Left | Jt::Full) {
                    rows.push(vec![some(a.k), some(a.ts), some(a.v), None, None, None]);
                }
            }
            if matches!(jt, Jt::Right | Jt::Full) {
                for b in u {
                    if !t.iter().any(|a| cond(a, b)) {
                        rows.push(vec![None, None, None, some(b.k), some(b.ts), some(b.v)]);
                    }
                }
            }
            all(rows)
        }
        QShape::WindowRows { .. } | QShape::WindowRange { .. } => {
            let (rows_frame, p, f) = match &case.shape {
                QShape::WindowRows { p, f } => (true, *p as i64, *f as i64),
                QShape::WindowRange { p, f } => (false, *p as i64, *f as i64),
                _ => (true, 0, 0),
            };
            // prefix ++ the first 6 tail batches of every partition (24 rows each: every key 4 times; frames reach at most 3 rows ahead)
            let np = case.t.len();
            let mut rows = t.to_vec();
            for part in 0..np {
                for n in 0..6 {
                    rows.extend(tail_rows(part, np, t0, true, 0, n).into_iter().map(|(k, ts, v)| R { k, ts, v }));
                }
            }
            window_ref(&rows, t0, rows_frame, p, f)
        }
        QShape::AggOrdered => {
            let mut g: BTreeMap<i64, (i64, i64, i64)> = BTreeMap::new();
            for r in t {
                let e = g.entry(r.ts).or_insert((0, 0, i64::MAX));
                e.0 += 1;
                e.1 += r.v;
                e.2 = e.2.min(r.k);
            }
            all(g.into_iter().map(|(ts, (n, s, m))| vec![some(ts), some(n), some(s), some(m)]).collect())
        }
        QShape::AggOrderedPartial => {
            let mut g: BTreeMap<(i64, i64), (i64, i64)> = BTreeMap::new();
            for r in t {
                let e = g.entry((r.ts, r.k)).or_insert((0, 0));
                e.0 += 1;
                e.1 += r.v;
            }
            all(g.into_iter().map(|((ts, k), (n, s))| vec![some(ts), some(k), some(n), some(s)]).collect())
        }
        QShape::Limit { .. } => Reference { may: bag(t.iter().filter(|r| r.v >= c).map(|r| vec![some(r.k), some(r.ts), some(r.v)])), must: Bag::new() },
        // end-of-input-only shapes: nothing is determined by a prefix; whatever is delivered with a
        // prefix ts must at least be a row over the prefix columns (checked loosely: see run)
        QShape::FullSort | QShape::SortDesc | QShape::HashAgg | QShape::Distinct | QShape::WindowUnboundedFollowing => Reference { may: Bag::new(), must: Bag::new() },
    }
}

fn batch_rows(b: &RecordBatch) -> Result<Vec<Row>, String> {
    let mut cols = vec![];
    for (i, c) in b.columns().iter().enumerate() {
        let Some(a) = c.as_any().downcast_ref::<Int64Array>() else {
            return Err(format!("output column {i} has type {} (harness expects Int64)", c.data_type()));
        };
        cols.push(a);
    }
    Ok((0..b.num_rows()).map(|r| cols.iter().map(|a| if a.is_null(r) { None } else { Some(a.value(r)) }).collect()).collect())
}

// ---------------------------------------------------------------------------------------------

fn register(ctx: &datafusion::prelude::SessionContext, name: &str, prefix: &[Vec<Vec<R>>], monitor: &Monitor, t0: i64, side: usize, cap: u64, same_keys: bool) -> Result<(), String> {
    let np = prefix.len();
    let scripts: Vec<Script> = prefix
        .iter()
        .enumerate()
        .map(|(p, batches)| {
            let items = batches.iter().map(|rows| Item::Batch(make_batch(&rows.iter().map(|r| (r.k, r.ts, r.v)).collect::<Vec<_>>(), 0))).collect();
            // the two tables' tails must not produce equal (k, ts) patterns only by accident of p: shift by side
            Script { items, tail: Some(tail_gen(p, np, t0 + side as i64, same_keys, side)), tail_cap: cap, tail_pending_every: 0, end: End::HangParked }
        })
        .collect();
    let ps: Vec<Arc<dyn PartitionStream>> = parts(monitor, scripts).into_iter().map(|part| Arc::new(ScriptedPartition { schema: schema(), part }) as Arc<dyn PartitionStream>).collect();
    let table = StreamingTable::try_new(schema(), ps).map_err(|e| e.to_string())?.with_infinite_table(true).with_sort_order(vec![col("ts").sort(true, false)]);
    ctx.register_table(name, Arc::new(table)).map_err(|e| e.to_string())?;
    Ok(())
}

async fn run_case(case: &Case) -> CaseResult {
    let shape = &case.shape;
    let mut labels = vec![format!("shape={}", shape.name()), format!("t-partitions={}", case.t.len()), format!("target_partitions={}", case.target_partitions.clamp(1, 3))];
    if let QShape::ShjRange { jt, .. } = shape {
        labels.push(format!("jt={jt:?}"));
    }
    let unique = shape.unique_ts();
    let t = materialise(&case.t, unique);
    let u = if shape.uses_u() { materialise(&case.u, unique) } else { vec![] };
    let flat = |x: &[Vec<Vec<R>>]| -> Vec<R> { x.iter().flatten().flatten().copied().collect() };
    let (tf, uf) = (flat(&t), flat(&u));
    let t0 = tf.iter().chain(uf.iter()).map(|r| r.ts).max().unwrap_or(0);

    let mut config = SessionConfig::new().with_target_partitions(case.target_partitions.clamp(1, 3) as usize).with_batch_size(case.batch_size.max(1) as usize);
    config.options_mut().optimizer.prefer_existing_sort = case.prefer_existing_sort;
    let env = match make_env(config, None) {
        Ok(e) => e,
        Err(m) => return CaseResult::inconclusive(format!("harness: {m}")),
    };
    let monitor = Monitor::new();
    let dl = deadline(case);
    labels.push(format!("batch_size={}", case.batch_size));
    if let Err(m) = register(&env.ctx, "t", &t, &monitor, t0, 0, 4 * dl, unique) {
        return CaseResult::inconclusive(format!("harness: register: {m}"));
    }
    if shape.uses_u() {
        if let Err(m) = register(&env.ctx, "u", &u, &monitor, t0, 1, 4 * dl, false) {
            return CaseResult::inconclusive(format!("harness: register: {m}"));
        }
    }
    let sql = shape.sql(case.c);
    let plan = match env.ctx.sql(&sql).await {
        Err(e) => return CaseResult::discard(format!("sql: {}", truncate(&e.to_string(), 50))).labels(labels),
        Ok(df) => match df.create_physical_plan().await {
            Ok(p) => p,
            Err(e) => {
                labels.push("rejected".into());
                labels.push(format!("rejected:{}", shape.name()));
                let _ = e;
                return CaseResult::pass().labels(labels);
            }
        },
    };
    labels.push("accepted".into());
    let debug = std::env::var_os("VF_LIVE_DEBUG").is_some();
    if debug {
        eprintln!("{sql}\n{}", datafusion::physical_plan::displayable(plan.as_ref()).indent(true));
    }
    let mut ops = vec![];
    plan_ops(&plan, &mut ops);
    for op in &ops {
        let l = format!("op={op}");
        if !labels.contains(&l) {
            labels.push(l);
        }
    }
    if shape.end_of_input_only() {
        labels.push(format!("accepted-although-end-of-input-only:{}", shape.name()));
    }
    let reference = reference(case, &tf, &uf, t0);
    let ts_cols = shape.ts_cols();
    let in_prefix = |row: &Row| ts_cols.iter().any(|c| matches!(row.get(*c), Some(Some(ts)) if *ts <= t0));

    let mut stream = match execute_stream(plan.clone(), env.ctx.task_ctx()) {
        Ok(s) => s,
        Err(e) => return CaseResult::discard(format!("execute: {}", truncate(&e.to_string(), 50))).labels(labels),
    };
    drop(plan);
    let mut delivered: Vec<Row> = vec![];
    let mut before_tail: Vec<Row> = vec![];
    let mut total_rows = 0usize;
    let mut ended = false;
    let mut failure: Option<String> = None;
    let mut last_ts: Option<i64> = None;
    let mut order_violation: Option<String> = None;
    let mut progress_seen = 0u64;
    let mut idle_polls = 0u32;
    loop {
        if monitor.min_tail_batches() >= dl {
            break;
        }
        // the 20 ms poll only hands control back to this loop (sources park at their cap); it
        // never decides a verdict
        let next = match tokio::time::timeout(Duration::from_millis(20), stream.next()).await {
            Ok(n) => n,
            Err(_) => {
                if monitor.all_capped() {
                    break;
                }
                // some partition is parked at its cap and nothing moved during three polls: the
                // query waits for the parked input (e.g. a join consuming one side batch by batch
                // against 1024-row merged batches of the other) — judge what was delivered so far
                let now = monitor.batches();
                if monitor.capped() > 0 && now == progress_seen {
                    idle_polls += 1;
                    if idle_polls >= 3 {
                        break;
                    }
                } else {
                    progress_seen = now;
                    idle_polls = 0;
                }
                continue;
            }
        };
        match next {
            None => {
                ended = true;
                break;
            }
            Some(Err(e)) => {
                failure = Some(e.to_string());
                break;
            }
            Some(Ok(b)) => {
                let rows = match batch_rows(&b) {
                    Ok(r) => r,
                    Err(m) => return CaseResult::inconclusive(format!("harness: {m}")).labels(labels),
                };
                total_rows += rows.len();
                let no_tail_yet = monitor.tail_batches() == 0;
                for r in rows {
                    if matches!(shape, QShape::Merge) {
                        if let Some(Some(ts)) = r.get(1) {
                            if let Some(prev) = last_ts {
                                if *ts < prev && order_violation.is_none() {
                                    order_violation = Some(format!("ORDER BY ts output is not sorted: ts {ts} after {prev}"));
                                }
                            }
                            last_ts = Some(*ts);
                        }
                    }
                    if in_prefix(&r) || ts_cols.is_empty() {
                        if no_tail_yet {
                            before_tail.push(r.clone());
                        }
                        delivered.push(r);
                    }
                }
            }
        }
    }
    drop(stream);
    let min_tail = monitor.min_tail_batches();
    if debug {
        eprintln!("deadline {dl} tail batches per partition; min {min_tail}; total source batches {}; rows delivered {total_rows} (prefix rows {}); ended={ended} failure={failure:?}", monitor.batches(), delivered.len());
    }
    let capped = monitor.capped() > 0;
    let ctx_msg = || format!("query `{sql}`; plan ops {ops:?}; prefix t={tf:?} u={uf:?}; largest prefix ts {t0}; tail batches produced per partition >= {min_tail}");
    if let Some(m) = order_violation {
        return CaseResult::violation(format!("{m}; {}", ctx_msg())).labels(labels);
    }
    if let Some(m) = &failure {
        if !(capped && m.contains(CAP_ERROR)) {
            // a runtime rejection of the shape (NotImplemented etc.) is a discard; anything else is inconclusive
            return if m.contains("not implemented") || m.contains("NotImplemented") || m.contains("This feature is not implemented") {
                CaseResult::discard(format!("execution rejects: {}", truncate(m, 50))).labels(labels)
            } else {
                CaseResult::inconclusive(format!("execution error: {}", truncate(m, 60))).labels(labels)
            };
        }
    }
    let delivered_bag = bag(delivered.iter().cloned());

    // LIMIT: the stream ends by itself after exactly n rows
    if let QShape::Limit { n } = shape {
        let n = (*n).max(1) as usize;
        if !ended && min_tail < dl {
            return CaseResult::inconclusive("deadline not reached: consumption too unbalanced").labels(labels);
        }
        if !ended {
            return CaseResult::violation(format!("LIMIT {n}: the stream did not end although {total_rows} rows were delivered and every source partition produced {min_tail} tail batches; {}", ctx_msg())).labels(labels);
        }
        if total_rows != n {
            return CaseResult::violation(format!("LIMIT {n}: the stream ended after {total_rows} rows; {}", ctx_msg())).labels(labels);
        }
        if let Some((row, n_del, n_may)) = not_contained(&delivered_bag, &reference.may) {
            return CaseResult::violation(format!("LIMIT: delivered prefix row {row:?} x{n_del} but the filter result over the prefix has it x{n_may}; {}", ctx_msg())).labels(labels);
        }
        labels.push("limit-ended".into());
        return CaseResult::pass().nontrivial(true).labels(labels);
    }
    if ended {
        return CaseResult::violation(format!("the stream over an endless input ended by itself after {total_rows} rows; {}", ctx_msg())).labels(labels);
    }
    // The deadline is missed only when the query stalls on an input that is parked at its cap while
    // another one lags behind (very unbalanced consumption): safety is still judged, liveness only
    // if it holds already.
    let deadline_reached = min_tail >= dl;
    if !deadline_reached {
        labels.push("deadline-not-reached".into());
    }

    if shape.end_of_input_only() {
        if !deadline_reached {
            return CaseResult::inconclusive("deadline not reached: consumption too unbalanced").labels(labels);
        }
        // (c) accepted although only answerable at end of input: it must at least deliver something
        if total_rows == 0 && !tf.is_empty() {
            return CaseResult::violation(format!("accepted query delivers nothing while the sources advance ({min_tail} tail batches per partition, non-empty input); {}", ctx_msg())).labels(labels);
        }
        labels.push("end-of-input-only-shape-delivers".into());
        return CaseResult::pass().labels(labels);
    }

    // (b) safety
    if let Some((row, n_del, n_may)) = not_contained(&delivered_bag, &reference.may) {
        return CaseResult::violation(format!(
            "delivered row {row:?} (ts within the prefix) x{n_del}, but the result determined by the input has it x{n_may}; {}",
            ctx_msg()
        ))
        .labels(labels);
    }
    // (a) liveness
    if let Some((row, n_must, n_del)) = not_contained(&reference.must, &delivered_bag) {
        if !deadline_reached {
            return CaseResult::inconclusive("deadline not reached: consumption too unbalanced").labels(labels);
        }
        let what = if total_rows == 0 { "accepted query delivered nothing at all" } else { "row determined by the prefix not delivered" };
        return CaseResult::violation(format!(
            "{what}: {row:?} expected x{n_must}, delivered x{n_del} after every source partition produced {min_tail} further batches ({} of {} determined rows delivered, {total_rows} rows in total); {}",
            delivered_bag.values().sum::<usize>(),
            reference.must.values().sum::<usize>(),
            ctx_msg()
        ))
        .labels(labels);
    }
    let must_n: usize = reference.must.values().sum();
    let needed_tail = not_contained(&reference.must, &bag(before_tail.iter().cloned())).is_some();
    if must_n > 0 {
        labels.push("determined-rows".into());
    }
    if needed_tail {
        labels.push("tail-needed-to-close".into());
    }
    if reference.may.values().sum::<usize>() > must_n {
        labels.push("has-undetermined-rows".into());
    }
    CaseResult::pass().nontrivial(must_n > 0 && needed_tail).labels(labels)
}

impl Property for C50 {
    type Case = Case;
    fn id(&self) -> &'static str {
        "C50"
    }
    fn sub(&self) -> &'static str {
        "c50"
    }
    fn strategy(&self, tier: Tier) -> BoxedStrategy<Case> {
        case_strategy(tier)
    }
    fn budget(&self, tier: Tier) -> Budget {
        Budget::new(tier.pick(200, 6_000), tier.pick(8, 16)).min_nontrivial(tier.pick(50, 1_500)).case_timeout(240)
    }
    fn rule(&self) -> String {
        "case = query shape (10 streaming shapes, 5 end-of-input-only shapes) x prefix tables (1-3 partitions, 0-4 batches of 1-6 rows, ts monotone) x target_partitions x batch_size; \
         non-trivial = accepted, at least one row determined by the prefix, and not all determined rows were delivered before the first tail batch was produced; distinct by case JSON"
            .into()
    }
    fn assumptions(&self) -> Vec<String> {
        vec![
            "tail rows use keys >= 100 (except window shapes) and ts >= max prefix ts + 10, so they never join or group with prefix rows".into(),
            "window shapes: the tail continues the prefix's window partitions (same keys) so that all frames close; the reference is computed over the prefix plus the first 6 tail batches of every partition".into(),
            "bound D = max(2000, 4 x batch_size x target_partitions / 4) tail batches per source partition, counted in source batches; a 150 s per-case timeout only produces 'inconclusive'".into(),
        ]
    }
    fn run(&self, case: &Case) -> CaseResult {
        let rt = match tokio::runtime::Builder::new_current_thread().enable_all().build() {
            Ok(rt) => rt,
            Err(e) => return CaseResult::inconclusive(format!("runtime: {e}")),
        };
        let r = rt.block_on(async {
            match tokio::time::timeout(Duration::from_secs(150), run_case(case)).await {
                Ok(r) => r,
                Err(_) => {
                    eprintln!("c50: per-case timeout: {}", serde_json::to_string(case).unwrap_or_default());
                    CaseResult::inconclusive("per-case timeout (150 s)").label(format!("timeout:{}", case.shape.name()))
                }
            }
        });
        drop(rt);
        r
    }
}
