//! Per-case execution environment (memory pool, spill directory, session) and the release oracle
//! helpers shared by C19 and C50.
use datafusion::execution::disk_manager::{DiskManagerBuilder, DiskManagerMode};
use datafusion::execution::memory_pool::{FairSpillPool, GreedyMemoryPool, MemoryPool, UnboundedMemoryPool};
use datafusion::execution::runtime_env::{RuntimeEnv, RuntimeEnvBuilder};
use datafusion::prelude::{SessionConfig, SessionContext};
use std::path::Path;
use std::sync::Arc;

pub struct Env {
    pub ctx: SessionContext,
    pub rt: Arc<RuntimeEnv>,
    pub pool: Arc<dyn MemoryPool>,
    pub dir: tempfile::TempDir,
}

/// `mem`: None = unbounded pool; Some((bytes, fair)).
pub fn make_env(config: SessionConfig, mem: Option<(usize, bool)>) -> Result<Env, String> {
    let dir = tempfile::tempdir().map_err(|e| format!("tempdir: {e}"))?;
    let pool: Arc<dyn MemoryPool> = match mem {
        None => Arc::new(UnboundedMemoryPool::default()),
        Some((n, false)) => Arc::new(GreedyMemoryPool::new(n)),
        Some((n, true)) => Arc::new(FairSpillPool::new(n)),
    };
    let rt = RuntimeEnvBuilder::new()
        .with_memory_pool(pool.clone())
        .with_disk_manager_builder(DiskManagerBuilder::default().with_mode(DiskManagerMode::Directories(vec![dir.path().to_path_buf()])))
        .build_arc()
        .map_err(|e| format!("runtime env: {e}"))?;
    let ctx = SessionContext::new_with_config_rt(config, rt.clone());
    Ok(Env { ctx, rt, pool, dir })
}

/// number of regular files anywhere below `dir`
pub fn count_files(dir: &Path) -> usize {
    let mut n = 0;
    let Ok(rd) = std::fs::read_dir(dir) else { return 0 };
    for e in rd.flatten() {
        match e.file_type() {
            Ok(t) if t.is_dir() => n += count_files(&e.path()),
            Ok(_) => n += 1,
            Err(_) => {}
        }
    }
    n
}

/// What is still held. All zero = everything released.
#[derive(Clone, Copy, Debug, Default, PartialEq, Eq)]
pub struct Held {
    pub live_streams: usize,
    pub reserved: usize,
    pub disk: u64,
    pub files: usize,
    pub tasks: usize,
}

impl Held {
    pub fn clean(&self) -> bool {
        *self == Held::default()
    }
}

impl Env {
    pub fn held(&self, monitor: &crate::scripted::Monitor, base_tasks: usize) -> Held {
        let tasks = tokio::runtime::Handle::current().metrics().num_alive_tasks().saturating_sub(base_tasks);
        Held {
            live_streams: monitor.live_streams(),
            reserved: self.pool.reserved(),
            disk: self.rt.disk_manager.used_disk_space(),
            files: count_files(self.dir.path()),
            tasks,
        }
    }
}
