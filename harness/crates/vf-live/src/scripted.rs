//! Scripted sources shared by C19 and C50 (DESIGN.md §3.6).
//!
//! A partition is a *script*: `Batch(b) | Pending(n polls) | Error(msg)` items followed by an
//! optional endless tail (a generator indexed by the tail batch number). The same stream type is
//! exposed three ways: as a leaf `ExecutionPlan` ([`ScriptedExec`], declared `NonCooperative` so
//! that the `EnsureCooperative` rule has to wrap it), as a `TableProvider` ([`ScriptedTable`]) and
//! as a `PartitionStream` ([`ScriptedPartition`], for `StreamingTable`).
//!
//! Every partition has a [`Probe`]: number of `execute` calls, polls, produced batches, produced
//! tail batches, and one `Weak` liveness token per stream ever created — "all inputs released" is
//! `live_streams() == 0`. The probes of one case are collected in a [`Monitor`].
//!
//! Safety net: an endless tail stops with an error after `tail_cap` batches, so that a query that
//! never yields / never ends cannot hang the harness (the caller then decides what that means).
use arrow::array::RecordBatch;
use arrow::datatypes::SchemaRef;
use async_trait::async_trait;
use datafusion::catalog::{Session, TableProvider};
use datafusion::common::tree_node::TreeNodeRecursion;
use datafusion::common::{DataFusionError, Result};
use datafusion::execution::{RecordBatchStream, SendableRecordBatchStream, TaskContext};
use datafusion::logical_expr::{Expr, TableType};
use datafusion::physical_expr::{EquivalenceProperties, LexOrdering, Partitioning, PhysicalExpr};
use datafusion::physical_plan::execution_plan::{Boundedness, EmissionType};
use datafusion::physical_plan::streaming::PartitionStream;
use datafusion::physical_plan::{ChildrenPropertiesMode, DisplayAs, DisplayFormatType, ExecutionPlan, PlanProperties, ReplaceChildrenOptions};
use futures::Stream;
use parking_lot::Mutex;
use std::pin::Pin;
use std::sync::atomic::{AtomicU64, Ordering};
use std::sync::{Arc, Weak};
use std::task::{Context, Poll};

pub const CAP_ERROR: &str = "vf-live: endless tail reached its safety cap";

#[derive(Clone, Debug)]
pub enum Item {
    Batch(RecordBatch),
    /// return `Poll::Pending` (after waking the task) this many times
    Pending(u32),
    /// return this execution error, then end the stream
    Error(String),
}

pub type TailGen = Arc<dyn Fn(u64) -> RecordBatch + Send + Sync>;

#[derive(Clone)]
pub struct Script {
    pub items: Vec<Item>,
    /// endless tail: batch number n (0-based) of the tail
    pub tail: Option<TailGen>,
    /// the tail ends with an error after this many batches (harness safety net); with
    /// `end == End::HangParked` it parks (`Pending` forever, no wake-up) at the cap instead
    pub tail_cap: u64,
    /// the tail returns `Pending` (self-waking) once after every this many batches (0 = never)
    pub tail_pending_every: u64,
    /// what happens after the last item when there is no tail
    pub end: End,
}

#[derive(Clone, Copy, Debug, PartialEq, Eq)]
pub enum End {
    /// end of stream
    Finish,
    /// `Pending` forever without ever waking the task (a source waiting for data that never comes)
    HangParked,
    /// `Pending` forever, waking the task every time (a busy-polling source)
    HangBusy,
}

impl Script {
    pub fn finite(items: Vec<Item>) -> Self {
        Script { items, tail: None, tail_cap: 0, tail_pending_every: 0, end: End::Finish }
    }
}

impl std::fmt::Debug for Script {
    fn fmt(&self, f: &mut std::fmt::Formatter<'_>) -> std::fmt::Result {
        write!(f, "Script(items={}, endless={})", self.items.len(), self.tail.is_some())
    }
}

/// Observation point of one partition.
#[derive(Debug, Default)]
pub struct Probe {
    pub executes: AtomicU64,
    pub polls: AtomicU64,
    /// batches handed out (script batches + tail batches)
    pub batches: AtomicU64,
    pub tail_batches: AtomicU64,
    pub rows: AtomicU64,
    pub errors: AtomicU64,
    pub finished: AtomicU64,
    pub capped: AtomicU64,
    /// harness safety net: a set flag makes the endless tail end at its next poll
    pub stop: std::sync::atomic::AtomicBool,
    tokens: Mutex<Vec<Weak<()>>>,
}

impl Probe {
    pub fn live_streams(&self) -> usize {
        self.tokens.lock().iter().filter(|w| w.strong_count() > 0).count()
    }
    pub fn streams_created(&self) -> usize {
        self.tokens.lock().len()
    }
}

/// All probes of one case.
#[derive(Clone, Debug, Default)]
pub struct Monitor {
    pub probes: Arc<Mutex<Vec<Arc<Probe>>>>,
}

impl Monitor {
    pub fn new() -> Self {
        Self::default()
    }
    pub fn probe(&self) -> Arc<Probe> {
        let p = Arc::new(Probe::default());
        self.probes.lock().push(p.clone());
        p
    }
    fn sum(&self, f: impl Fn(&Probe) -> u64) -> u64 {
        self.probes.lock().iter().map(|p| f(p)).sum()
    }
    pub fn live_streams(&self) -> usize {
        self.probes.lock().iter().map(|p| p.live_streams()).sum()
    }
    pub fn streams_created(&self) -> usize {
        self.probes.lock().iter().map(|p| p.streams_created()).sum()
    }
    pub fn batches(&self) -> u64 {
        self.sum(|p| p.batches.load(Ordering::SeqCst))
    }
    pub fn tail_batches(&self) -> u64 {
        self.sum(|p| p.tail_batches.load(Ordering::SeqCst))
    }
    /// smallest number of tail batches produced by any partition that was executed at all
    pub fn min_tail_batches(&self) -> u64 {
        self.probes.lock().iter().filter(|p| p.executes.load(Ordering::SeqCst) > 0).map(|p| p.tail_batches.load(Ordering::SeqCst)).min().unwrap_or(0)
    }
    pub fn polls(&self) -> u64 {
        self.sum(|p| p.polls.load(Ordering::SeqCst))
    }
    /// every partition that was executed has reached its tail cap
    pub fn all_capped(&self) -> bool {
        self.probes.lock().iter().all(|p| p.executes.load(Ordering::SeqCst) == 0 || p.capped.load(Ordering::SeqCst) > 0)
    }
    /// make every endless tail end at its next poll
    pub fn stop_all(&self) {
        for p in self.probes.lock().iter() {
            p.stop.store(true, Ordering::SeqCst);
        }
    }
    pub fn capped(&self) -> u64 {
        self.sum(|p| p.capped.load(Ordering::SeqCst))
    }
    pub fn errors(&self) -> u64 {
        self.sum(|p| p.errors.load(Ordering::SeqCst))
    }
}

pub struct ScriptStream {
    schema: SchemaRef,
    projection: Option<Arc<[usize]>>,
    script: Script,
    pos: usize,
    pending_left: Option<u32>,
    tail_n: u64,
    tail_since_pending: u64,
    done: bool,
    cap_noted: bool,
    probe: Arc<Probe>,
    _token: Arc<()>,
}

impl ScriptStream {
    pub fn new(schema: SchemaRef, projection: Option<Arc<[usize]>>, script: Script, probe: Arc<Probe>) -> Self {
        let token = Arc::new(());
        probe.tokens.lock().push(Arc::downgrade(&token));
        probe.executes.fetch_add(1, Ordering::SeqCst);
        ScriptStream { schema, projection, script, pos: 0, pending_left: None, tail_n: 0, tail_since_pending: 0, done: false, cap_noted: false, probe, _token: token }
    }

    fn emit(&self, b: RecordBatch) -> Result<RecordBatch> {
        self.probe.batches.fetch_add(1, Ordering::SeqCst);
        self.probe.rows.fetch_add(b.num_rows() as u64, Ordering::SeqCst);
        match &self.projection {
            None => Ok(b),
            Some(p) => b.project(p).map_err(DataFusionError::from),
        }
    }
}

impl Stream for ScriptStream {
    type Item = Result<RecordBatch>;
    fn poll_next(mut self: Pin<&mut Self>, cx: &mut Context<'_>) -> Poll<Option<Self::Item>> {
        let this = &mut *self;
        this.probe.polls.fetch_add(1, Ordering::SeqCst);
        if this.done {
            return Poll::Ready(None);
        }
        loop {
            if this.pos < this.script.items.len() {
                match &this.script.items[this.pos] {
                    Item::Pending(n) => {
                        let left = this.pending_left.get_or_insert(*n);
                        if *left == 0 {
                            this.pending_left = None;
                            this.pos += 1;
                            continue;
                        }
                        *left -= 1;
                        cx.waker().wake_by_ref();
                        return Poll::Pending;
                    }
                    Item::Batch(b) => {
                        let b = b.clone();
                        this.pos += 1;
                        return Poll::Ready(Some(this.emit(b)));
                    }
                    Item::Error(m) => {
                        let m = m.clone();
                        this.pos += 1;
                        this.done = true;
                        this.probe.errors.fetch_add(1, Ordering::SeqCst);
                        return Poll::Ready(Some(Err(DataFusionError::Execution(m))));
                    }
                }
            }
            let Some(tail) = this.script.tail.clone() else {
                match this.script.end {
                    End::Finish => {}
                    End::HangParked => return Poll::Pending,
                    End::HangBusy => {
                        cx.waker().wake_by_ref();
                        return Poll::Pending;
                    }
                }
                this.done = true;
                this.probe.finished.fetch_add(1, Ordering::SeqCst);
                return Poll::Ready(None);
            };
            if this.probe.stop.load(Ordering::SeqCst) {
                this.done = true;
                return Poll::Ready(None);
            }
            if this.tail_n >= this.script.tail_cap {
                if this.script.end == End::HangParked {
                    // park at the cap instead of failing: lets slower partitions catch up
                    if !this.cap_noted {
                        this.cap_noted = true;
                        this.probe.capped.fetch_add(1, Ordering::SeqCst);
                    }
                    return Poll::Pending;
                }
                this.done = true;
                this.probe.capped.fetch_add(1, Ordering::SeqCst);
                return Poll::Ready(Some(Err(DataFusionError::Execution(CAP_ERROR.into()))));
            }
            if this.script.tail_pending_every > 0 && this.tail_since_pending >= this.script.tail_pending_every {
                this.tail_since_pending = 0;
                cx.waker().wake_by_ref();
                return Poll::Pending;
            }
            let b = tail(this.tail_n);
            this.tail_n += 1;
            this.tail_since_pending += 1;
            this.probe.tail_batches.fetch_add(1, Ordering::SeqCst);
            return Poll::Ready(Some(this.emit(b)));
        }
    }
}

impl RecordBatchStream for ScriptStream {
    fn schema(&self) -> SchemaRef {
        match &self.projection {
            None => self.schema.clone(),
            Some(p) => Arc::new(self.schema.project(p).expect("projection indices come from the planner")),
        }
    }
}

/// One partition: script + probe.
#[derive(Clone, Debug)]
pub struct Part {
    pub script: Script,
    pub probe: Arc<Probe>,
}

pub fn parts(monitor: &Monitor, scripts: Vec<Script>) -> Vec<Part> {
    scripts.into_iter().map(|script| Part { script, probe: monitor.probe() }).collect()
}

// ---------------------------------------------------------------------------------------------
// leaf ExecutionPlan

#[derive(Debug)]
pub struct ScriptedExec {
    /// unprojected schema
    schema: SchemaRef,
    projection: Option<Arc<[usize]>>,
    parts: Vec<Part>,
    cache: Arc<PlanProperties>,
}

impl ScriptedExec {
    /// `ordering` is expressed over the *projected* schema.
    pub fn new(schema: SchemaRef, projection: Option<Vec<usize>>, parts: Vec<Part>, ordering: Option<LexOrdering>, unbounded: bool) -> Result<Self> {
        let projected = match &projection {
            None => schema.clone(),
            Some(p) => Arc::new(schema.project(p)?),
        };
        let eq = match ordering {
            Some(o) => EquivalenceProperties::new_with_orderings(projected, [o]),
            None => EquivalenceProperties::new(projected),
        };
        let boundedness = if unbounded { Boundedness::Unbounded { requires_infinite_memory: false } } else { Boundedness::Bounded };
        // scheduling type stays NonCooperative (the default): EnsureCooperative must wrap this leaf
        let cache = PlanProperties::new(eq, Partitioning::UnknownPartitioning(parts.len()), EmissionType::Incremental, boundedness);
        Ok(ScriptedExec { schema, projection: projection.map(|p| p.into()), parts, cache: Arc::new(cache) })
    }
}

impl DisplayAs for ScriptedExec {
    fn fmt_as(&self, _t: DisplayFormatType, f: &mut std::fmt::Formatter) -> std::fmt::Result {
        write!(f, "ScriptedExec: partitions={}", self.parts.len())
    }
}

impl ExecutionPlan for ScriptedExec {
    fn name(&self) -> &'static str {
        "ScriptedExec"
    }
    fn properties(&self) -> &Arc<PlanProperties> {
        &self.cache
    }
    fn children(&self) -> Vec<&Arc<dyn ExecutionPlan>> {
        vec![]
    }
    fn replace_children(self: Arc<Self>, _children: Vec<Arc<dyn ExecutionPlan>>, _o: ReplaceChildrenOptions) -> Result<Arc<dyn ExecutionPlan>> {
        Ok(self)
    }
    fn apply_expressions(&self, _f: &mut dyn FnMut(&Arc<dyn PhysicalExpr>) -> Result<TreeNodeRecursion>) -> Result<TreeNodeRecursion> {
        Ok(TreeNodeRecursion::Continue)
    }
    fn with_new_children(self: Arc<Self>, children: Vec<Arc<dyn ExecutionPlan>>) -> Result<Arc<dyn ExecutionPlan>> {
        self.replace_children(children, ReplaceChildrenOptions::new(ChildrenPropertiesMode::Recompute))
    }
    fn execute(&self, partition: usize, _context: Arc<TaskContext>) -> Result<SendableRecordBatchStream> {
        let Some(part) = self.parts.get(partition) else {
            return Err(DataFusionError::Internal(format!("ScriptedExec has no partition {partition}")));
        };
        Ok(Box::pin(ScriptStream::new(self.schema.clone(), self.projection.clone(), part.script.clone(), part.probe.clone())))
    }
}

// ---------------------------------------------------------------------------------------------
// TableProvider over ScriptedExec

#[derive(Debug)]
pub struct ScriptedTable {
    pub schema: SchemaRef,
    pub parts: Vec<Part>,
    /// declared ordering: (column index in the table schema, descending) — applied only when the
    /// projection keeps all of its columns
    pub order_by: Vec<(usize, bool)>,
    pub unbounded: bool,
}

#[async_trait]
impl TableProvider for ScriptedTable {
    fn schema(&self) -> SchemaRef {
        self.schema.clone()
    }
    fn table_type(&self) -> TableType {
        TableType::Base
    }
    async fn scan(&self, _state: &dyn Session, projection: Option<&[usize]>, _filters: &[Expr], _limit: Option<usize>) -> Result<Arc<dyn ExecutionPlan>> {
        use datafusion::physical_expr::PhysicalSortExpr;
        use datafusion::physical_expr::expressions::Column;
        let projected = match projection {
            None => self.schema.clone(),
            Some(p) => Arc::new(self.schema.project(p)?),
        };
        let mut sort = vec![];
        for (col, desc) in &self.order_by {
            let pos = match projection {
                None => Some(*col),
                Some(p) => p.iter().position(|c| c == col),
            };
            // a prefix of the declared ordering stays valid
            let Some(pos) = pos else { break };
            sort.push(PhysicalSortExpr::new(Arc::new(Column::new(projected.field(pos).name(), pos)), arrow::compute::SortOptions { descending: *desc, nulls_first: false }));
        }
        let ordering = LexOrdering::new(sort);
        Ok(Arc::new(ScriptedExec::new(self.schema.clone(), projection.map(|p| p.to_vec()), self.parts.clone(), ordering, self.unbounded)?))
    }
}

// ---------------------------------------------------------------------------------------------
// PartitionStream for StreamingTable

#[derive(Debug)]
pub struct ScriptedPartition {
    pub schema: SchemaRef,
    pub part: Part,
}

impl PartitionStream for ScriptedPartition {
    fn schema(&self) -> &SchemaRef {
        &self.schema
    }
    fn execute(&self, _ctx: Arc<TaskContext>) -> SendableRecordBatchStream {
        Box::pin(ScriptStream::new(self.schema.clone(), None, self.part.script.clone(), self.part.probe.clone()))
    }
}
