//! C31 (unit half, sub-command `c31b`) — every read of a `DynamicFilterPhysicalExpr` returns the
//! expression of exactly one published generation, never an older one than was visible when the read
//! started — under generated interleavings driven by the harness-owned scheduler (`vf_kit::sched`,
//! hooks H1 + H6: the two `RwLock`s of `dynamic_filters/mod.rs` are yielding shims).
//!
//! **Domain.** One base filter `DynamicFilterPhysicalExpr::new([c0@0], e(0))` plus 1–2 *derived*
//! filters made with `with_new_children([c_k@k])` (they share `inner` and the watch channel, each owns
//! its generation cache, and their `current()` has to run the non-trivial remap = the "slow path").
//! Published expressions are `lit(v)` (shape `Lit`) or `c0@0 + lit(v)` (shape `Add`; through derived
//! filter k it must come back as `c_k@k + v`, so a missing / foreign remap is visible); v is unique
//! per `update()` call (`100·(updater+1) + k`), 0 for the initial expression.
//! 1–2 *updater actors* call `update()` 1–3 (thorough 1–4) times on the base filter (what the
//! producers HashJoin / TopK / aggregate do); the updater that finishes last calls
//! `mark_complete()` when `case.complete` (the completion barrier of the real producers: completion
//! is signalled once, after every update). 1–3 *reader actors*, each bound to one filter instance
//! (base or derived), run a script of ≤ 5 (thorough ≤ 7) operations:
//! `Current` (`current()`), `Snapshot` (`PhysicalExpr::snapshot`), `Evaluate` (on a 1-row batch whose
//! columns hold 1·10⁶, 2·10⁶, 3·10⁶ so that value and column are both decodable from the result),
//! `Generation` (`snapshot_generation()`), `WaitUpdate` / `WaitComplete` (the `tokio::sync::watch`
//! based futures, polled with `ActorCtx::block_on`; `WaitUpdate` is only issued while an update is
//! still outstanding and `WaitComplete` only when the case completes — both are documented to wait
//! forever otherwise), `Poll` (`DynamicFilterTracking::classify` on first use, then
//! `DynamicFilterTracker::changed()`). The `Schedule` (≤ 3 preemptions quick / ≤ 4 thorough + forced
//! choice bytes) is interpreted at every `RwLock` access of the file, at every `Pending` and between
//! script operations.
//!
//! **Oracle.** The harness keeps an event log (call / return of every operation) that is only
//! appended to while holding the baton, so log order is real-time order. With
//! *rank(v)* = position of v's `update()` in return order (0 = initial expression):
//! 1. every value read is the initial one or one whose `update()` was called — anything else
//!    (undecodable expression, unknown value, error, `snapshot() == None`) is a torn/unpublished read;
//! 2. **freshness**: rank ≥ number of `update()` calls that had returned when the read started;
//!    and rank ≤ number returned when the read ended (a value cannot be visible before `update()`
//!    took the write lock, see assumptions);
//! 3. a read through derived filter k refers to column k (the remap of *that* instance was applied);
//! 4. per reader, ranks never decrease over its successive reads (any operation kind);
//! 5. `snapshot_generation()` = 1 + rank obeys 2 and 4 as well;
//! 6. `wait_update()` returns only after ≥ 1 update returned since it was called, `wait_complete()`
//!    only after `mark_complete()`; a **logical deadlock** (somebody parked, nobody runnable: lost
//!    wake-up) is a violation; `StepLimit` is inconclusive;
//! 7. tracker: `classify` is `AllComplete` if completion had been signalled before the call,
//!    `Watching` if it had not been when the call ended, never `Static`; `changed()` is true iff an
//!    update returned since the previous poll / the subscription (undetermined only for updates that
//!    raced the `classify` call itself), and stays false once completion has been observed;
//! 8. **generation cache** (implementation invariant, grounded in the rustdoc of the `current_cache`
//!    field, the comment on the `generation > cached` guard and upstream's own stress test
//!    "cache generation never regresses" — not in the C31 sentence itself): when an earlier
//!    `current()`-based call on the same filter instance already returned generation g and g is still
//!    the newest generation when a later `current()`/`snapshot()` on that instance ends, that later
//!    call is necessarily a cache hit, so all such calls return the *same* `Arc` for (instance, g).
//!    Violations of this clause are reported with the prefix `[generation-cache]`.
//! No panic in the code under test.
//!
//! **Non-trivial**: ≥ 1 value read overlapped an `update()` call in real time (an update was in
//! flight when the read started or was called / returned before the read ended) **and** ≥ 1
//! preemption happened at a lock access inside `dynamic_filters/mod.rs`. Distinct by case JSON.
//!
//! **Exhaustive sub-run** (`Property::extra`, `sched::explore`, one exploring thread per configuration):
//! fixed tiny configurations (shape `Add`), every schedule with ≤ 2 (thorough ≤ 4) preemptions and
//! ≤ 1 (≤ 2) forced choices off round robin — (A) 1 updater × 2 updates + complete, readers
//! [Current ×3] and [Current, Evaluate, Snapshot] on one derived filter; (B) 2 updaters × 1 update +
//! complete, readers [Current ×2] on a derived filter and [Poll, WaitUpdate, Current, WaitComplete,
//! Poll] on the base filter; (C) 1 update, three readers ([Current ×2] twice on derived 1,
//! [Snapshot, Generation] on derived 2); (D) 2 updaters × 2 updates, one reader [Current ×4].
//! Measured: quick 10 597 schedules, thorough 3 628 314 schedules, all four spaces enumerated completely.
//!
//! **Budgets / cost** (wall time is dominated by OS thread hand-off latency, so it varies strongly with
//! machine load): quick 16 000 generated cases on 8 shards + the exhaustive sub-run, 2–4 s of run time
//! on a busy 16-core box (≈ 30 s once under extreme load), ~2 850 distinct non-trivial cases;
//! thorough 2 000 000 generated cases on 16 shards + 3.6·10⁶ enumerated schedules, 351 s, 456 699
//! distinct non-trivial cases.
//!
//! **Assumptions checked at run time** (trace inspection, else the case is `inconclusive`): between
//! the call of `update()` / `mark_complete()` and its return the only scheduling points are the
//! `rwlock.write` acquisition(s); `DynamicFilterTracker::changed()` has none. Hence "returned" and
//! "published + broadcast" coincide for the scheduler, and return order = publication order.
//!
//! **Deviations from DESIGN.md.** Crate is `vf-dynf` (not vf-expr). Updates go through the *base*
//! filter only (as every producer in the tree does). Values are unique ids rather than 1, 2, 3… because with
//! two updaters the value is chosen before the lock is taken; the generation of a value is defined by
//! return order. `Generation`, `Poll`, `WaitUpdate`, `WaitComplete` operations and oracle clauses 3,
//! 7, 8 were added. Clause 8 exists because DESIGN's probe "cache write without the
//! `generation > cached` guard" is *behaviour-preserving for clauses 1–7* (a hit requires
//! `cached_gen == generation`, so a clobbered cache only costs a re-computation); it is observable
//! only through `Arc` identity.
//! Not reachable here: the window between `drop(lock)` and `state_watch.send(..)` inside `update()` /
//! `mark_complete()` is not a scheduling point (tokio's watch is not shimmed), so re-ordering of the
//! *broadcasts* of two concurrent callers (e.g. `Complete{g}` overtaken by a late `InProgress{g}`,
//! which would leave `wait_complete()` hanging) is outside this check.
//!
//! **Sensitivity probes** (patches in `crates/vf-dynf/probes/`, made with mkpatch, run with
//! `tools/mutrun <patch> -- ./check C31 quick`, seed 0):
//! * p1 `unguarded-cache-write` (DESIGN probe: `Some(_) => true` instead of `generation > *cached_gen`) —
//!   VIOLATION after 150 cases, clause 8: "[generation-cache] … returned a different Arc … the cache
//!   entry was lost / regressed"; shrunk to 2 readers x [Current, Current], 1 update, 1 preemption.
//!   (Clauses 1–7 cannot see this change: it is behaviour-preserving, see Deviations.)
//! * p2 `generation-read-after-expr` (DESIGN probe: `expr` and `generation` read under two separate
//!   `inner.read()` acquisitions in `current()`) — VIOLATION after 28 cases, clause 2: STALE read (the
//!   cache was filled with (new generation, old expression) and later reads hit it).
//! * p4 `update-two-steps` (`update()` bumps the generation in one write-lock scope and stores the
//!   expression in a second one) — VIOLATION after 13 cases, clause 5 (`snapshot_generation()` ahead of
//!   the published updates); other seeds/cases hit clause 2 through the poisoned cache.
//! * p3 `cache-shared-by-derived` (`with_new_children` re-uses the parent's `current_cache` instead of a
//!   fresh one) — VIOLATION after 13 cases, clause 3 ("expression refers to column 2, expected 0").
//! * p5 `complete-not-broadcast` (`mark_complete()` sets the flag but does not broadcast) — VIOLATION
//!   after 9 cases, clause 6: logical deadlock, a `wait_complete()` waiter parked for ever.
//! * p6 `stale-cache-hit` (cache hit on `cached_gen <= generation`) — VIOLATION after 13 cases, clause 2.
//!
//! **Finding on the unchanged tree** (recorded in `known_findings.json`, replay
//! `regressions/C31/c31b/tracker-spurious-change-after-complete.json`, candidate repair
//! `fixes/C31-watch-send-replace.diff`, verified with mutrun: check passes, finding no longer
//! reproduces, label below drops to 0): `update()` / `mark_complete()` broadcast with
//! `watch::Sender::send`, which *discards* the value while no receiver exists, so the watch state can lag
//! behind `inner`. A `DynamicFilterTracker` that subscribes after such updates starts from a stale
//! generation and reports `changed() == true` on the following `mark_complete()` although nothing
//! changed (contradicts the tracker rustdoc and upstream's `mark_complete_does_not_count_as_a_change`).
//! For C31 this is harmless (one spurious re-read), so the generated search only labels it
//! (`tracker-spurious-change-on-complete (known finding)`); the strict contract is applied by the
//! hand-written replay via `Case::strict_tracker` (never generated). By reading only (not reachable
//! under H6): the same root cause leaves a lost-wake-up window in `wait_complete()` between its
//! `is_complete` check and `subscribe()` under real threads.

use arrow::array::{Array, ArrayRef, Int64Array, RecordBatch};
use arrow::datatypes::{DataType, Field, Schema};
use datafusion_common::ScalarValue;
use datafusion_expr::{ColumnarValue, Operator};
use datafusion_physical_expr::expressions::{BinaryExpr, Column, DynamicFilterPhysicalExpr, Literal, lit};
use datafusion_physical_expr::{DynamicFilterTracking, PhysicalExpr};
use proptest::prelude::*;
use serde::{Deserialize, Serialize};
use serde_json::{Value, json};
use std::collections::{BTreeMap, BTreeSet};
use std::sync::{Arc, Mutex};
use vf_kit::engine::*;
use vf_kit::sched::{self, Actor, ActorCtx, Bounds, Options, Report, Schedule, Verdict};

vf_kit::df_sched_adapter!();

pub struct C31b;

#[derive(Clone, Copy, Debug, Serialize, Deserialize, PartialEq, Eq)]
pub enum Shape {
    /// publish `lit(v)`
    Lit,
    /// publish `c0@0 + lit(v)` (remapped to `c_k@k + v` by derived filter k)
    Add,
}

#[derive(Clone, Copy, Debug, Serialize, Deserialize, PartialEq, Eq)]
pub enum ROp {
    Current,
    Snapshot,
    Evaluate,
    Generation,
    WaitUpdate,
    WaitComplete,
    Poll,
}

#[derive(Clone, Debug, Serialize, Deserialize)]
pub struct Reader {
    /// filter instance: 0 = base, k = k-th derived (clamped to `n_derived`)
    pub filter: u8,
    pub ops: Vec<ROp>,
}

#[derive(Clone, Debug, Serialize, Deserialize)]
pub struct Case {
    pub shape: Shape,
    /// number of derived (`with_new_children`) instances, clamped to 1..=2
    pub n_derived: u8,
    /// number of `update()` calls of each updater actor (1–2 actors, 1–4 calls each; clamped)
    pub updaters: Vec<u8>,
    /// the last updater to finish calls `mark_complete()`
    pub complete: bool,
    pub readers: Vec<Reader>,
    pub schedule: Schedule,
    /// Never generated (always false). When true, oracle clause 7 also rejects a *spurious*
    /// `changed() == true` right after `mark_complete()` — used only by the known-finding replay
    /// `regressions/C31/c31b/tracker-spurious-change-after-complete.json` (see module header).
    #[serde(default)]
    pub strict_tracker: bool,
}

const COL_BASE: i64 = 1_000_000;

#[derive(Clone, Copy, Debug, PartialEq, Eq)]
enum Class {
    Static,
    AllComplete,
    Watching,
}

#[derive(Clone, Debug)]
enum Got {
    /// `current()` / `snapshot()`: decoded value, column index (shape Add), Arc address
    Expr { v: i64, col: Option<usize>, ptr: usize },
    /// `evaluate()`
    Eval { v: i64, col: Option<usize> },
    Gen(u64),
    Woke,
    Completed,
    Polled { changed: Option<bool> },
    Skipped(&'static str),
    /// error / undecodable result
    Bad(String),
}

#[derive(Clone, Debug)]
#[allow(dead_code)]
enum Ev {
    UpdCall { u: usize, v: i64 },
    UpdRet { u: usize, v: i64, err: Option<String> },
    CompCall { u: usize },
    CompRet { u: usize },
    ReadCall { r: usize, i: usize },
    Classified { r: usize, class: Class },
    ReadRet { r: usize, i: usize, got: Got },
}

#[derive(Default)]
struct Shared {
    log: Vec<Ev>,
    returned: usize,
    updaters_done: usize,
}

struct Resolved {
    n_derived: usize,
    updaters: Vec<usize>,
    total_updates: usize,
    /// (filter instance, ops)
    readers: Vec<(usize, Vec<ROp>)>,
}

fn resolve(case: &Case) -> Resolved {
    let n_derived = (case.n_derived as usize).clamp(1, 2);
    let mut updaters: Vec<usize> = case.updaters.iter().take(2).map(|n| (*n as usize).clamp(1, 4)).collect();
    if updaters.is_empty() {
        updaters.push(1);
    }
    let total_updates = updaters.iter().sum();
    let mut readers: Vec<(usize, Vec<ROp>)> = case
        .readers
        .iter()
        .take(3)
        .map(|r| {
            let ops: Vec<ROp> = r.ops.iter().take(8).map(|op| if *op == ROp::WaitComplete && !case.complete { ROp::Current } else { *op }).collect();
            ((r.filter as usize).min(n_derived), ops)
        })
        .collect();
    if readers.is_empty() {
        readers.push((1, vec![ROp::Current]));
    }
    Resolved { n_derived, updaters, total_updates, readers }
}

fn value_of(u: usize, k: usize) -> i64 {
    (100 * (u + 1) + k) as i64
}

fn make_expr(shape: Shape, v: i64) -> Arc<dyn PhysicalExpr> {
    match shape {
        Shape::Lit => lit(v),
        Shape::Add => Arc::new(BinaryExpr::new(Arc::new(Column::new("c0", 0)), Operator::Plus, lit(v))),
    }
}

fn lit_i64(e: &Arc<dyn PhysicalExpr>) -> Option<i64> {
    e.downcast_ref::<Literal>().and_then(|l| match l.value() {
        ScalarValue::Int64(Some(v)) => Some(*v),
        _ => None,
    })
}

fn decode_expr(e: &Arc<dyn PhysicalExpr>) -> Got {
    let ptr = Arc::as_ptr(e) as *const u8 as usize;
    if let Some(v) = lit_i64(e) {
        return Got::Expr { v, col: None, ptr };
    }
    if let Some(b) = e.downcast_ref::<BinaryExpr>() {
        if *b.op() == Operator::Plus {
            if let (Some(c), Some(v)) = (b.left().downcast_ref::<Column>(), lit_i64(b.right())) {
                return Got::Expr { v, col: Some(c.index()), ptr };
            }
        }
    }
    Got::Bad(format!("undecodable expression {e:?}"))
}

fn decode_eval(cv: &ColumnarValue, shape: Shape) -> Got {
    let x = match cv {
        ColumnarValue::Scalar(ScalarValue::Int64(Some(x))) => *x,
        ColumnarValue::Array(a) => match a.as_any().downcast_ref::<Int64Array>() {
            Some(arr) if arr.len() == 1 && arr.null_count() == 0 => arr.value(0),
            _ => return Got::Bad(format!("evaluate returned an unexpected array {a:?}")),
        },
        other => return Got::Bad(format!("evaluate returned {other:?}")),
    };
    match shape {
        Shape::Lit => Got::Eval { v: x, col: None },
        Shape::Add => {
            if x < COL_BASE {
                return Got::Bad(format!("evaluate returned {x}, which is not column + value"));
            }
            Got::Eval { v: x % COL_BASE, col: Some((x / COL_BASE - 1) as usize) }
        }
    }
}

struct Outcome31 {
    report: Report,
    log: Vec<Ev>,
}

fn execute(case: &Case) -> Outcome31 {
    let rs = resolve(case);
    let shape = case.shape;
    let schema = Arc::new(Schema::new(vec![Field::new("c0", DataType::Int64, false), Field::new("c1", DataType::Int64, false), Field::new("c2", DataType::Int64, false)]));
    let cols: Vec<ArrayRef> = (1..=3).map(|k| Arc::new(Int64Array::from(vec![k * COL_BASE])) as ArrayRef).collect();
    let batch = RecordBatch::try_new(schema, cols).expect("static batch");
    // set-up runs un-instrumented on the calling thread
    let base = Arc::new(DynamicFilterPhysicalExpr::new(vec![Arc::new(Column::new("c0", 0)) as Arc<dyn PhysicalExpr>], make_expr(shape, 0)));
    let mut filters: Vec<Arc<dyn PhysicalExpr>> = vec![Arc::clone(&base) as Arc<dyn PhysicalExpr>];
    for k in 1..=rs.n_derived {
        let name = format!("c{k}");
        let d = Arc::clone(&base).with_new_children(vec![Arc::new(Column::new(&name, k)) as Arc<dyn PhysicalExpr>]).expect("with_new_children is infallible");
        filters.push(d);
    }
    let shared: Mutex<Shared> = Mutex::new(Shared::default());
    let with = |f: &mut dyn FnMut(&mut Shared)| f(&mut shared.lock().unwrap_or_else(|p| p.into_inner()));
    let push = |e: Ev| with(&mut |s: &mut Shared| s.log.push(e.clone()));
    let n_updaters = rs.updaters.len();
    let total = rs.total_updates;
    let complete = case.complete;

    let mut actors: Vec<Actor<'_>> = vec![];
    for (u, n) in rs.updaters.iter().copied().enumerate() {
        let (base, push, with) = (&base, &push, &with);
        actors.push(Actor::new(format!("upd{u}"), move |ctx: &ActorCtx| {
            for k in 1..=n {
                ctx.yield_now("next-update");
                let v = value_of(u, k);
                let e = make_expr(shape, v);
                push(Ev::UpdCall { u, v });
                ctx.note("U<");
                let r = base.update(e);
                ctx.note("U>");
                let err = r.err().map(|e| e.to_string());
                with(&mut |s: &mut Shared| {
                    if err.is_none() {
                        s.returned += 1;
                    }
                    s.log.push(Ev::UpdRet { u, v, err: err.clone() });
                });
            }
            let mut last = false;
            with(&mut |s: &mut Shared| {
                s.updaters_done += 1;
                last = s.updaters_done == n_updaters;
            });
            if complete && last {
                ctx.yield_now("before-complete");
                push(Ev::CompCall { u });
                ctx.note("C<");
                base.mark_complete();
                ctx.note("C>");
                push(Ev::CompRet { u });
            }
        }));
    }
    for (r, (f, ops)) in rs.readers.iter().cloned().enumerate() {
        let (push, with, batch) = (&push, &with, &batch);
        let fexpr = &filters[f];
        actors.push(Actor::new(format!("rd{r}"), move |ctx: &ActorCtx| {
            let dynf: &DynamicFilterPhysicalExpr = fexpr.downcast_ref::<DynamicFilterPhysicalExpr>().expect("filter instance is a DynamicFilterPhysicalExpr");
            // results are kept alive so that Arc addresses are not recycled during the run
            let mut keep: Vec<Arc<dyn PhysicalExpr>> = vec![];
            let mut tracking: Option<DynamicFilterTracking> = None;
            for (i, op) in ops.iter().enumerate() {
                ctx.yield_now("next-read");
                push(Ev::ReadCall { r, i });
                ctx.note("R<");
                let got = match op {
                    ROp::Current => match dynf.current() {
                        Ok(e) => {
                            let g = decode_expr(&e);
                            keep.push(e);
                            g
                        }
                        Err(e) => Got::Bad(format!("current() failed: {e}")),
                    },
                    ROp::Snapshot => match fexpr.snapshot() {
                        Ok(Some(e)) => {
                            let g = decode_expr(&e);
                            keep.push(e);
                            g
                        }
                        Ok(None) => Got::Bad("snapshot() returned None".into()),
                        Err(e) => Got::Bad(format!("snapshot() failed: {e}")),
                    },
                    ROp::Evaluate => match fexpr.evaluate(batch) {
                        Ok(cv) => decode_eval(&cv, shape),
                        Err(e) => Got::Bad(format!("evaluate() failed: {e}")),
                    },
                    ROp::Generation => Got::Gen(fexpr.snapshot_generation()),
                    ROp::WaitUpdate => {
                        let mut outstanding = false;
                        with(&mut |s: &mut Shared| outstanding = s.returned < total);
                        if outstanding {
                            ctx.block_on(dynf.wait_update());
                            Got::Woke
                        } else {
                            Got::Skipped("no update outstanding")
                        }
                    }
                    ROp::WaitComplete => {
                        if complete {
                            ctx.block_on(dynf.wait_complete());
                            Got::Completed
                        } else {
                            Got::Skipped("case never completes")
                        }
                    }
                    ROp::Poll => {
                        if tracking.is_none() {
                            let t = DynamicFilterTracking::classify(fexpr);
                            let class = match &t {
                                DynamicFilterTracking::Static => Class::Static,
                                DynamicFilterTracking::AllComplete => Class::AllComplete,
                                DynamicFilterTracking::Watching(_) => Class::Watching,
                            };
                            push(Ev::Classified { r, class });
                            tracking = Some(t);
                        }
                        ctx.note("P<");
                        let changed = tracking.as_mut().and_then(|t| t.watcher()).map(|w| w.changed());
                        ctx.note("P>");
                        Got::Polled { changed }
                    }
                };
                ctx.note("R>");
                push(Ev::ReadRet { r, i, got });
            }
            drop(tracking);
            drop(keep);
        }));
    }
    let report = sched::run(&case.schedule, &Options { step_limit: 20_000 }, &verif_install, actors);
    let log = std::mem::take(&mut shared.lock().unwrap_or_else(|p| p.into_inner()).log);
    Outcome31 { report, log }
}

/// `Some(why)` if the scheduling-point assumptions of the oracle do not hold in this trace.
fn assumptions_broken(report: &Report) -> Option<String> {
    let mut section: Vec<Option<char>> = vec![None; report.actor_names.len()];
    for (i, e) in report.trace.iter().enumerate() {
        if e.file.is_empty() {
            match e.op.as_ref() {
                "U<" => section[e.actor] = Some('U'),
                "C<" => section[e.actor] = Some('C'),
                "P<" => section[e.actor] = Some('P'),
                "U>" | "C>" | "P>" => section[e.actor] = None,
                _ => {}
            }
            continue;
        }
        debug_assert!(report.is_code_event(i));
        match section[e.actor] {
            Some('U') | Some('C') if !e.op.starts_with("rwlock.write") => {
                return Some(format!("update()/mark_complete() has an unexpected scheduling point `{}` at {}:{}", e.op, e.file, e.line));
            }
            Some('P') => return Some(format!("DynamicFilterTracker::changed() has a scheduling point `{}` at {}:{}", e.op, e.file, e.line)),
            _ => {}
        }
    }
    None
}

fn fmt_log(log: &[Ev]) -> String {
    let mut s = String::from("\n  event log (real-time order):");
    for (i, e) in log.iter().enumerate() {
        s.push_str(&format!("\n    {i:3} {e:?}"));
    }
    s
}

#[derive(Default)]
struct Judgement {
    violation: Option<String>,
    labels: BTreeSet<String>,
    overlap: bool,
    value_reads: usize,
    guaranteed_hits: usize,
}

struct PendingRead {
    call_idx: usize,
    lo: usize,
    complete_at_call: bool,
    inflight_at_call: bool,
    upd_events_at_call: usize,
}

#[derive(Default)]
struct PollModel {
    class: Option<Class>,
    last_lo: usize,
    last_hi: usize,
    dropped: bool,
}

/// The history oracle (clauses 1–8 of the module header). `rs` gives the filter instance of each reader.
fn judge(case: &Case, rs: &Resolved, log: &[Ev]) -> Judgement {
    let mut j = Judgement::default();
    let mut returned: Vec<i64> = vec![];
    let mut called: BTreeSet<i64> = BTreeSet::new();
    let mut inflight: BTreeSet<i64> = BTreeSet::new();
    let mut complete_called = false;
    let mut complete_ret = false;
    let mut upd_events = 0usize;
    let n_r = rs.readers.len();
    let mut pending: Vec<Option<PendingRead>> = (0..n_r).map(|_| None).collect();
    let mut last_rank: Vec<usize> = vec![0; n_r];
    let mut polls: Vec<PollModel> = (0..n_r).map(|_| PollModel::default()).collect();
    // (filter, rank) -> index of the first ReadRet of a current()-based call that returned it
    let mut first_done: BTreeMap<(usize, usize), usize> = BTreeMap::new();
    // (filter, rank) -> Arc address served by guaranteed cache hits
    let mut hit_ptr: BTreeMap<(usize, usize), (usize, usize)> = BTreeMap::new();
    macro_rules! fail {
        ($($t:tt)*) => {{
            j.violation = Some(format!($($t)*));
            return j;
        }};
    }
    for (idx, ev) in log.iter().enumerate() {
        match ev {
            Ev::UpdCall { v, .. } => {
                upd_events += 1;
                called.insert(*v);
                inflight.insert(*v);
                if complete_called {
                    // the harness never does this (completion barrier); guard the oracle anyway
                    fail!("harness error: update() issued after mark_complete()");
                }
            }
            Ev::UpdRet { v, err, .. } => {
                upd_events += 1;
                inflight.remove(v);
                if let Some(e) = err {
                    fail!("update(value {v}) failed: {e}");
                }
                returned.push(*v);
            }
            Ev::CompCall { .. } => complete_called = true,
            Ev::CompRet { .. } => complete_ret = true,
            Ev::ReadCall { r, .. } => {
                pending[*r] = Some(PendingRead { call_idx: idx, lo: returned.len(), complete_at_call: complete_ret, inflight_at_call: !inflight.is_empty(), upd_events_at_call: upd_events });
            }
            Ev::Classified { r, class } => {
                let Some(p) = pending[*r].as_ref() else { fail!("harness error: Classified without a pending read") };
                j.labels.insert(format!("classify={class:?}"));
                match class {
                    Class::Static => fail!("event {idx}: DynamicFilterTracking::classify reported Static for a dynamic filter"),
                    Class::AllComplete if !complete_ret => fail!("event {idx}: classify reported AllComplete but mark_complete() had not returned"),
                    Class::Watching if p.complete_at_call => fail!("event {idx}: classify reported Watching although mark_complete() had returned before the call"),
                    _ => {}
                }
                if *class == Class::Watching && complete_ret {
                    j.labels.insert("classify-raced-complete".into());
                }
                polls[*r] = PollModel { class: Some(*class), last_lo: p.lo, last_hi: returned.len(), dropped: false };
            }
            Ev::ReadRet { r, i, got } => {
                let Some(p) = pending[*r].take() else { fail!("harness error: ReadRet without ReadCall") };
                let (f, ops) = &rs.readers[*r];
                let op = ops[*i];
                let hi = returned.len();
                let lo = p.lo;
                let overlapped = p.inflight_at_call || upd_events != p.upd_events_at_call;
                let what = format!("reader {r} op #{i} {op:?} on filter instance {f} (events {}..{idx})", p.call_idx);
                // value-carrying results: clauses 1–5
                let value: Option<(usize, Option<usize>)> = match got {
                    Got::Bad(m) => fail!("{what}: torn / unpublished read: {m}"),
                    Got::Expr { v, col, .. } | Got::Eval { v, col } => {
                        let rank = if *v == 0 {
                            0
                        } else if let Some(pos) = returned.iter().position(|x| x == v) {
                            pos + 1
                        } else if called.contains(v) {
                            fail!("{what}: returned value {v} whose update() had not taken effect yet (still in flight) — unpublished expression visible");
                        } else {
                            fail!("{what}: returned value {v}, which was never published — torn read");
                        };
                        Some((rank, *col))
                    }
                    Got::Gen(g) => {
                        if *g == 0 {
                            fail!("{what}: snapshot_generation() returned 0");
                        }
                        let rank = (*g - 1) as usize;
                        if rank > hi {
                            fail!("{what}: snapshot_generation() = {g} but only {hi} update() calls had returned");
                        }
                        Some((rank, None))
                    }
                    _ => None,
                };
                if let Some((rank, col)) = value {
                    j.value_reads += 1;
                    if overlapped {
                        j.overlap = true;
                        j.labels.insert("read-overlapped-update".into());
                    }
                    if rank < lo {
                        fail!(
                            "{what}: STALE read — {lo} update() call(s) had returned before the read started (newest value {}), but the read returned generation rank {rank} (value {})",
                            returned[lo - 1],
                            if rank == 0 { 0 } else { returned[rank - 1] }
                        );
                    }
                    if rank > hi {
                        fail!("{what}: returned generation rank {rank} but only {hi} update() calls had returned when the read ended");
                    }
                    if let Some(c) = col {
                        if case.shape == Shape::Add && c != *f {
                            fail!("{what}: expression refers to column {c}, expected {f} (children of this instance not / wrongly remapped)");
                        }
                    } else if case.shape == Shape::Add && !matches!(got, Got::Gen(_)) {
                        fail!("{what}: shape Add but the result carries no column");
                    }
                    if rank < last_rank[*r] {
                        fail!("{what}: generation went backwards for this reader: rank {rank} after rank {}", last_rank[*r]);
                    }
                    last_rank[*r] = rank;
                    if lo < hi {
                        j.labels.insert("update-returned-during-read".into());
                    }
                    if rank == 0 {
                        j.labels.insert("read-initial".into());
                    }
                    if rank > lo {
                        j.labels.insert("read-newer-than-start".into());
                    }
                    // clause 8: generation cache
                    let current_based = matches!(op, ROp::Current | ROp::Snapshot | ROp::Evaluate);
                    if let Got::Expr { ptr, .. } = got {
                        let warmed = first_done.get(&(*f, rank)).map(|d| *d < p.call_idx).unwrap_or(false);
                        if warmed && rank == hi {
                            j.guaranteed_hits += 1;
                            match hit_ptr.get(&(*f, rank)) {
                                None => {
                                    hit_ptr.insert((*f, rank), (*ptr, idx));
                                }
                                Some((q, at)) if q != ptr => fail!(
                                    "[generation-cache] {what}: generation rank {rank} was already cached for this instance (first served at event {}) and is still the newest, \
                                     yet this call returned a different Arc ({ptr:#x} vs {q:#x} served at event {at}) — the cache entry was lost / regressed",
                                    first_done[&(*f, rank)]
                                ),
                                _ => {}
                            }
                        }
                    }
                    if current_based {
                        first_done.entry((*f, rank)).or_insert(idx);
                    }
                }
                match got {
                    Got::Woke => {
                        j.labels.insert("wait_update-woke".into());
                        if hi <= lo {
                            fail!("{what}: wait_update() returned although no update() returned since it was called ({lo} before, {hi} after)");
                        }
                    }
                    Got::Completed => {
                        j.labels.insert("wait_complete-returned".into());
                        if !complete_ret {
                            fail!("{what}: wait_complete() returned but mark_complete() had not returned");
                        }
                    }
                    Got::Skipped(why) => {
                        j.labels.insert(format!("skipped: {why}"));
                    }
                    Got::Polled { changed } => {
                        let m = &mut polls[*r];
                        match (m.class, changed) {
                            (Some(Class::Watching), Some(c)) => {
                                if m.dropped {
                                    if *c {
                                        fail!("{what}: changed() = true after the tracker had observed completion");
                                    }
                                    j.labels.insert("poll-after-complete".into());
                                } else {
                                    if hi > m.last_hi && !*c {
                                        fail!("{what}: changed() = false although {} update() call(s) returned since the previous poll / subscription", hi - m.last_hi);
                                    }
                                    if hi == m.last_lo && *c {
                                        // Known finding (module header): update() broadcasts with `watch::Sender::send`, which drops
                                        // the value while nobody is subscribed, so a later subscriber starts from a stale generation
                                        // and the Complete{generation} broadcast looks like a change. Harmless for C31 (a spurious
                                        // re-read), therefore tolerated unless the case asks for the strict tracker contract.
                                        if complete_ret && !case.strict_tracker {
                                            j.labels.insert("tracker-spurious-change-on-complete (known finding)".into());
                                        } else {
                                            fail!("{what}: changed() = true although no update() returned since the previous poll / subscription");
                                        }
                                    }
                                    j.labels.insert(format!("poll-changed={c}"));
                                    m.last_lo = hi;
                                    m.last_hi = hi;
                                    if complete_ret {
                                        m.dropped = true;
                                    }
                                }
                            }
                            (Some(Class::AllComplete), None) => {
                                j.labels.insert("poll-all-complete".into());
                            }
                            (c, ch) => fail!("harness error: poll result {ch:?} for classification {c:?}"),
                        }
                    }
                    _ => {}
                }
            }
        }
    }
    j
}

fn run_case(case: &Case) -> (CaseResult, Report) {
    let rs = resolve(case);
    let out = execute(case);
    let report = out.report;
    if let Some(p) = report.panics.first() {
        if p.location.contains("/harness/crates/") || p.location.contains("crates/vf-") {
            panic!("harness actor panicked at {}: {}", p.location, p.message);
        }
        let r = CaseResult::violation(format!("panic in code under test at {}: {}\n{}{}", p.location, truncate(&p.message, 500), report.describe(60), fmt_log(&out.log))).label("panic");
        return (r, report);
    }
    if report.verdict == Verdict::StepLimit {
        return (CaseResult::inconclusive("step limit"), report);
    }
    if let Some(why) = assumptions_broken(&report) {
        return (CaseResult::inconclusive(format!("oracle assumption broken: {why}")), report);
    }
    let j = judge(case, &rs, &out.log);
    if let Some(m) = j.violation {
        let r = CaseResult::violation(format!("{m}\n  {}{}", report.describe(60), fmt_log(&out.log)));
        return (r, report);
    }
    if let Verdict::Deadlock { .. } = report.verdict {
        let r = CaseResult::violation(format!("logical deadlock (lost wake-up?)\n  {}{}", report.describe(60), fmt_log(&out.log))).label("deadlock");
        return (r, report);
    }
    let code_preemptions = report.preemptions.iter().filter(|i| report.trace[**i].file.contains("dynamic_filters")).count();
    let nontrivial = j.overlap && code_preemptions > 0;
    let mut res = CaseResult::pass().nontrivial(nontrivial);
    res = res.labels(j.labels.iter().cloned());
    res = res.label(format!("shape={:?}", case.shape));
    res = res.label(format!("updaters={}", rs.updaters.len()));
    res = res.label(format!("updates={}", rs.total_updates));
    res = res.label(format!("readers={}", rs.readers.len()));
    res = res.label(format!("derived={}", rs.n_derived));
    res = res.label(format!("preemptions={}", report.preemptions.len()));
    res = res.label(format!("preemptions-in-code={}", code_preemptions.min(4)));
    if case.complete {
        res = res.label("completes");
    }
    let mut kinds: BTreeSet<String> = BTreeSet::new();
    for (f, ops) in &rs.readers {
        kinds.insert(if *f == 0 { "reader-on-base".into() } else { "reader-on-derived".into() });
        for op in ops {
            kinds.insert(format!("op={op:?}"));
        }
    }
    res = res.labels(kinds);
    if j.guaranteed_hits > 0 {
        res = res.label("cache-hit-checked");
    }
    if j.guaranteed_hits > 1 {
        res = res.label("cache-hit-compared");
    }
    if report.parks.iter().any(|p| *p > 0) {
        res = res.label("a-waiter-parked");
    }
    let _ = j.value_reads;
    (res, report)
}

fn op_strategy() -> BoxedStrategy<ROp> {
    prop_oneof![
        6 => Just(ROp::Current),
        2 => Just(ROp::Snapshot),
        3 => Just(ROp::Evaluate),
        1 => Just(ROp::Generation),
        1 => Just(ROp::WaitUpdate),
        1 => Just(ROp::WaitComplete),
        2 => Just(ROp::Poll),
    ]
    .boxed()
}

struct ExhaustiveConfig {
    key: &'static str,
    what: &'static str,
    case: Case,
    bounds: Bounds,
}

fn exhaustive_configs(tier: Tier) -> Vec<ExhaustiveConfig> {
    let mk = |updaters: Vec<u8>, complete: bool, n_derived: u8, readers: Vec<(u8, Vec<ROp>)>| Case {
        shape: Shape::Add,
        n_derived,
        updaters,
        complete,
        readers: readers.into_iter().map(|(filter, ops)| Reader { filter, ops }).collect(),
        schedule: Schedule::default(),
        strict_tracker: false,
    };
    use ROp::*;
    let bounds = |pre: usize, dev: usize| Bounds { max_preemptions: pre, max_forced_deviations: dev, max_runs: tier.pick(6_000, 4_000_000) };
    vec![
        ExhaustiveConfig {
            key: "exhaustive_subrun_A",
            what: "1 updater x 2 updates + complete; readers [Current x3] and [Current, Evaluate, Snapshot] on one derived filter",
            case: mk(vec![2], true, 1, vec![(1, vec![Current, Current, Current]), (1, vec![Current, Evaluate, Snapshot])]),
            bounds: bounds(tier.pick(2, 4), tier.pick(1, 2)),
        },
        ExhaustiveConfig {
            key: "exhaustive_subrun_B",
            what: "2 updaters x 1 update + complete; readers [Current x2] on a derived filter and [Poll, WaitUpdate, Current, WaitComplete, Poll] on the base filter",
            case: mk(vec![1, 1], true, 1, vec![(1, vec![Current, Current]), (0, vec![Poll, WaitUpdate, Current, WaitComplete, Poll])]),
            bounds: bounds(tier.pick(2, 4), tier.pick(1, 2)),
        },
        ExhaustiveConfig {
            key: "exhaustive_subrun_C",
            what: "1 updater x 1 update, never completes; readers [Current x2], [Current x2] on derived filter 1 and [Snapshot, Generation] on derived filter 2",
            case: mk(vec![1], false, 2, vec![(1, vec![Current, Current]), (1, vec![Current, Current]), (2, vec![Snapshot, Generation])]),
            bounds: bounds(tier.pick(2, 4), tier.pick(1, 2)),
        },
        ExhaustiveConfig {
            key: "exhaustive_subrun_D",
            what: "2 updaters x 2 updates; one reader [Current x4] on a derived filter",
            case: mk(vec![2, 2], false, 1, vec![(1, vec![Current, Current, Current, Current])]),
            bounds: bounds(tier.pick(2, 4), tier.pick(1, 2)),
        },
    ]
}

fn explore_config(cfg: &ExhaustiveConfig) -> Result<Value, (String, Case)> {
    let mut nontrivial = 0u64;
    let mut hits_compared = 0u64;
    let res = sched::explore(&cfg.bounds, |s| {
        let mut c = cfg.case.clone();
        c.schedule = s.clone();
        let (r, report) = run_case(&c);
        match r.outcome {
            Outcome::Pass => {
                if r.nontrivial {
                    nontrivial += 1;
                }
                if r.labels.iter().any(|l| l == "cache-hit-compared") {
                    hits_compared += 1;
                }
                Ok(report)
            }
            Outcome::Violation(m) => Err(m),
            Outcome::Inconclusive(m) | Outcome::Discard(m) => panic!("{}: unexpected non-verdict in the exhaustive sub-run: {m}", cfg.key),
        }
    });
    match res {
        Ok(stats) => Ok(json!({
            "config": cfg.what,
            "max_preemptions": cfg.bounds.max_preemptions,
            "max_forced_deviations": cfg.bounds.max_forced_deviations,
            "schedules_enumerated": stats.runs,
            "exhaustive": stats.complete,
            "max_decision_points": stats.max_decisions,
            "schedules_nontrivial": nontrivial,
            "schedules_with_cache_hits_compared": hits_compared,
        })),
        Err((schedule, m)) => {
            let mut c = cfg.case.clone();
            c.schedule = schedule;
            Err((format!("{} ({}): {m}", cfg.key, cfg.what), c))
        }
    }
}

impl Property for C31b {
    type Case = Case;
    fn id(&self) -> &'static str {
        "C31"
    }
    fn sub(&self) -> &'static str {
        "c31b"
    }
    fn strategy(&self, tier: Tier) -> BoxedStrategy<Case> {
        let max_updates: u8 = tier.pick(3, 4);
        let max_ops: usize = tier.pick(5, 7);
        let reader = (prop_oneof![1 => Just(0u8), 3 => Just(1u8), 2 => Just(2u8)], prop::collection::vec(op_strategy(), 1..=max_ops)).prop_map(|(filter, ops)| Reader { filter, ops });
        (
            prop_oneof![1 => Just(Shape::Lit), 3 => Just(Shape::Add)],
            1u8..=2,
            prop::collection::vec(1u8..=max_updates, 1..=2),
            prop::bool::weighted(0.7),
            prop::collection::vec(reader, 1..=3),
            Schedule::strategy(tier.pick(3, 4), 30, 8),
        )
            .prop_map(|(shape, n_derived, updaters, complete, readers, schedule)| Case { shape, n_derived, updaters, complete, readers, schedule, strict_tracker: false })
            .boxed()
    }
    fn budget(&self, tier: Tier) -> Budget {
        Budget::new(tier.pick(16_000, 2_000_000), tier.pick(8, 16)).min_nontrivial(tier.pick(800, 100_000)).case_timeout(60)
    }
    fn rule(&self) -> String {
        "one base DynamicFilterPhysicalExpr + 1-2 with_new_children instances; 1-2 updater actors x 1-3 (thorough 1-4) update() calls publishing lit(v) or c0+lit(v) with unique v, \
         optional mark_complete by the last updater; 1-3 reader actors x 1-5 (1-7) ops from {current, snapshot, evaluate, snapshot_generation, wait_update, wait_complete, tracker poll}; \
         Schedule with <= 3 (4) preemptions at RwLock accesses / between ops. Non-trivial = a value read overlapped an update() call in real time AND >= 1 preemption at a lock access \
         inside dynamic_filters/mod.rs; distinct by case JSON"
            .into()
    }
    fn assumptions(&self) -> Vec<String> {
        vec![
            "the scheduler is sequentially consistent: it explores which actor performs the next lock access, not hardware reordering".into(),
            "update()/mark_complete() have no scheduling point after taking the write lock and tracker.changed() has none at all (verified per case on the trace); so return order = publication order and 'returned' = 'published and broadcast'".into(),
            "tokio::sync::watch is not instrumented: the gap between releasing the lock and broadcasting in update()/mark_complete() is not explored".into(),
            "oracle clause 8 (generation cache serves one Arc per (instance, generation) once warmed) is an implementation invariant taken from the field rustdoc and upstream's stress test, not from the property sentence".into(),
            "updates are issued through the base filter only and never after mark_complete(), as the producers in the tree do".into(),
        ]
    }
    fn known_signature(&self, case: &Case) -> Option<String> {
        // only the hand-written strict replay carries the flag; generated cases are never excluded
        case.strict_tracker.then(|| "tracker-spurious-change-after-complete".to_string())
    }
    fn run(&self, case: &Case) -> CaseResult {
        run_case(case).0
    }
    fn extra(&self, tier: Tier, _seed: u64) -> Result<Value, (String, Case)> {
        // the configurations are independent: one exploring thread each (a run is latency-bound)
        let configs = exhaustive_configs(tier);
        let results: Vec<Result<Value, (String, Case)>> = std::thread::scope(|scope| {
            let handles: Vec<_> = configs.iter().map(|cfg| scope.spawn(move || explore_config(cfg))).collect();
            handles.into_iter().map(|h| h.join().unwrap_or_else(|e| std::panic::resume_unwind(e))).collect()
        });
        let mut out = serde_json::Map::new();
        for (cfg, r) in configs.iter().zip(results) {
            out.insert(cfg.key.to_string(), r?);
        }
        Ok(Value::Object(out))
    }
}
