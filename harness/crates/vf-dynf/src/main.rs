mod c31b;

fn main() {
    vf_kit::dispatch! {
        "c31b" => c31b::C31b,
    }
}
